// PATH-injected `git` seam: counts invocations (ZV_SHIM_COUNTER file), logs argv (ZV_SHIM_LOG), and makes the
// k-th (and optionally the j-th) invocation fail in a chosen mode; every other call execs the real git.
#include <signal.h>
#include <stdio.h>
#include <stdlib.h>
#include <string.h>
#include <unistd.h>

static long read_count(const char *path) { FILE *f = fopen(path, "r"); long n = 0; if (f) { if (fscanf(f, "%ld", &n) != 1) n = 0; fclose(f); } return n; }

int main(int argc, char **argv) {
    const char *counter = getenv("ZV_SHIM_COUNTER");
    const char *logp = getenv("ZV_SHIM_LOG");
    const char *real = getenv("ZV_REAL_GIT");
    const char *at = getenv("ZV_SHIM_FAULT_AT");
    const char *at2 = getenv("ZV_SHIM_FAULT_AT2");
    const char *mode = getenv("ZV_SHIM_MODE");
    if (!real) real = "/usr/bin/git";
    long n = 0;
    if (counter) { n = read_count(counter) + 1; FILE *f = fopen(counter, "w"); if (f) { fprintf(f, "%ld\n", n); fclose(f); } }
    if (logp) { FILE *f = fopen(logp, "a"); if (f) { fprintf(f, "%ld", n); for (int i = 1; i < argc; i++) fprintf(f, " %s", argv[i]); fprintf(f, "\n"); fclose(f); } }
    int fault = (at && atol(at) == n) || (at2 && atol(at2) == n);
    if (fault && mode) {
        if (!strcmp(mode, "exit1")) { fprintf(stderr, "error: injected failure\n"); return 1; }
        if (!strcmp(mode, "exit128")) { fprintf(stderr, "fatal: not a git repository (or any of the parent directories): .git\n"); return 128; }
        if (!strcmp(mode, "garbage")) { fwrite("\xff\xfegarbage\n\x01 not a hash\n", 1, 24, stdout); return 0; }
        if (!strcmp(mode, "empty")) { return 0; }
        if (!strcmp(mode, "kill")) { raise(SIGKILL); return 137; }
        if (!strcmp(mode, "silent1")) { return 1; }
        /* git "succeeds" with content of the right kind but hostile value */
        if (!strcmp(mode, "neg")) { puts("-1"); return 0; }
        if (!strcmp(mode, "huge")) { puts("99999999999999999999"); return 0; }
        if (!strcmp(mode, "i64max")) { puts("9223372036854775807"); return 0; }
        if (!strcmp(mode, "u32over")) { puts("4294967296"); return 0; }
        if (!strcmp(mode, "zero")) { puts("0"); return 0; }
        if (!strcmp(mode, "blank")) { puts("   "); return 0; }
        if (!strcmp(mode, "twolines")) { puts("0123456789abcdef0123456789abcdef01234567\nfedcba9876543210fedcba9876543210fedcba98"); return 0; }
        if (!strcmp(mode, "nonutf8name")) { fwrite("v1.0.0\xff\nv\xc3\x28\n", 1, 11, stdout); return 0; }
        if (!strcmp(mode, "longline")) { for (int i = 0; i < 200000; i++) putchar('a'); putchar('\n'); return 0; }
        if (!strcmp(mode, "tagish")) { puts("v1.2.3\nv9.9.9-rc.1\n1.0.0\nnot-a-version"); return 0; }
        if (!strcmp(mode, "stderr0")) { fprintf(stderr, "warning: something odd\n"); puts("main"); return 0; }
    }
    argv[0] = (char *)real;
    execv(real, argv);
    perror("gitshim: exec real git");
    return 127;
}
