// PATH-injected `git` seam: counts invocations (ZV_SHIM_COUNTER file), logs argv (ZV_SHIM_LOG), and makes the
// k-th (and optionally the j-th) invocation fail in a chosen mode; every other call execs the real git.
#include <signal.h>
#include <stdio.h>
#include <stdlib.h>
#include <string.h>
#include <unistd.h>

static long read_count(const char *path) { FILE *f = fopen(path, "r"); long n = 0; if (f) { if (fscanf(f, "%ld", &n) != 1) n = 0; fclose(f); } return n; }

int main(int argc, char **argv) {
    const char *counter = getenv("ZV_SHIM_COUNTER");
    const char *logp = getenv("ZV_SHIM_LOG");
    const char *real = getenv("ZV_REAL_GIT");
    const char *at = getenv("ZV_SHIM_FAULT_AT");
    const char *at2 = getenv("ZV_SHIM_FAULT_AT2");
    const char *mode = getenv("ZV_SHIM_MODE");
    if (!real) real = "/usr/bin/git";
    long n = 0;
    if (counter) { n = read_count(counter) + 1; FILE *f = fopen(counter, "w"); if (f) { fprintf(f, "%ld\n", n); fclose(f); } }
    if (logp) { FILE *f = fopen(logp, "a"); if (f) { fprintf(f, "%ld", n); for (int i = 1; i < argc; i++) fprintf(f, " %s", argv[i]); fprintf(f, "\n"); fclose(f); } }
    int fault = (at && atol(at) == n) || (at2 && atol(at2) == n);
    if (fault && mode) {
        if (!strcmp(mode, "exit1")) { fprintf(stderr, "error: injected failure\n"); return 1; }
        if (!strcmp(mode, "exit128")) { fprintf(stderr, "fatal: not a git repository (or any of the parent directories): .git\n"); return 128; }
        if (!strcmp(mode, "garbage")) { fwrite("\xff\xfegarbage\n\x01 not a hash\n", 1, 24, stdout); return 0; }
        if (!strcmp(mode, "empty")) { return 0; }
        if (!strcmp(mode, "kill")) { raise(SIGKILL); return 137; }
        if (!strcmp(mode, "silent1")) { return 1; }
    }
    argv[0] = (char *)real;
    execv(real, argv);
    perror("gitshim: exec real git");
    return 127;
}
