// LD_PRELOAD clock seam: CLOCK_REALTIME := $ZERV_VERIF_NOW (seconds) when set; everything else untouched.
#define _GNU_SOURCE
#include <dlfcn.h>
#include <stdlib.h>
#include <time.h>
#include <sys/time.h>

static int (*real_clock_gettime)(clockid_t, struct timespec *) = 0;

static long long fake_now(int *have) {
    const char *s = getenv("ZERV_VERIF_NOW");
    if (!s || !*s) { *have = 0; return 0; }
    *have = 1;
    return atoll(s);
}

int clock_gettime(clockid_t clk, struct timespec *ts) {
    if (!real_clock_gettime) real_clock_gettime = dlsym(RTLD_NEXT, "clock_gettime");
    if (clk == CLOCK_REALTIME) {
        int have; long long n = fake_now(&have);
        if (have) { ts->tv_sec = (time_t)n; ts->tv_nsec = 0; return 0; }
    }
    return real_clock_gettime(clk, ts);
}

int gettimeofday(struct timeval *tv, void *tz) {
    int have; long long n = fake_now(&have);
    if (have && tv) { tv->tv_sec = (time_t)n; tv->tv_usec = 0; return 0; }
    struct timespec ts; 
    if (!real_clock_gettime) real_clock_gettime = dlsym(RTLD_NEXT, "clock_gettime");
    real_clock_gettime(CLOCK_REALTIME, &ts);
    if (tv) { tv->tv_sec = ts.tv_sec; tv->tv_usec = ts.tv_nsec / 1000; }
    return 0;
}

time_t time(time_t *t) {
    int have; long long n = fake_now(&have);
    time_t r;
    if (have) r = (time_t)n; else { struct timespec ts; if (!real_clock_gettime) real_clock_gettime = dlsym(RTLD_NEXT, "clock_gettime"); real_clock_gettime(CLOCK_REALTIME, &ts); r = ts.tv_sec; }
    if (t) *t = r;
    return r;
}
