// LD_PRELOAD clock seam: CLOCK_REALTIME := $ZERV_VERIF_NOW (seconds) when set; everything else untouched.
#define _GNU_SOURCE
#include <dlfcn.h>
#include <stdlib.h>
#include <time.h>
#include <sys/time.h>

static int (*real_clock_gettime)(clockid_t, struct timespec *) = 0;

static long long fake_now(int *have) {
    const char *s = getenv("ZERV_VERIF_NOW");
    if (!s || !*s) { *have = 0; return 0; }
    *have = 1;
    return atoll(s);
}

int clock_gettime(clockid_t clk, struct timespec *ts) {
    if (!real_clock_gettime) real_clock_gettime = dlsym(RTLD_NEXT, "clock_gettime");
    if (clk == CLOCK_REALTIME) {
        int have; long long n = fake_now(&have);
        if (have) { ts->tv_sec = (time_t)n; ts->tv_nsec = 0; return 0; }
    }
    // patience seam: with ZERV_VERIF_MONO_SCALE=k the monotonic clock of this process runs k times faster from its first
    // reading on, so a child that really takes 2 s looks like one that took 2k s to whoever measures its own timeouts with it
    if (clk == CLOCK_MONOTONIC || clk == CLOCK_MONOTONIC_RAW || clk == CLOCK_BOOTTIME) {
        static int init = 0; static long long scale = 0; static struct timespec base;
        if (!init) { const char *k = getenv("ZERV_VERIF_MONO_SCALE"); scale = (k && *k) ? atoll(k) : 0; real_clock_gettime(clk, &base); init = 1; }
        if (scale > 1) {
            int r = real_clock_gettime(clk, ts);
            if (r != 0) return r;
            long long dn = (long long)(ts->tv_sec - base.tv_sec) * 1000000000LL + (ts->tv_nsec - base.tv_nsec);
            if (dn < 0) dn = 0;
            __int128 f = (__int128)dn * scale;
            long long sec = (long long)(f / 1000000000), ns = (long long)(f % 1000000000);
            ts->tv_sec = base.tv_sec + sec; ts->tv_nsec = base.tv_nsec + ns;
            if (ts->tv_nsec >= 1000000000L) { ts->tv_sec += 1; ts->tv_nsec -= 1000000000L; }
            return 0;
        }
    }
    return real_clock_gettime(clk, ts);
}

int gettimeofday(struct timeval *tv, void *tz) {
    int have; long long n = fake_now(&have);
    if (have && tv) { tv->tv_sec = (time_t)n; tv->tv_usec = 0; return 0; }
    struct timespec ts; 
    if (!real_clock_gettime) real_clock_gettime = dlsym(RTLD_NEXT, "clock_gettime");
    real_clock_gettime(CLOCK_REALTIME, &ts);
    if (tv) { tv->tv_sec = ts.tv_sec; tv->tv_usec = ts.tv_nsec / 1000; }
    return 0;
}

time_t time(time_t *t) {
    int have; long long n = fake_now(&have);
    time_t r;
    if (have) r = (time_t)n; else { struct timespec ts; if (!real_clock_gettime) real_clock_gettime = dlsym(RTLD_NEXT, "clock_gettime"); real_clock_gettime(CLOCK_REALTIME, &ts); r = ts.tv_sec; }
    if (t) *t = r;
    return r;
}
