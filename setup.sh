#!/bin/bash
# Offline build of the whole framework from files on disk: harness bins, real zerv binary, shims.
set -e
cd "$(dirname "$0")"
export CARGO_NET_OFFLINE=true
(cd harness && cargo build --release --offline --bins </dev/null)
(cd /repo && cargo build --offline --bin zerv --target-dir /verif/target/zerv-bin </dev/null)
[ -f shims/Makefile ] && make -s -C shims
echo setup-ok
