#!/bin/bash
# verify_all_seeds.sh [name-glob]: for every seeded/<name>/patch.diff apply it to /repo, run the quick check of its
# property, expect exit 1 (VIOLATION), revert. Prints one line per seed; exit 0 iff every applicable seed is caught.
# (Maintenance tool for the machinery itself; it is not a registered check. /repo must be clean and otherwise unused.)
cd /verif || exit 2
git -C /repo diff --quiet || { echo "repo dirty"; exit 2; }
bad=0
for d in seeded/${1:-*}/; do
  n=$(basename $d); prop=$(python3 -c "import json;print(json.load(open('$d/meta.json'))['property'])")
  if ! git -C /repo apply --check $PWD/$d/patch.diff 2>/dev/null; then echo "$n $prop DOES-NOT-APPLY"; bad=1; continue; fi
  git -C /repo apply $PWD/$d/patch.diff
  ./check $prop --tier quick > /tmp/vas.$$.out 2>&1; rc=$?
  git -C /repo checkout -- . ; git -C /repo reset -q --hard HEAD
  if [ $rc = 1 ]; then echo "$n $prop caught ($(grep -c '^VIOLATION' /tmp/vas.$$.out) classes)"; else echo "$n $prop NOT-CAUGHT rc=$rc"; bad=1; fi
done
rm -f /tmp/vas.$$.out
exit $bad
