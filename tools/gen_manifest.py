#!/usr/bin/env python3
"""Generates /verif/MANIFEST.json from the table below (single source of truth for registered checks)."""
import json, os
ROOT = os.path.dirname(os.path.dirname(os.path.abspath(__file__)))
ALL = [f"C{n:02d}" for n in range(1, 19)]

CHECKS = {
 "C16": dict(cat="model_checking",
   text="Exhaustive trie exploration of every string over a 9/12-symbol alphabet (both letter cases, zero and non-zero digit, the three separators, non-ASCII letter and digit, case-folding look-alikes, a 3-byte symbol) up to a stated length, each under all 172 sanitiser settings (separators . - _ and the multi-byte → ·, or none), with the real Sanitizer executed on every case and judged against an independent reference model (exact equality without max_length, invariants + truncation relation with it, idempotence everywhere). Right level: the contract is a pure function of (string, 4 knobs); small-scope exhaustion reaches every interaction of run splitting, zero stripping, truncation and trimming.",
   note="Trusts the 60-line reference model R-SAN; alphabets and length bounds as stated in evidence; behaviour the statement leaves open (cut point, padded integers, separator-less mode) is only checked for invariants.",
   technique="bounded exhaustive enumeration (string trie x settings product) of the real code against a reference model",
   ref="C16"),
 "C08": dict(cat="model_checking",
   text="Every string over a 9-symbol grammar-relevant alphabet (digits, letter, - . + v, non-ASCII digit and letter) up to length 7 (quick) / 9 (thorough), every string of the SemVer language up to length 9/11 with all its single-symbol edits (incl. ASCII and Unicode white space, also through the check command), every accepted string up to length 7 padded with 8 white-space strings on either side, and boundary numerals in every numeric position are fed to the real SemVer::from_str / Display and `zerv check`; verdict and printed form are compared with an explicit reference DFA of the SemVer 2.0.0 BNF (itself cross-checked against the semver crate on the explored space). Right level: acceptance and losslessness are per-string facts; small-scope exhaustion plus edit-distance-1 closure reaches every boundary of the grammar.",
   note="Trusts the reference DFA (cross-checked with the semver crate) ; rejecting numerals above u64 is accepted, altering them is not; longer strings / other symbols not explored.",
   technique="bounded exhaustive string enumeration (trie + grammar-guided edit closure) against a reference DFA", ref="C08"),
 "C09": dict(cat="model_checking",
   text="Character-level trie (18 symbols, length <=5/6), token-level trie (28 tokens incl. upper-case and case-folding look-alikes, depth 4/5), the full product of epoch/release/separator/label/number/post/dev/local/prefix spelling variants and boundary numerals (incl. zero-padded numbers at and above u32/u64) are run through the real PEP440::from_str / Display / Ord and `zerv check`; acceptance, normal form, idempotence and equality-with-original are judged by an interpreter of the Appendix-B regex written as an AST (validated on >1.2M ASCII strings per run against packaging 26.3).",
   note="Trusts R-PEP (validated against packaging on the ASCII corpus each run; on non-ASCII input the statement's 'ASCII' decides). Rejection above u32 accepted, alteration not. No surrounding white space explored.",
   technique="bounded exhaustive enumeration (char trie, token trie, spelling-variant product) against a regex-AST reference matcher", ref="C09"),
 "C10": dict(cat="model_checking",
   text="All ordered pairs of a universe of parsed SemVer versions (core numbers {0,1,2,10}^3 x identifier lists of length <=3 over {0,2,10,A,a,a0,B,-}; plus build-metadata, u64-wide and hyphenated-identifier (rc-2, rc-10, 1-0, -1, ...) sub-universes) are compared by the real Ord/PartialEq and by an independent SemVer 2.0.0 section-11 comparator on decimal strings; antisymmetry, eq<=>Equal and partial_cmp consistency per pair; transitivity on all triples of a sub-universe without any reference; find_max_version_tag on all ordered selections of <=3 tags.",
   note="Trusts the reference comparator; versions outside the universes not explored.",
   technique="exhaustive pair/triple enumeration over a finite version universe against a reference comparator", ref="C10"),
 "C11": dict(cat="model_checking",
   text="A field universe (epoch x release x pre x post x dev x local) of abstract PEP 440 versions, each written in 5 spellings and parsed by the real parser; ALL ordered pairs of all spellings compared by the real Ord/PartialEq against the lexicographic key stated in the property, spellings of one version must be equal; transitivity on all triples of a sub-universe; find_max_version_tag on small tag sets.",
   note="The order is the key stated in C11, not packaging's; field values outside the universe not explored.",
   technique="exhaustive pair/triple enumeration over a finite version x spelling universe against a reference key", ref="C11"),
 "C17": dict(cat="model_checking",
   text="resolve_timestamp on every day 1970-01-01..2199-12-31 at the first/last second (thorough: every hour) x 16 patterns and every second of 12 boundary days, the 11 CalVer presets through the real in-process pipeline on month boundaries (thorough: every day), every pattern by name in a custom schema in each section, the bumped/last timestamp precedence table, and real git repositories at 12 boundary instants (commit time = committer date, author date 500 days off in a +0900 zone; HEAD on the branch and detached at the tag) x 11 CalVer presets x 16 patterns, all judged by an independent days-from-civil calendar. The harness process runs under TZ=JST-9 and a binary slice under three TZ values, so local-time dependence is observable.",
   note="Trusts R-CAL (self-tested on fixed instants). Fixed-width forms only observable at resolve_timestamp.",
   technique="exhaustive enumeration of instants x patterns x presets against a reference calendar", ref="C17"),
 "C07": dict(cat="model_checking",
   text="Full product of canonical SemVer shapes (core numbers incl. 2^32-1 x epoch x label/number x post x dev x build incl. hash-like identifiers that start with 0) rendered semver->semver, semver->pep440, pep440->semver, pep440->pep440 through the real `zerv render` entry point and compared with an independent formatter; out-of-range numerals (2^32, 2^64-1, 2^64, 23 digits) in every numeric position must be rejected or rendered exactly; a product of PEP 440 spellings for round-trip equality (judged by R-PEP's key) and fixed points; every SemVer whose pre-release is a token sequence of length <=4/5 over labels and numbers for the fixed-point / no-panic clause.",
   note="Round-trip equality is version equality under R-PEP; numbers explored at 0/1/small and at the u32/u64 boundaries.",
   technique="exhaustive product / token-sequence enumeration through the real render pipeline against independent formatters", ref="C07"),
 "C06": dict(cat="model_checking",
   text="Valid schemas are generated as programs (all sequences up to a length over a component alphabet covering every component kind, with the placement rules respected) in the three sections, crossed with 6 variable assignments and both formats; SemVer::from(Zerv)/PEP440::from(Zerv) are compared by full string equality with R-REN, a transcription of the documented placement rules; the smart presets' tier table is checked at schema_with_zerv and through the CLI; a slice is bound to `zerv version --source stdin` in-process and through the real binary.",
   note="Trusts R-REN, R-SAN, R-CAL; component alphabet and lengths as stated; wall clock pinned by the LD_PRELOAD seam.",
   technique="exhaustive enumeration of schema programs x variable assignments against a reference renderer", ref="C06"),
 "C01": dict(cat="model_checking",
   text="Every string over a 10-symbol alphabet (both cases, digits, separators, '+', non-ASCII letter/digit, 3-byte symbol) up to length 3 (thorough 5) plus a pool of special texts (zero-padded digit runs around u32/u64, 300-char text, control characters, case-folding look-alikes) is placed in each of 6 text positions in turn and rendered under every preset that prints it and 5 custom schemas in both formats; numbers at the integer boundaries in 9 numeric variables; an in-process CLI layer (sources none/stdin, --schema/--schema-ron, --custom, --output-prefix, overrides, bumps) and a binary slice; an --output-prefix layer (every prefix up to length 3 over {space, v, TAB, -, é, 1} plus special prefixes x version/flow/render x both formats, differential: stdout == prefix ++ unprefixed output, in-process and through the binary). Oracle: ASCII, reference grammar (R-SV / R-PEP normal form), accepted by zerv's own parser, re-render fixed point for presets, exactly one stdout line.",
   note="Trusts R-SV/R-PEP (validated in C08/C09). Text alphabet and length as stated; git source covered by C02's states.",
   technique="bounded exhaustive enumeration of texts x positions x schemas x formats with grammar invariants as oracle", ref="C01"),
 "C05": dict(cat="model_checking",
   text="For 18 environments (6 start versions incl. PEP 440 and a stdin object at the u64 boundary x 3 schemas incl. one with literal components in all sections) every subset up to size 3 of a 60-90 element flag-instance alphabet (field overrides/bumps, label override/bump, index overrides/bumps in positive, negative and ~n spelling, VCS/context overrides) goes through the real clap parser and run_version_pipeline; the resulting schema+vars are compared with R-BUMP, a single pass over the 11 precedence levels; all permutations of flag order up to size 2/3; invalid targets and boundary amounts; chaining through --source stdin from every one-op state.",
   note="Trusts R-BUMP; two behaviours the statement leaves open are masked (invented label, kept number); outputs read back with zerv's RON parser.",
   technique="exhaustive subset + permutation enumeration of flag instances against a reference precedence machine, with chained (non-initial) states", ref="C05"),
 "C04": dict(cat="model_checking",
   text="Full product of base tag x 27 branch names (prefix-without-slash, digit segments, zero padding, '+N' segments, u32-overflowing and non-ASCII names, absent branch) x distance x dirty flag x --post x --pre-release-label x --pre-release-num x --post-mode x 5 rule sets (first-match shadowing, exact and prefix rules, prefixes containing a digit segment) through run_flow_pipeline with --output-format zerv on sources none and stdin, compared field by field with R-FLOW; every hash length 0..11 x every branch against an independent SipHash-1-3 (R-SIP); BranchRules::resolve_for_branch directly.",
   note="Trusts R-FLOW and R-SIP (self-tested against the README value); three behaviours left open by the statement are counted, not compared; wall clock pinned.",
   technique="exhaustive product enumeration of flow inputs against a reference law and an independent hash", ref="C04"),
 "C03": dict(cat="model_checking",
   text="(i) Full product of final-release tags x branches x distance x dirty x post-mode x rule sets x hash lengths x label/post flags x the 11 standard presets x both formats through run_flow_pipeline; every output is compared by independent comparators (R-SV precedence, standard PEP 440 order) with X.Y.Z and X.Y.(Z+1), exactly X.Y.Z when clean at the tag; (ii) distance chains 0..6 per (tag, branch, rule set, preset, format) must be strictly increasing where the preset prints the post counter; (iii) every dev-less pre-release output fed back as a tag with --clean must be reproduced, and (v) used as the base tag, 1..3 further commits on the same branch in commit post-mode must give strictly increasing versions above it and below X.Y.(Z+1); (iv) on real git histories (C02's shape BFS x placements of final-release tags x HEAD x work-tree states) `zerv flow -C` is bounded by the model's nearest tag and a commit step on the checked-out branch must increase the version.",
   note="Independent comparators; for the two presets that omit the pre-release part by explicit choice the upper bound is non-strict on the public part; wall clock pinned.",
   technique="exhaustive product + chain enumeration of flow runs judged by independent version comparators", ref="C03"),
 "C12": dict(cat="model_checking",
   text="(a) ~5000 objects built directly (each string variable over 30 nasty strings incl. quotes, backslashes, control and RON-syntax look-alikes; numerics at 0/1/2^63/2^64-1; 25 custom JSON shapes; nasty text inside schema literals) under 22 presets + custom schemas: parse(emit(z))==z and byte-identical re-emission; (a2) ~290 version/flow jobs x 5 renderings: direct == piped through --source stdin (incl. epoch 0 overrides/bumps); (c) schema programs: every variable in every section, all orders/duplicates of Major/Minor/Patch, all secondary pairs, timestamp patterns, empty, plus every component sequence up to length 4/4/2 (thorough 6/6/4) per section over a 6-symbol alphabet (valid or not) with the other sections valid and the cross-section product of short sequences, on 4 entry paths: accepted iff R-SCH valid; (b) ~20k single-byte document mutants (thorough: also every pair of single-byte edits on a compact document, ~0.7M) + garbage: no panic, rendered only when parseable with a valid schema and then well-formed.",
   note="R-SCH; ts(\"%...\") and custom precedence orders outside the statement; parseability of mutants judged by zerv's RON parser (ron crate trusted).",
   technique="exhaustive per-field domain enumeration, structural schema generation and single-byte mutation of documents, with a reference validity predicate", ref="C12"),
 "C15": dict(cat="model_checking",
   text="For every schema program of a bounded size x 6 variable assignments one template renders {{semver}}, {{pep440}} and all parts of semver_obj / pep440_obj; they must equal the formatter output for the same object, recompose exactly, and give the docker form. Scalar variables on every assignment (incl. keyword texts). Functions hash / hash_int / prefix x lengths 0..21 x 40 texts (multi-byte boundaries, keywords, numbers, bools) x allow_leading_zero, prefix_if, sanitize (presets and all separator/lowercase/keep_zeros combinations, max_length) against R-SIP and R-SAN; format_timestamp x 7 formats x a sweep of instants against R-CAL with the harness under TZ=PST8; a CLI/binary slice.",
   note="Rendered templates are trimmed and none/null/nil collapse by design; R-SAN, R-SIP, R-CAL trusted.",
   technique="exhaustive enumeration of objects x templates and function arguments against reference models", ref="C15"),
 "C02": dict(cat="model_checking",
   text="Two-layer explicit-state exploration of repository histories: (A) BFS over commit / branch&checkout / checkout / merge (fast-forward or true merge) from a one-commit repository, deduplicated on (DAG, branch refs), bounded by commits and branches; (B) every placement of up to 2 tags from a version/non-version/annotated/PEP-440-only alphabet on any commits x HEAD at every branch tip and detached at every commit x committer-date modes (increasing, decreasing, zig-zag, all equal); (C) every subset of 8 tag spellings on one commit x HEAD positions x the 3 input formats; (D) 15 work-tree states (modified, staged, untracked incl. nested, deleted, renamed, mode change, ignored file / directory, empty directory, staged-then-reverted); (E) 11 branch names (with '/', '.', non-ASCII, equal to a version tag, a non-version tag or a ref-namespace word) x a tag of the same short name x HEAD positions. Every commit carries an author date 500 days away from its committer date. Every state is materialised in real git (fast-import), conformance-checked against the model with git commands zerv does not use, then `zerv version -C` is judged against R-GIT: nearest validly tagged commit, highest tag (auto mode: highest under either format accepting it), distance, dirty, branch, hashes, times, and 'no valid tag' reported as such.",
   note="R-GIT oracle; choice among equal-precedence tags / among members of the nearest-tag antichain left open; octopus merges, shallow clones, worktrees, submodules out of scope; wall cap recorded in evidence (exhaustive=false if hit).",
   technique="explicit-state BFS over repository operations x labelings, each state materialised in real git and judged by a reference model", ref="C02"),
 "C13": dict(cat="fault_enumeration",
   text="(a) the flag set is read from Cli::command() at run time; for version and flow in 4 source contexts every single flag x a 37-value adversarial pool (non-ASCII, huge and negative numbers incl. isize::MIN, broken templates, bad chrono formats, malformed RON/JSON, NUL), every pair of flags x a 5-value pool, malformed stdin documents, 133 custom precedence orders (every single, ordered pair, all-but-one, reversed) on stdin and via --schema-ron x every bump/override flag x a 5-value pool, render/check on nasty version strings, every template function x argument singles and pairs: ~34k in-process runs under catch_unwind (overflow checks on); (b) a strided slice through the real binary plain and with -v (exit/stream protocol, identical stdout), help/version/llm-help; (c) git fault enumeration: a PATH-injected git shim records the N git calls of a fault-free run for 6 repository scenarios x [version, flow], then every k<=N x 6 fault modes (exit 1, exit 128 'not a git repository', garbage output, empty output, SIGKILL, silent exit 1) is injected (thorough: every pair of fault points), plus git missing and bad -C targets; whenever zerv survives a git call that failed (non-zero status or killed) its stdout must equal the fault-free run's (also observed through --output-format zerv).",
   note="Faults at git-process granularity; stdout/stderr never closed under zerv; pools are adversarial but finite; `zerv` without sub-command (nothing requested, exit 0, empty stdout) is accepted.",
   technique="exhaustive single/pair enumeration of argument values and exhaustive single (thorough: double) git fault placement via a process shim", ref="C13"),
 "C14": dict(cat="model_checking",
   text="~200 argument vectors (presets x clean/ahead/dirty x formats at timestamps straddling UTC midnight, templates with date and hash functions, ts() schemas, flow branch ids, stdin documents with non-ASCII text, three real git repositories whose HEAD times straddle UTC midnight) are each run in separate processes across the full product TZ x locale x working directory x unrelated environment x repetition with the wall clock pinned by an LD_PRELOAD seam; every (status, stdout, stderr) must equal the (UTC, C) reference; independent expectations from R-CAL / R-SIP; a second clock value must change nothing for clock-independent inputs and only timestamp-derived text otherwise; relative -C and in-repo cwd equal absolute -C, also when the start directory has been removed (getcwd fails).",
   note="Independence is shown for the named environment dimensions only; the clock is owned by the seam (self-tested).",
   technique="exhaustive product enumeration of environments per argument vector with a pinned clock (differential across processes)", ref="C14"),
 "C18": dict(cat="model_checking",
   text="Keywords are read with inspect.signature and the clap metadata is dumped from the tree under test; every keyword singly with None, False and typed valid values (ints 0 and 3, both booleans, every enumerated value), every pair of keywords (thorough: triples) is called through the real Python functions in a prepared git repository with argv captured at subprocess.run; None/False must add nothing, every emitted flag must exist for the sub-command with matching arity, the return value must equal the stripped stdout of the binary run with an independently built argv, and a failing command must raise RuntimeError.",
   note="Independent argv uses long option names from the clap dump plus a 2-entry exception table; binary built from /repo; clock pinned.",
   technique="exhaustive keyword single/pair(/triple) enumeration against an independently built command line", ref="C18"),
}

def main():
    checks = []
    for pid in ALL:
        if pid not in CHECKS: continue
        c = CHECKS[pid]
        checks.append({
            "property_id": pid,
            "quick_cmd": f"./check {pid} --tier quick",
            "thorough_cmd": f"./check {pid} --tier thorough",
            "evidence_file": f"/verif/evidence/{pid}.json",
            "replay_cmd_template": f"./check {pid} --replay {{path}}",
            "engine": f"harness/src/bin/{pid.lower()}.rs",
            "level_claimed": {"category": c["cat"], "text": c["text"], "design_ref": f"DESIGN.md section 3, {c['ref']}"},
            "level_note": c["note"],
            "technique": c["technique"],
        })
    na = [{"property_id": p, "reason": "check not built yet in this round (planned: bounded exhaustive exploration, see DESIGN.md section 3); nothing is claimed for it"} for p in ALL if p not in CHECKS]
    m = {
        "version": 1,
        "setup_cmd": "./setup.sh",
        "hooks": {
            "guard": "none (no source hooks in /repo)",
            "enable": "no source hooks: the clock seam is an LD_PRELOAD shim (shims/faketime.c), the git seam a PATH-injected shim; checks build /repo unmodified",
            "baseline_off_cmd": "/verif/tools/run_suite.sh /repo",
            "source_commits": [],
            "add_only": True,
        },
        "engines": [{"name": "zvharness", "path": "harness", "serves_properties": sorted(CHECKS), "kind_free_text": "purpose-built explicit-state / product explorer in Rust calling the real zerv library and binary on every enumerated case, judged by zerv-free reference models"}],
        "checks": checks,
        "not_applicable": na,
        "notes": "All checks: exit 0 held / 1 VIOLATION / 2 machinery. known_findings.json lists genuine defects (fixed ones are recorded with their fix: commit and suppress nothing).",
    }
    json.dump(m, open(os.path.join(ROOT, "MANIFEST.json"), "w"), indent=1)
    print("checks:", [c["property_id"] for c in checks], "not_applicable:", len(na))
main()
