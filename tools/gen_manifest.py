#!/usr/bin/env python3
"""Generates /verif/MANIFEST.json from the table below (single source of truth for registered checks)."""
import json, os
ROOT = os.path.dirname(os.path.dirname(os.path.abspath(__file__)))
ALL = [f"C{n:02d}" for n in range(1, 19)]

CHECKS = {
 "C16": dict(cat="model_checking",
   text="Exhaustive trie exploration of every string over a 9/12-symbol alphabet (both letter cases, zero and non-zero digit, the three separators, non-ASCII letter and digit, case-folding look-alikes, a 3-byte symbol) up to a stated length, each under all 116 sanitiser settings, with the real Sanitizer executed on every case and judged against an independent reference model (exact equality without max_length, invariants + truncation relation with it, idempotence everywhere). Right level: the contract is a pure function of (string, 4 knobs); small-scope exhaustion reaches every interaction of run splitting, zero stripping, truncation and trimming.",
   note="Trusts the 60-line reference model R-SAN; alphabets and length bounds as stated in evidence; behaviour the statement leaves open (cut point, padded integers, separator-less mode) is only checked for invariants.",
   technique="bounded exhaustive enumeration (string trie x settings product) of the real code against a reference model",
   ref="C16"),
}

def main():
    checks = []
    for pid in ALL:
        if pid not in CHECKS: continue
        c = CHECKS[pid]
        checks.append({
            "property_id": pid,
            "quick_cmd": f"./check {pid} --tier quick",
            "thorough_cmd": f"./check {pid} --tier thorough",
            "evidence_file": f"/verif/evidence/{pid}.json",
            "replay_cmd_template": f"./check {pid} --replay {{path}}",
            "engine": f"harness/src/bin/{pid.lower()}.rs",
            "level_claimed": {"category": c["cat"], "text": c["text"], "design_ref": f"DESIGN.md section 3, {c['ref']}"},
            "level_note": c["note"],
            "technique": c["technique"],
        })
    na = [{"property_id": p, "reason": "check not built yet in this round (planned: bounded exhaustive exploration, see DESIGN.md section 3); nothing is claimed for it"} for p in ALL if p not in CHECKS]
    m = {
        "version": 1,
        "setup_cmd": "./setup.sh",
        "hooks": {
            "guard": "none",
            "enable": "no source hooks: the clock seam is an LD_PRELOAD shim (shims/faketime.c), the git seam a PATH-injected shim; checks build /repo unmodified",
            "baseline_off_cmd": "/verif/tools/run_suite.sh /repo",
            "source_commits": [],
            "add_only": True,
        },
        "engines": [{"name": "zvharness", "path": "harness", "serves_properties": sorted(CHECKS), "kind_free_text": "purpose-built explicit-state / product explorer in Rust calling the real zerv library and binary on every enumerated case, judged by zerv-free reference models"}],
        "checks": checks,
        "not_applicable": na,
        "notes": "All checks: exit 0 held / 1 VIOLATION / 2 machinery. known_findings.json lists genuine defects (fixed ones are recorded with their fix: commit and suppress nothing).",
    }
    json.dump(m, open(os.path.join(ROOT, "MANIFEST.json"), "w"), indent=1)
    print("checks:", [c["property_id"] for c in checks], "not_applicable:", len(na))
main()
