#!/bin/bash
# par_verify_all.sh [nslots] [name-glob]: verify_all_seeds.sh spread over private-namespace slots (tools/par_try.sh).
# One line per seed in /tmp/par/verify.log; exit 0 iff every seed applies and is caught by its quick check.
N=${1:-4}; G=${2:-*}
cd /verif || exit 2
mkdir -p /tmp/par
ls -d seeded/$G/ | xargs -n1 basename > /tmp/par/seeds.list
: > /tmp/par/verify.log
# the machinery is snapshotted once, so that /verif can be edited while the regression runs
rsync -a --delete --exclude /target --exclude /evidence --exclude /replays /verif/ /tmp/par/snap/ || exit 2
export PAR_SRC=/tmp/par/snap
for i in $(seq 1 $N); do
  ( awk -v n=$N -v i=$i 'NR % n == i - 1' /tmp/par/seeds.list | while read n; do
      prop=$(python3 -c "import json;print(json.load(open('/tmp/par/snap/seeded/$n/meta.json'))['property'])")
      out=$(tools/par_try.sh v$i /tmp/par/snap/seeded/$n/patch.diff $prop 2>&1 | tail -3 | tr '\n' ' ')
      case "$out" in
        *"does not apply"*) echo "$n $prop DOES-NOT-APPLY" ;;
        *"exit=1"*) echo "$n $prop caught" ;;
        *) echo "$n $prop NOT-CAUGHT $out" | cut -c1-300 ;;
      esac >> /tmp/par/verify.log
    done ) &
done
wait
sort -o /tmp/par/verify.log /tmp/par/verify.log
! grep -qv ' caught$' /tmp/par/verify.log
