#!/bin/bash
# proc_seed.sh <name> <ID> <slot>: confirm a proposed seeded change (own confirm worktree per slot), then try the quick
# check against it in the slot's private namespace. Summary in /tmp/wt/<name>.proc.log
N=$1; ID=$2; SL=$3
{
  CONFIRM_W=/tmp/wt/confirm-$SL /verif/tools/confirm_seed.sh /tmp/wt/$N.patch.diff /tmp/wt/$N.demo.sh 2>&1 | grep -E "RESULT|suite:|PATCH"
  /verif/tools/par_try.sh s$SL /tmp/wt/$N.patch.diff $ID 2>&1 | tail -6
} > /tmp/wt/$N.proc.log 2>&1
