#!/bin/bash
# try_seed.sh <patch> <ID> [tier]: apply patch to /repo, run the check, revert. Prints verdict.
P=$1; ID=$2; TIER=${3:-quick}
cd /repo || exit 2
git diff --quiet || { echo "repo dirty"; exit 2; }
git apply --3way "$P" 2>/dev/null || git apply "$P" || { echo "patch does not apply"; git reset -q --hard HEAD; exit 2; }
git reset -q
cd /verif && ./check $ID --tier $TIER > /tmp/try_seed.$$.out 2>&1; rc=$?
grep -E "^(VIOLATION|KNOWN|C[0-9]+ tier|MACHINERY)" /tmp/try_seed.$$.out | cut -c1-330 | head -8
echo "exit=$rc"
git -C /repo checkout -- . ; git -C /repo status --short | head -3
rm -f /tmp/try_seed.$$.out
