#!/bin/bash
# Usage: run_suite.sh [repo_dir] [target_dir]  — runs the pinned suite offline, compares with BASELINE stable_pass.
# exit 0 iff every stable_pass test passes.
set -u
REPO=${1:-/repo}
TGT=${2:-$REPO/target}
cd "$REPO" || exit 2
export CARGO_NET_OFFLINE=true CARGO_TARGET_DIR="$TGT"
cargo nextest run --workspace --no-fail-fast --tool-config-file pb:/w/lib/nextest.toml --profile pb --test-threads 8 --offline </dev/null >"$TGT/../suite.log.$$" 2>&1
J="$TGT/nextest/pb/junit.xml"
python3 - "$J" <<'PY'
import json,sys,xml.etree.ElementTree as ET
b=json.load(open('/root/.vp/BASELINE.json'))
stable=set(b['stable_pass'])
root=ET.parse(sys.argv[1]).getroot()
passed=set();failed=set()
for tc in root.iter('testcase'):
    tid=(tc.get('classname') or '')+'::'+(tc.get('name') or '')
    if tc.find('failure') is not None or tc.find('error') is not None: failed.add(tid)
    elif tc.find('skipped') is not None: pass
    else: passed.add(tid)
missing=sorted(stable-passed)
print(f"suite: passed={len(passed)} failed={len(failed)} stable={len(stable)} stable_not_passing={len(missing)}")
for m in missing[:40]: print("  NOT PASSING:",m)
sys.exit(1 if missing else 0)
PY
rc=$?
rm -f "$TGT/../suite.log.$$"
exit $rc
