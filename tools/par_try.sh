#!/bin/bash
# par_try.sh <slot> <patch|-> <ID> [tier]: like try_seed.sh, but inside a private mount namespace in which copies of
# /repo and /verif (kept under /tmp/par/<slot>, refreshed by rsync on every call) are bind-mounted over /repo and
# /verif. Several slots can run at once; /repo, /verif/evidence and /verif/replays themselves are never touched.
# PAR_SRC=<dir>: take the machinery from a snapshot instead of /verif (so that /verif can be edited meanwhile).
# Maintenance tool for the seeded-change loop only (not a registered check). "-" = no patch (clean tree).
SLOT=$1; P=$2; ID=$3; TIER=${4:-quick}
S=/tmp/par/$SLOT
mkdir -p $S/repo $S/verif || exit 2
rsync -a --delete --exclude /target --exclude /.git/worktrees /repo/ $S/repo/; rc=$?; [ $rc = 0 -o $rc = 24 ] || exit 2
rsync -a --delete --exclude /evidence --exclude /replays --exclude /target ${PAR_SRC:-/verif}/ $S/verif/ || exit 2
# the slot keeps its own build cache; it is seeded once from /verif/target (files of a running build may vanish: fine)
[ -d $S/verif/target ] || { rsync -a /verif/target/ $S/verif/target/; [ $? = 0 -o $? = 24 ] || exit 2; }
mkdir -p $S/verif/evidence $S/verif/replays
[ "$P" = "-" ] || P=$(realpath "$P")
unshare -m bash -c "
  mount --bind $S/repo /repo && mount --bind $S/verif /verif || exit 2
  cd /repo && git reset -q --hard HEAD && git clean -fdq -e target || exit 2
  if [ '$P' != '-' ]; then git apply --3way '$P' 2>/dev/null || git apply '$P' || { echo 'patch does not apply'; exit 2; }; git reset -q; fi
  cd /verif && ./check $ID --tier $TIER > $S/out.log 2>&1; rc=\$?
  grep -E '^(VIOLATION|KNOWN|C[0-9]+ tier|MACHINERY)' $S/out.log | cut -c1-330 | head -8
  echo \"exit=\$rc\"
  exit \$rc
"
