#!/bin/bash
# lane.sh <slot>: worker for the seeded-change loop. Takes names (e.g. C08-J) one at a time from /tmp/wt/queue (one name
# per line, appended by hand) and runs proc_seed.sh on them; stops when /tmp/wt/queue.stop exists.
SL=$1
touch /tmp/wt/queue
while [ ! -e /tmp/wt/queue.stop ]; do
  n=$(flock /tmp/wt/queue.lock bash -c 'n=$(head -1 /tmp/wt/queue); [ -n "$n" ] && sed -i 1d /tmp/wt/queue; echo $n')
  if [ -z "$n" ]; then sleep 5; continue; fi
  /verif/tools/proc_seed.sh $n ${n%-*} $SL
done
