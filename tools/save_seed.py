#!/usr/bin/env python3
"""save_seed.py <name> <property> <patch> <demo> <meta.txt> <caught_by text> [missed_before text]"""
import json, os, shutil, sys
name, prop, patch, demo, meta, caught = sys.argv[1:7]
missed = sys.argv[7] if len(sys.argv) > 7 else ""
d = f"/verif/seeded/{name}"
os.makedirs(d, exist_ok=True)
shutil.copy(patch, f"{d}/patch.diff"); shutil.copy(demo, f"{d}/demo.sh")
json.dump({"name": name, "property": prop, "origin": "independent sub-agent given only the property text and a scratch worktree",
  "needs_to_manifest_and_agent_notes": open(meta).read().strip(),
  "confirmed": "tools/confirm_seed.sh in a scratch worktree of /repo HEAD: demo exits 0 on the clean tree; patch applies and compiles; pinned suite still passes all 3177 stable tests; demo exits non-zero with the patch",
  "caught_by": caught, "history": missed}, open(f"{d}/meta.json", "w"), indent=1)
print("saved", d)
