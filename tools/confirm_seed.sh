#!/bin/bash
# confirm_seed.sh <patch> <demo.sh> : in the persistent scratch worktree /tmp/wt/confirm (HEAD of /repo's main),
# verify: demo passes on clean tree; patch applies+compiles; pinned suite still passes; demo fails with the patch.
P=$(realpath $1); D=$(realpath $2)
W=${CONFIRM_W:-/tmp/wt/confirm}
if [ ! -d $W ]; then git -C /repo worktree add -q --detach $W main || exit 2; fi
cd $W && git checkout -q -- . && git checkout -q --detach main || exit 2
echo "== clean demo"; timeout 900 bash $D $W </dev/null >$W.demo0.log 2>&1; d0=$?
git apply --3way $P 2>/dev/null || git apply $P || { echo "PATCH-DOES-NOT-APPLY"; exit 2; }
git reset -q
echo "== suite with patch"; /verif/tools/run_suite.sh $W $W/target; s=$?
echo "== demo with patch"; timeout 900 bash $D $W </dev/null >$W.demo1.log 2>&1; d1=$?
git checkout -q -- .
echo "RESULT demo_clean=$d0 suite=$s demo_patched=$d1 $( [ $d0 = 0 ] && [ $s = 0 ] && [ $d1 != 0 ] && echo CONFIRMED || echo NOT-CONFIRMED)"
