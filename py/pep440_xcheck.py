#!/usr/bin/env python3-vt
"""Validates the harness' PEP 440 reference model against `packaging` on an ASCII corpus.
Input: file with one JSON array per line: [string, model_normal_form_or_null]. Exit 0 if identical verdicts and
normal forms everywhere, 3 on the first mismatches (model wrong -> machinery error, not a verdict on zerv)."""
import json, sys
from packaging.version import Version, InvalidVersion
bad = 0; n = 0
for line in open(sys.argv[1], encoding="utf-8"):
    s, want = json.loads(line)
    if not s.isascii() or s != s.strip():
        continue
    n += 1
    try:
        got = str(Version(s))
    except InvalidVersion:
        got = None
    if got != want:
        bad += 1
        if bad <= 10:
            print(f"MODEL-MISMATCH {s!r}: packaging={got!r} model={want!r}")
print(f"xcheck_cases={n} mismatches={bad}")
sys.exit(3 if bad else 0)
