#!/usr/bin/env python3
"""C18 driver: exhaustive singles / pairs (/ triples) of the keyword arguments of zerv.version/flow/check/render.

usage: c18_python_api.py <clap_dump.json> <git_repo_dir> <zerv_binary> <quick|thorough> <result.json>
Runs with cwd = a prepared git repository, stdin = /dev/null, clock pinned by the parent's LD_PRELOAD seam.
"""
import inspect, itertools, json, os, subprocess, sys, typing
from concurrent.futures import ThreadPoolExecutor

dump_path, repo_dir, BIN, tier, out_path = sys.argv[1:6]
CLAP = json.load(open(dump_path))

import zerv  # from PYTHONPATH=/repo/python

zerv.find_zerv_bin = lambda: getattr(_tls_bin, "bin", None) or BIN
_real_run = subprocess.run
import threading
_tls = threading.local()
_tls_bin = threading.local()


def _capturing_run(cmd, *a, **kw):
    _tls.argv = list(cmd)
    return _real_run(cmd, *a, **kw)


zerv.subprocess.run = _capturing_run  # argv captured at _run_zerv_command's subprocess call

STDIN_DOC = '(schema:(core:[var(Major),var(Minor),var(Patch)],extra_core:[var(Epoch),var(PreRelease),var(Post),var(Dev)],build:[var(BumpedBranch)]),vars:(major:Some(4),minor:Some(5),patch:Some(6),bumped_branch:Some("dev"),custom:{"k":1}))'

# keyword -> long option name, where it is not simply the keyword with '-' for '_'
EXCEPTIONS = {"repo_path": "directory", "input_format": "input-format"}
POSITIONAL = {"check": "version", "render": "version"}

STRING_SAMPLES = {
    "tag_version": ["2.0.0", "v3.1.4-rc.1"], "bumped_branch": ["feature/x"], "bumped_commit_hash": ["gabcdef123456"], "custom": ['{"k": 1}'],
    "schema_ron": ['(core:[var(Major),var(Minor),var(Patch)],extra_core:[var(PreRelease)],build:[])'], "core": ["0=9"], "extra_core": ["0=2"], "build": ["0=7"],
    "bump_core": ["0"], "bump_extra_core": ["0=2"], "bump_build": ["0"], "bump_pre_release_label": ["beta"], "output_template": ["{{ major }}.{{ minor }}"],
    "output_prefix": ["v", ""], "branch_rules": ['[(pattern: "*", pre_release_label: beta, post_mode: commit)]'], "repo_path": [repo_dir], "stdin": [STDIN_DOC],
}


STRING_SAMPLES["repo_path"] += json.loads(os.environ.get("ZV_C18_PATHS", "[]"))


def clap_arg(sub, long):
    for a in CLAP[sub]:
        if a["long"] == long:
            return a
    return None


def long_of(kw):
    return EXCEPTIONS.get(kw, kw.replace("_", "-"))


def values_for(sub, kw, ann):
    """typed valid values for one keyword"""
    if kw in STRING_SAMPLES:
        return STRING_SAMPLES[kw]
    a = clap_arg(sub, long_of(kw))
    ann = str(ann)
    if "bool" in ann:
        return [True]
    if "int" in ann:
        return [0, 3]
    if a and a["possible_values"]:
        return list(a["possible_values"])
    lits = typing.get_args(typing.get_type_hints(getattr(zerv, sub)).get(kw, None))
    flat = []
    for l in lits:
        flat.extend(typing.get_args(l) or ([l] if isinstance(l, str) else []))
    flat = [x for x in flat if isinstance(x, str)]
    if flat:
        return flat
    return ["x"]


def independent_argv(sub, pos, kwargs):
    argv = [getattr(_tls_bin, "bin", None) or BIN, sub]
    if pos is not None:
        argv.append(pos)
    stdin = None
    for kw, v in kwargs.items():
        if kw == "stdin":
            stdin = v
            continue
        if v is None or v is False:
            continue
        argv.append("--" + long_of(kw))
        if v is not True:
            argv.append(str(v))
    return argv, stdin


violations, counts, samples = [], {"cases": 0, "api_calls": 0, "independent_runs": 0, "cases_with_flags": 0, "raises": 0, "returns": 0, "flag_checks": 0, "environment_variant_calls": 0}, []
lock = threading.Lock()


def viol(cls, key, detail, case):
    with lock:
        violations.append({"class": cls, "key": key, "detail": detail[:600], "case": case})


def judge(sub, pos, kwargs, env=None):
    fn = getattr(zerv, sub)
    key = f"{sub}({'' if pos is None else repr(pos) + ', '}{', '.join(f'{k}={v!r}' for k, v in kwargs.items())})"
    case = {"kind": "api", "function": sub, "positional": pos, "kwargs": {k: v for k, v in kwargs.items()}}
    if env is not None:
        key += " [caller environment " + " ".join(f"{k}={v}" for k, v in env.items()) + "]"
        case["env"] = env
    with lock:
        counts["cases"] += 1
    _tls.argv = None
    try:
        ret = fn(pos, **kwargs) if pos is not None else fn(**kwargs)
        raised = None
    except RuntimeError as e:
        ret, raised = None, e
    except Exception as e:  # any other exception type is not the documented failure mode
        viol("unexpected_exception_type", key, repr(e), case)
        return
    argv = _tls.argv
    with lock:
        counts["api_calls"] += 1
        counts["raises" if raised else "returns"] += 1
    if argv is None:
        viol("no_command_executed", key, "subprocess.run was not called", case)
        return
    # (1) None / False add nothing; every emitted flag exists with matching arity
    base_len = 2 + (1 if pos is not None else 0)
    emitted = argv[base_len:]
    active = {k: v for k, v in kwargs.items() if k != "stdin" and v is not None and v is not False}
    if not active and emitted:
        viol("none_or_false_adds_arguments", key, f"argv {argv[1:]}", case)
    if active:
        with lock:
            counts["cases_with_flags"] += 1
    i = 0
    seen_flags = 0
    while i < len(emitted):
        tok = emitted[i]
        with lock:
            counts["flag_checks"] += 1
        arg = None
        if tok.startswith("--"):
            arg = clap_arg(sub, tok[2:])
        elif tok.startswith("-") and len(tok) == 2:
            arg = next((a for a in CLAP[sub] if a["short"] == tok[1]), None)
        if arg is None:
            viol("emitted_flag_unknown_to_cli", key, f"{tok!r} is not an option of `zerv {sub}` (argv {argv[1:]})", case)
            return
        seen_flags += 1
        if arg["takes_value"]:
            if i + 1 >= len(emitted):
                viol("flag_arity_mismatch", key, f"{tok} takes a value but none was emitted", case)
                return
            i += 2
        else:
            i += 1
    if seen_flags != len(active):
        viol("keyword_to_flag_count_mismatch", key, f"{len(active)} active keywords but {seen_flags} flags in {argv[1:]}", case)
    # (2) result equals the independently built command line
    iargv, istdin = independent_argv(sub, pos, kwargs)
    # (bytes in, bytes out: a text-mode pipe would translate line endings on the way, exactly as the wrapper under test might)
    p = _real_run(iargv, input=istdin.encode("utf-8") if istdin is not None else None, capture_output=True, check=False, stdin=None if istdin is not None else subprocess.DEVNULL)
    p.stdout = p.stdout.decode("utf-8", errors="replace")
    p.stderr = p.stderr.decode("utf-8", errors="replace")
    with lock:
        counts["independent_runs"] += 1
    if p.returncode != 0:
        if raised is None:
            viol("failure_not_raised", key, f"command line exits {p.returncode} but the API returned {ret!r}", case)
    else:
        if raised is not None:
            viol("success_raised", key, f"command line succeeds with {p.stdout.strip()!r} but the API raised {raised}", case)
        elif ret != p.stdout.strip():
            viol("return_value_differs_from_cli", key, f"API returned {ret!r}, command line prints {p.stdout.strip()!r}", case)
    with lock:
        if len(samples) < 3 and active:
            samples.append(key)


def main():
    jobs = []
    kwcount = {}
    for sub in ["version", "flow", "check", "render"]:
        sig = inspect.signature(getattr(zerv, sub))
        params = [p for p in sig.parameters.values() if p.kind == p.KEYWORD_ONLY]
        kwcount[sub] = len(params)
        pos = {"check": "1.2.3", "render": "1.2.3-rc.1"}.get(sub)
        vals = {p.name: values_for(sub, p.name, p.annotation) for p in params}
        # baseline and None/False for every keyword
        jobs.append((sub, pos, {}))
        for p in params:
            jobs.append((sub, pos, {p.name: None}))
            if "bool" in str(p.annotation):
                jobs.append((sub, pos, {p.name: False}))
            # free-text keywords additionally get the empty string, a falsy-looking text, text with a space and a
            # non-ASCII letter, and texts that look like Python keywords (truthiness / str() slips in the wrapper)
            # (decided from the command line's own metadata and the sample values, not from the wrapper's annotations)
            ca = clap_arg(sub, long_of(p.name)) or {}
            free_text = bool(ca.get("takes_value")) and not ca.get("possible_values") and all(isinstance(v, str) for v in vals[p.name]) and p.name not in ("repo_path", "stdin", "source")
            extras = ["", "0", "é x", "None", "False"] if free_text else []
            if free_text:
                # every ASCII punctuation / white-space character inside an otherwise ordinary value (a wrapper that splits, joins,
                # quotes or escapes values shows up on one of them), and values that look like options
                import string
                base = str(vals[p.name][0]) or "x"
                extras += [f"{base}{ch}{base}" for ch in string.punctuation + " \t\n"] + ["-x", "--help", "-", "--"]
                # the other line-break and separator characters (a text-mode pipe rewrites CR and CR LF; str.splitlines knows a dozen more)
                extras += [f"{base}{ch}{base}" for ch in ["\r", "\r\n", "\x0b", "\x0c", "\x1c", "\x85", "\u2028", "\u2029", "\ufeff"]]
            for v in list(vals[p.name]) + extras:
                kw = {p.name: v}
                if p.name == "stdin":
                    # piped input without an explicit source (the CLI then reads stdin by itself), and with it
                    jobs.append((sub, pos, dict(kw)))
                    jobs.append((sub, pos, dict(kw, output_format="pep440")))
                    kw["source"] = "stdin"
                jobs.append((sub, pos, kw))
        # a failing command must raise
        if pos is not None:
            jobs.append((sub, "not a version", {}))
        jobs.append((sub, pos, {("format" if sub == "check" else "output_format"): "bogus"}))
        # every pair (first value of each; ints use 0 on one side and 3 on the other)
        names = [p.name for p in params]
        for a, b in itertools.combinations(names, 2):
            va, vb = vals[a][0], vals[b][-1]
            kw = {a: va, b: vb}
            if "stdin" in kw and "source" not in kw:
                jobs.append((sub, pos, dict(kw)))
                kw["source"] = "stdin"
            jobs.append((sub, pos, kw))
        if tier == "thorough":
            if sub in ("flow", "render", "check"):
                for a, b, c in itertools.combinations(names, 3):
                    kw = {a: vals[a][0], b: vals[b][-1], c: vals[c][0]}
                    if "stdin" in kw and "source" not in kw:
                        kw["source"] = "stdin"
                    jobs.append((sub, pos, kw))
            else:
                rest = [n for n in names if n not in ("source", "stdin", "repo_path")]
                for a, b in itertools.combinations(rest, 2):
                    jobs.append((sub, pos, {"source": "none", a: vals[a][-1], b: vals[b][0]}))
    # a command that dies from a signal is a failing command too: (1) the real binary on a template nested deeply enough
    # to overflow its stack (known finding C13-K1; were that repaired the case becomes an ordinary error), (2) stub
    # binaries that print a plausible result and then kill themselves with SIGKILL / SIGTERM / SIGABRT / SIGSEGV
    deep = "{{ " + "(" * 6000 + "major" + ")" * 6000 + " }}"
    jobs.append(("render", "1.2.3", {"output_template": deep}))
    jobs.append(("version", None, {"source": "none", "tag_version": "1.2.3", "output_template": deep}))
    with ThreadPoolExecutor(max_workers=16) as ex:
        list(ex.map(lambda j: judge(*j), jobs))
    # an explicit empty stdin is an empty pipe for the child, never the caller's own stdin: run these calls one at a time with
    # the interpreter's fd 0 temporarily replaced by a pipe that holds a valid Zerv document of another version
    other_doc = STDIN_DOC.replace("major:Some(4)", "major:Some(9)")
    for sub in ["version", "flow"]:
        for kw in [{"stdin": ""}, {"stdin": "", "source": "stdin"}, {"stdin": "", "output_format": "pep440"}, {"stdin": "   \n"}]:
            r, w = os.pipe()
            os.write(w, other_doc.encode()); os.close(w)
            saved = os.dup(0)
            os.dup2(r, 0); os.close(r)
            try:
                judge(sub, None, dict(kw))
            finally:
                os.dup2(saved, 0); os.close(saved)
    # "the equivalent command line" runs in the caller's environment: whatever a variable does to the command line it must do
    # to the call. One variable set at a time in os.environ (so these calls run sequentially), chosen among those that
    # redirect git, change logging, locale, time zone or the search path; the independent run inherits the same os.environ
    repo2 = os.path.join(os.path.dirname(repo_dir), "store", "repo2")
    env_variants = [
        {"GIT_DIR": repo2 + "/.git"}, {"GIT_DIR": "/nonexistent/.git"}, {"GIT_DIR": repo2 + "/.git", "GIT_WORK_TREE": repo2}, {"GIT_WORK_TREE": repo2},
        {"GIT_INDEX_FILE": "/nonexistent/index"}, {"GIT_CEILING_DIRECTORIES": os.path.dirname(repo_dir)}, {"GIT_OBJECT_DIRECTORY": "/nonexistent/objects"},
        {"GIT_CONFIG_COUNT": "1", "GIT_CONFIG_KEY_0": "core.bare", "GIT_CONFIG_VALUE_0": "true"}, {"GIT_NAMESPACE": "ns"},
        {"PATH": "/nonexistent"}, {"RUST_LOG": "trace"}, {"RUST_BACKTRACE": "full"}, {"TZ": "Pacific/Kiritimati"}, {"LC_ALL": "tr_TR.UTF-8"}, {"HOME": repo2},
        {"NO_COLOR": "1"}, {"PYTHONIOENCODING": "latin-1"}, {"CI": "true", "GITHUB_ACTIONS": "true", "GITHUB_REF_NAME": "topic", "GITHUB_REF_TYPE": "branch"},
    ]
    env_calls = [("version", None, {}), ("version", None, {"repo_path": repo_dir}), ("version", None, {"repo_path": repo2}), ("version", None, {"repo_path": repo_dir, "output_format": "zerv"}),
                 ("flow", None, {}), ("flow", None, {"repo_path": repo_dir}), ("version", None, {"source": "none", "tag_version": "1.2.3"}),
                 ("version", None, {"stdin": STDIN_DOC, "source": "stdin"}), ("check", "1.2.3", {}), ("render", "1.2.3-rc.1", {"output_format": "pep440"})]
    for variant in env_variants:
        saved_env = {k: os.environ.get(k) for k in variant}
        os.environ.update(variant)
        try:
            for sub, pos, kw in env_calls:
                with lock:
                    counts["environment_variant_calls"] += 1
                judge(sub, pos, dict(kw), env=variant)
        finally:
            for k, v in saved_env.items():
                if v is None:
                    os.environ.pop(k, None)
                else:
                    os.environ[k] = v
    import stat, tempfile
    stub_dir = tempfile.mkdtemp(prefix="zvstub-", dir=os.path.dirname(out_path))
    for sig in ["KILL", "TERM", "ABRT", "SEGV"]:
        stub = os.path.join(stub_dir, f"zerv-{sig}")
        open(stub, "w").write(f"#!/bin/sh\necho 1.2.3\nkill -{sig} $$\nsleep 5\n")
        os.chmod(stub, os.stat(stub).st_mode | stat.S_IEXEC)
        _tls_bin.bin = stub
        for sub, pos in [("version", None), ("flow", None), ("check", "1.2.3"), ("render", "1.2.3")]:
            judge(sub, pos, {})
        _tls_bin.bin = None
    # a command that succeeds *slowly*: the wrapper returns its output however long it took. The stub really sleeps 2 s; the child
    # interpreter that makes the call runs with a monotonic clock scaled 100 000 times (shims/faketime.c, ZERV_VERIF_MONO_SCALE),
    # so to any timeout the wrapper might measure the command took about 55 hours
    if os.environ.get("LD_PRELOAD"):
        import subprocess as _sp
        stub = os.path.join(stub_dir, "zerv-slow")
        open(stub, "w").write(f"#!/bin/sh\nsleep 2\nexec {BIN} \"$@\"\n")
        os.chmod(stub, os.stat(stub).st_mode | stat.S_IEXEC)
        prog = ("import sys, time, zerv\n"
                "t0 = time.monotonic()\n"
                f"zerv.find_zerv_bin = lambda: {stub!r}\n"
                "calls = {'version': lambda: zerv.version(source='none', tag_version='1.2.3'), 'flow': lambda: zerv.flow(source='none', tag_version='1.2.3'), 'check': lambda: zerv.check('1.2.3'), 'render': lambda: zerv.render('1.2.3')}\n"
                "try:\n    out = calls[sys.argv[1]]()\n    print('OK', repr(out))\nexcept BaseException as e:\n    print('RAISED', type(e).__name__, str(e)[:200])\n"
                "print('ELAPSED', time.monotonic() - t0)\n")
        for sub in ["version", "flow", "check", "render"]:
            counts["api_calls"] = counts.get("api_calls", 0) + 1
            counts["slow_command_calls"] = counts.get("slow_command_calls", 0) + 1
            env = dict(os.environ, ZERV_VERIF_MONO_SCALE="100000")
            r = _sp.run([sys.executable, "-c", prog, sub], env=env, stdin=_sp.DEVNULL, capture_output=True, text=True, timeout=120)
            lines = r.stdout.strip().splitlines()
            elapsed = next((float(l.split()[1]) for l in lines if l.startswith("ELAPSED")), 0.0)
            if elapsed < 3600:
                print("MACHINERY: the scaled monotonic clock is not in effect in the child interpreter:", r.stdout[:300], r.stderr[:300]); sys.exit(2)
            direct = _sp.run([BIN, sub] + (["--source", "none", "--tag-version", "1.2.3"] if sub in ("version", "flow") else ["1.2.3"]), stdin=_sp.DEVNULL, capture_output=True, text=True)
            want = "OK " + repr(direct.stdout.strip())
            if not lines or lines[0] != want:
                viol("slow_command_not_returned", f"zerv.{sub}() on a command that takes 2 s (about 55 h by the caller's monotonic clock)", f"the wrapper gave {lines[:1]}, the command line prints {direct.stdout.strip()!r} with exit {direct.returncode}", {"kind": "slow", "sub": sub})
    # and a stub that exits 3 after printing, and one that succeeds with surrounding white space (stripped stdout)
    for name, body, in [("exit3", "echo 9.9.9\nexit 3\n"), ("spaces", "printf '  \\n 7.7.7 \\n\\n'\n")]:
        stub = os.path.join(stub_dir, f"zerv-{name}")
        open(stub, "w").write("#!/bin/sh\n" + body)
        os.chmod(stub, os.stat(stub).st_mode | stat.S_IEXEC)
        _tls_bin.bin = stub
        for sub, pos in [("version", None), ("check", "1.2.3")]:
            judge(sub, pos, {})
        _tls_bin.bin = None
    # a command that fails *once*: stubs that fail their first run with a diagnostic from the vocabulary of transient faults (lock files,
    # EAGAIN, time-outs, busy resources ...) and would succeed if run again. The equivalent command line fails, so the call raises - and the
    # command is executed exactly once (a wrapper that quietly runs it again returns text the command line never printed)
    transient = ["fatal: Unable to create '/r/.git/index.lock': File exists.", "Error: Resource temporarily unavailable (os error 11)", "fatal: unable to access 'https://x/': Connection reset by peer",
                 "error: cannot lock ref 'refs/heads/main': is at 0 but expected 1", "Error: Text file busy (os error 26)", "Error: Too many open files (os error 24)", "Error: Interrupted system call (os error 4)",
                 "Error: operation timed out, try again", "fatal: index file smaller than expected", "Error: Device or resource busy (os error 16)", "error: transient failure, please retry", "Error: Broken pipe (os error 32)"]
    for i, msg in enumerate(transient):
        for code in (1, 128, 75):
            stub = os.path.join(stub_dir, f"zerv-once-{i}-{code}")
            cnt = stub + ".count"
            open(stub, "w").write(f"#!/bin/sh\nn=$(cat '{cnt}' 2>/dev/null || echo 0); n=$((n+1)); echo $n > '{cnt}'\nif [ $n -eq 1 ]; then echo \"{msg}\" >&2; exit {code}; fi\necho 1.2.3\n")
            os.chmod(stub, os.stat(stub).st_mode | stat.S_IEXEC)
            _tls_bin.bin = stub
            for sub, pos in [("version", None), ("flow", None), ("check", "1.2.3"), ("render", "1.2.3")]:
                if os.path.exists(cnt):
                    os.remove(cnt)
                fn = getattr(zerv, sub)
                key = f"zerv.{sub}() on a command that fails once with exit {code} and {msg!r}"
                case = {"kind": "fail-once", "sub": sub, "message": msg, "code": code}
                with lock:
                    counts["cases"] += 1
                    counts["api_calls"] += 1
                    counts["fail_once_cases"] = counts.get("fail_once_cases", 0) + 1
                try:
                    ret = fn(pos) if pos is not None else fn()
                    viol("failure_not_raised", key, f"returned {ret!r}; the command line exits {code} with nothing on stdout", case)
                except RuntimeError:
                    pass
                except Exception as e:
                    viol("unexpected_exception_type", key, repr(e), case)
                runs = int(open(cnt).read().strip()) if os.path.exists(cnt) else 0
                if runs != 1:
                    viol("command_not_executed_exactly_once", key, f"the command was executed {runs} times for one call", case)
            _tls_bin.bin = None
    json.dump({"violations": violations, "counts": counts, "samples": samples, "keywords": kwcount}, open(out_path, "w"))


main()
