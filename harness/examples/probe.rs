use std::str::FromStr;
fn main() {
    let which = std::env::args().nth(1).unwrap();
    let n: usize = std::env::args().nth(2).unwrap().parse().unwrap();
    let shapes = [format!("1.0+{}", "a".repeat(n)), format!("1{}", ".2".repeat(n / 2)), format!("1.0.dev{}7", "0".repeat(n)), format!("1.0+{}", "a.0".repeat(n / 3)), format!("1.0rc1{}", "-".repeat(n)), format!("v{}", "1.".repeat(n / 2) + "0")];
    for (i, x) in shapes.iter().enumerate() {
        if which == "zerv" { let r = zerv::version::PEP440::from_str(x); println!("{i} zerv ok={}", r.is_ok()); }
        else { let r = zvharness::refmodel::pep440::parse(x); println!("{i} model ok={}", r.is_some()); }
    }
}
