//! Shared, zerv-free machinery: run context, panic capture, violation collection, known-finding
//! matching, replay files, evidence writer, exhaustive string/product enumeration helpers.
pub mod refmodel;
pub mod proc;
pub mod zv;
pub mod bind;
pub mod envp;
pub mod gitx;
pub mod numpool;

use std::collections::BTreeMap;
use std::hash::{Hash, Hasher};
use std::path::PathBuf;
use std::sync::Mutex;
use std::time::Instant;

use serde_json::{Value, json};

/// Root of the verification tree: $ZV_ROOT (set by ./check), else derived from the engine's own path
/// (<root>/target/harness/release/<bin>), else /verif. Makes a snapshot of /verif self-contained.
pub fn verif_root() -> String {
    if let Ok(r) = std::env::var("ZV_ROOT") { if !r.is_empty() { return r; } }
    if let Ok(exe) = std::env::current_exe() {
        if let Some(r) = exe.ancestors().nth(4) { if r.join("known_findings.json").exists() { return r.display().to_string(); } }
    }
    "/verif".to_string()
}

#[derive(Clone, Copy, PartialEq, Eq, Debug)]
pub enum Tier {
    Quick,
    Thorough,
}

pub struct Ctx {
    pub id: String,
    pub tier: Tier,
    pub seed: i64,
    pub start: Instant,
    pub replay: Option<PathBuf>,
    pub level: &'static str,
    pub collector: Collector,
    pub extra: Vec<String>,
}

impl Ctx {
    pub fn from_args(id: &str, level: &'static str) -> Ctx {
        let mut tier = match std::env::var("VERIF_TIER").ok().as_deref() {
            Some("thorough") => Tier::Thorough,
            _ => Tier::Quick,
        };
        let mut replay = None;
        let mut extra = vec![];
        let args: Vec<String> = std::env::args().skip(1).collect();
        let mut i = 0;
        while i < args.len() {
            match args[i].as_str() {
                "--tier" => {
                    i += 1;
                    tier = match args.get(i).map(|s| s.as_str()) {
                        Some("thorough") => Tier::Thorough,
                        Some("quick") => Tier::Quick,
                        other => machinery_error(&format!("bad --tier {other:?}")),
                    };
                }
                "--replay" => {
                    i += 1;
                    replay = Some(PathBuf::from(
                        args.get(i)
                            .unwrap_or_else(|| machinery_error("--replay needs a path")),
                    ));
                }
                other => extra.push(other.to_string()),
            }
            i += 1;
        }
        let seed = std::env::var("VERIF_SEED")
            .ok()
            .and_then(|s| s.parse().ok())
            .unwrap_or(0);
        install_panic_hook();
        Ctx {
            id: id.to_string(),
            tier,
            seed,
            start: Instant::now(),
            replay,
            level,
            collector: Collector::default(),
            extra,
        }
    }
    /// The pinned wall clock (LD_PRELOAD seam), verified against SystemTime::now(); machinery error if absent.
    pub fn pinned_now(&self) -> u64 {
        let want: u64 = std::env::var("ZERV_VERIF_NOW").ok().and_then(|s| s.parse().ok())
            .unwrap_or_else(|| machinery_error("ZERV_VERIF_NOW not set: run through ./check (clock seam)"));
        let now = std::time::SystemTime::now().duration_since(std::time::UNIX_EPOCH).map(|d| d.as_secs()).unwrap_or(0);
        if now != want {
            machinery_error(&format!("clock seam self-test failed: SystemTime::now()={now}, expected {want}"));
        }
        want
    }
    pub fn quick(&self) -> bool {
        self.tier == Tier::Quick
    }
    pub fn tier_name(&self) -> &'static str {
        if self.quick() { "quick" } else { "thorough" }
    }
    pub fn violation(&self, class: &str, key: String, case: Value, detail: String) {
        self.collector.push(Violation {
            class: class.to_string(),
            key,
            case,
            detail,
        });
    }
    /// Load the replay case, if `--replay` was given.
    pub fn replay_case(&self) -> Option<Value> {
        let p = self.replay.as_ref()?;
        let txt = std::fs::read_to_string(p)
            .unwrap_or_else(|e| machinery_error(&format!("cannot read replay {p:?}: {e}")));
        let v: Value = serde_json::from_str(&txt)
            .unwrap_or_else(|e| machinery_error(&format!("bad replay json: {e}")));
        Some(v.get("case").cloned().unwrap_or(v))
    }
}

pub fn machinery_error(msg: &str) -> ! {
    eprintln!("MACHINERY-ERROR: {msg}");
    std::process::exit(2);
}

// ---------------------------------------------------------------- panic capture

thread_local! {
    static LAST_PANIC_LOC: std::cell::RefCell<Option<String>> = const { std::cell::RefCell::new(None) };
    static CAPTURING: std::cell::Cell<bool> = const { std::cell::Cell::new(false) };
}

pub fn install_panic_hook() {
    let default = std::panic::take_hook();
    std::panic::set_hook(Box::new(move |info| {
        if CAPTURING.with(|c| c.get()) {
            let loc = info
                .location()
                .map(|l| format!("{}:{}", l.file(), l.line()))
                .unwrap_or_else(|| "?".into());
            LAST_PANIC_LOC.with(|l| *l.borrow_mut() = Some(loc));
        } else {
            default(info);
        }
    }));
}

#[derive(Debug, Clone)]
pub struct PanicInfo {
    pub location: String,
    pub message: String,
}

impl PanicInfo {
    /// file path without line number (stable call-site key)
    pub fn file(&self) -> &str {
        self.location.rsplit_once(':').map(|x| x.0).unwrap_or(&self.location)
    }
}

/// Run `f`, catching a panic and returning where it happened.
pub fn catch<T>(f: impl FnOnce() -> T) -> Result<T, PanicInfo> {
    CAPTURING.with(|c| c.set(true));
    let r = std::panic::catch_unwind(std::panic::AssertUnwindSafe(f));
    CAPTURING.with(|c| c.set(false));
    r.map_err(|p| {
        let message = if let Some(s) = p.downcast_ref::<&str>() {
            s.to_string()
        } else if let Some(s) = p.downcast_ref::<String>() {
            s.clone()
        } else {
            "<non-string panic>".into()
        };
        let location = LAST_PANIC_LOC
            .with(|l| l.borrow_mut().take())
            .unwrap_or_else(|| "?".into());
        PanicInfo { location, message }
    })
}

// ---------------------------------------------------------------- violations

#[derive(Debug, Clone)]
pub struct Violation {
    /// narrow violation class, e.g. "accept_mismatch" — part of the known-finding identity
    pub class: String,
    /// human readable identity of the failing case (input / argv / history)
    pub key: String,
    /// replayable case
    pub case: Value,
    pub detail: String,
}

#[derive(Default)]
pub struct Collector {
    inner: Mutex<BTreeMap<String, ClassAgg>>,
}

#[derive(Default)]
struct ClassAgg {
    count: u64,
    /// up to KEEP smallest (by key length, then key) examples
    examples: Vec<Violation>,
}

const KEEP: usize = 2000;

impl Collector {
    pub fn push(&self, v: Violation) {
        let mut g = self.inner.lock().unwrap();
        let agg = g.entry(v.class.clone()).or_default();
        agg.count += 1;
        if agg.examples.len() < KEEP {
            agg.examples.push(v);
        }
    }
    pub fn total(&self) -> u64 {
        self.inner.lock().unwrap().values().map(|a| a.count).sum()
    }
}

// ---------------------------------------------------------------- known findings

#[derive(Debug, Clone)]
pub struct KnownFinding {
    pub property: String,
    pub id: String,
    pub status: String,
    pub class: String,
    pub key_regex: Option<regex::Regex>,
    pub what: String,
}

pub fn load_known_findings(property: &str) -> Vec<KnownFinding> {
    let path = format!("{}/known_findings.json", verif_root());
    let txt = match std::fs::read_to_string(&path) {
        Ok(t) => t,
        Err(_) => return vec![],
    };
    let v: Value = serde_json::from_str(&txt)
        .unwrap_or_else(|e| machinery_error(&format!("known_findings.json: {e}")));
    let mut out = vec![];
    for e in v["findings"].as_array().cloned().unwrap_or_default() {
        if e["property"].as_str() != Some(property) {
            continue;
        }
        out.push(KnownFinding {
            property: property.to_string(),
            id: e["id"].as_str().unwrap_or("").to_string(),
            status: e["status"].as_str().unwrap_or("known").to_string(),
            class: e["match"]["class"].as_str().unwrap_or("").to_string(),
            key_regex: e["match"]["key_regex"].as_str().map(|r| {
                regex::Regex::new(r)
                    .unwrap_or_else(|e| machinery_error(&format!("bad key_regex: {e}")))
            }),
            what: e["what"].as_str().unwrap_or("").to_string(),
        });
    }
    out
}

impl KnownFinding {
    fn matches(&self, v: &Violation) -> bool {
        self.status == "known"
            && self.class == v.class
            && self.key_regex.as_ref().map(|r| r.is_match(&v.key)).unwrap_or(true)
    }
}

// ---------------------------------------------------------------- evidence + finish

#[derive(Default)]
pub struct Coverage {
    pub states: u64,
    pub transitions: u64,
    pub traces_validated: u64,
    pub evaluations: u64,
    pub distinct_nontrivial: u64,
    pub rule: String,
    pub samples: Vec<Value>,
    pub exhaustive: bool,
    pub extra: BTreeMap<String, Value>,
    pub assumptions: Vec<String>,
}

impl Coverage {
    pub fn set(&mut self, k: &str, v: impl Into<Value>) {
        self.extra.insert(k.to_string(), v.into());
    }
}

/// Classify violations, print protocol lines, write replays and evidence, return exit code.
pub fn finish(ctx: &Ctx, cov: Coverage) -> ! {
    let known = load_known_findings(&ctx.id);
    let map = std::mem::take(&mut *ctx.collector.inner.lock().unwrap());
    // debugging aid: ZV_DUMP=<file> lists every kept violation (class, key, detail), one JSON object per line
    if let Ok(p) = std::env::var("ZV_DUMP") {
        let mut out = String::new();
        for (class, agg) in &map { for v in &agg.examples { out += &json!({"class": class, "key": v.key, "detail": v.detail}).to_string(); out.push('\n'); } }
        let _ = std::fs::write(p, out);
    }
    let mut known_hits: BTreeMap<String, (u64, String)> = BTreeMap::new();
    let mut new_classes: Vec<(String, u64, Violation)> = vec![];
    let mut total = 0u64;
    let mut unlisted_total = 0u64;
    for (class, agg) in &map {
        total += agg.count;
        let mut unlisted: Vec<&Violation> = vec![];
        let mut matched = 0u64;
        for v in &agg.examples {
            if let Some(k) = known.iter().find(|k| k.matches(v)) {
                matched += 1;
                let e = known_hits.entry(k.id.clone()).or_insert((0, k.what.clone()));
                e.0 += 1;
            } else {
                unlisted.push(v);
            }
        }
        // examples beyond KEEP are unclassified: count them as unlisted unless every kept one matched
        let overflow = agg.count - agg.examples.len() as u64;
        if !unlisted.is_empty() {
            unlisted.sort_by(|a, b| (a.key.len(), &a.key).cmp(&(b.key.len(), &b.key)));
            let n = unlisted.len() as u64 + overflow;
            unlisted_total += n;
            new_classes.push((class.clone(), n, unlisted[0].clone()));
        } else if overflow > 0 && matched > 0 {
            // all kept examples are known; the overflow is attributed to the same finding(s)
        }
    }
    for (id, (n, what)) in &known_hits {
        println!("KNOWN-FINDING: property={} id={} cases={} {}", ctx.id, id, n, what);
    }
    let replay_dir = format!("{}/replays", verif_root());
    let mut lines = 0;
    if ctx.replay.is_none() {
        let _ = std::fs::create_dir_all(&replay_dir);
    }
    for (class, n, v) in &new_classes {
        let path = if let Some(p) = &ctx.replay {
            p.display().to_string()
        } else {
            let p = format!("{replay_dir}/{}_{}.json", ctx.id, sanitize_name(class));
            let doc = json!({"property": ctx.id, "class": class, "key": v.key, "case": v.case,
                "detail": v.detail, "cases_in_class": n});
            let _ = std::fs::write(&p, serde_json::to_string_pretty(&doc).unwrap());
            p
        };
        if lines < 20 {
            println!("VIOLATION property={} replay={} class={} cases={} key={:?} detail={}",
                ctx.id, path, class, n, v.key, truncate(&v.detail, 400));
            lines += 1;
        }
    }
    let wall = ctx.start.elapsed().as_secs_f64();
    if ctx.replay.is_none() {
        let mut c = serde_json::Map::new();
        c.insert("states".into(), json!(cov.states));
        c.insert("transitions".into(), json!(cov.transitions));
        c.insert("traces_validated_against_impl".into(), json!(cov.traces_validated));
        c.insert("evaluations".into(), json!(cov.evaluations));
        c.insert("distinct_nontrivial".into(), json!(cov.distinct_nontrivial));
        c.insert("rule".into(), json!(cov.rule));
        c.insert("samples".into(), json!(cov.samples));
        c.insert("exhaustive".into(), json!(cov.exhaustive));
        c.insert("violations_total".into(), json!(total));
        c.insert("violations_unlisted".into(), json!(unlisted_total));
        c.insert("known_findings_hit".into(), json!(known_hits.iter().map(|(k, v)| json!({"id": k, "cases": v.0})).collect::<Vec<_>>()));
        for (k, v) in &cov.extra {
            c.insert(k.clone(), v.clone());
        }
        let ev = json!({
            "property_id": ctx.id, "tier": ctx.tier_name(), "seed": ctx.seed, "level": ctx.level,
            "coverage": Value::Object(c), "assumptions": cov.assumptions, "wall_s": wall,
            "violations": unlisted_total as i64,
        });
        let _ = std::fs::create_dir_all(format!("{}/evidence", verif_root()));
        let p = format!("{}/evidence/{}.json", verif_root(), ctx.id);
        std::fs::write(&p, serde_json::to_string_pretty(&ev).unwrap() + "\n")
            .unwrap_or_else(|e| machinery_error(&format!("cannot write evidence: {e}")));
    }
    println!(
        "{} tier={} states={} transitions={} evaluations={} distinct_nontrivial={} exhaustive={} violations={} (unlisted {}) wall={:.1}s",
        ctx.id, ctx.tier_name(), cov.states, cov.transitions, cov.evaluations, cov.distinct_nontrivial,
        cov.exhaustive, total, unlisted_total, wall
    );
    std::process::exit(if new_classes.is_empty() { 0 } else { 1 });
}

fn sanitize_name(s: &str) -> String {
    s.chars().map(|c| if c.is_ascii_alphanumeric() || c == '_' || c == '-' { c } else { '_' }).take(80).collect()
}

pub fn truncate(s: &str, n: usize) -> String {
    if s.chars().count() <= n { s.to_string() } else { s.chars().take(n).collect::<String>() + "…" }
}

// ---------------------------------------------------------------- enumeration helpers

/// Mergeable per-shard statistics.
#[derive(Default, Clone)]
pub struct Stats {
    pub n: BTreeMap<&'static str, u64>,
    /// order-independent digest of (case, observation) pairs, used by the determinism replay
    pub digest: u64,
}

impl Stats {
    #[inline]
    pub fn inc(&mut self, k: &'static str) {
        *self.n.entry(k).or_insert(0) += 1;
    }
    #[inline]
    pub fn add(&mut self, k: &'static str, v: u64) {
        *self.n.entry(k).or_insert(0) += v;
    }
    pub fn get(&self, k: &str) -> u64 {
        self.n.get(k).copied().unwrap_or(0)
    }
    pub fn merge(mut self, o: Stats) -> Stats {
        for (k, v) in o.n {
            *self.n.entry(k).or_insert(0) += v;
        }
        self.digest = self.digest.wrapping_add(o.digest);
        self
    }
    #[inline]
    pub fn observe<T: Hash>(&mut self, t: &T) {
        let mut h = Fnv(0xcbf29ce484222325);
        t.hash(&mut h);
        self.digest = self.digest.wrapping_add(h.finish());
    }
    pub fn to_json(&self) -> Value {
        Value::Object(self.n.iter().map(|(k, v)| (k.to_string(), json!(v))).collect())
    }
}

pub struct Fnv(pub u64);
impl Hasher for Fnv {
    fn finish(&self) -> u64 {
        self.0
    }
    fn write(&mut self, bytes: &[u8]) {
        for b in bytes {
            self.0 ^= *b as u64;
            self.0 = self.0.wrapping_mul(0x100000001b3);
        }
    }
}

/// Number of strings of length 0..=max_len over an alphabet of k symbols.
pub fn count_strings(k: usize, max_len: usize) -> u64 {
    (0..=max_len).map(|l| (k as u64).pow(l as u32)).sum()
}

/// Exhaustively enumerate every string over `alphabet` (symbols may be multi-char tokens) of
/// 0..=max_len symbols, depth-first as a trie, in parallel over the 2-symbol prefixes.
/// `f(&str, n_symbols, &mut Stats)` is called once per string.
pub fn for_each_string<F>(alphabet: &[&str], max_len: usize, f: F) -> Stats
where
    F: Fn(&str, usize, &mut Stats) + Sync,
{
    use rayon::prelude::*;
    let split = max_len.min(2);
    // all prefixes shorter than `split` are handled serially, those of length == split are roots
    let mut short: Vec<String> = vec![];
    let mut roots: Vec<String> = vec![String::new()];
    for _ in 0..split {
        let mut next = vec![];
        for r in &roots {
            short.push(r.clone());
            for a in alphabet {
                next.push(format!("{r}{a}"));
            }
        }
        roots = next;
    }
    let mut st = Stats::default();
    // short prefixes: note their symbol length = position in generation; recompute by construction
    {
        let mut lvl: Vec<(String, usize)> = vec![(String::new(), 0)];
        for d in 0..split {
            for (s, n) in &lvl {
                f(s, *n, &mut st);
            }
            let mut next = vec![];
            for (s, _) in &lvl {
                for a in alphabet {
                    next.push((format!("{s}{a}"), d + 1));
                }
            }
            lvl = next;
        }
    }
    let _ = short;
    let par = roots
        .par_iter()
        .map(|root| {
            let mut st = Stats::default();
            let mut buf = root.clone();
            dfs(alphabet, max_len, split, &mut buf, &f, &mut st);
            st
        })
        .reduce(Stats::default, Stats::merge);
    st.merge(par)
}

fn dfs<F>(alphabet: &[&str], max_len: usize, depth: usize, buf: &mut String, f: &F, st: &mut Stats)
where
    F: Fn(&str, usize, &mut Stats) + Sync,
{
    f(buf, depth, st);
    if depth == max_len {
        return;
    }
    for a in alphabet {
        let l = buf.len();
        buf.push_str(a);
        dfs(alphabet, max_len, depth + 1, buf, f, st);
        buf.truncate(l);
    }
}

/// Mixed-radix cartesian product enumeration: calls `f(&[usize] indices, &mut Stats)` for every
/// index vector, in parallel over the first dimensions.
pub fn for_each_product<F>(dims: &[usize], f: F) -> Stats
where
    F: Fn(&[usize], &mut Stats) + Sync,
{
    use rayon::prelude::*;
    let total: u64 = dims.iter().map(|d| *d as u64).product();
    if total == 0 {
        return Stats::default();
    }
    let chunks = 4096u64.min(total);
    (0..chunks)
        .into_par_iter()
        .map(|c| {
            let lo = total * c / chunks;
            let hi = total * (c + 1) / chunks;
            let mut st = Stats::default();
            let mut idx = vec![0usize; dims.len()];
            for n in lo..hi {
                let mut r = n;
                for (i, d) in dims.iter().enumerate().rev() {
                    idx[i] = (r % *d as u64) as usize;
                    r /= *d as u64;
                }
                f(&idx, &mut st);
            }
            st
        })
        .reduce(Stats::default, Stats::merge)
}

pub fn product_size(dims: &[usize]) -> u64 {
    dims.iter().map(|d| *d as u64).product()
}


/// Texts that mean something to git, to a CI system or to a configuration language: as values of a branch / hash / custom
/// variable they are text like any other. Shared by the layers that put "words" where free text is expected.
pub fn keyword_texts() -> Vec<&'static str> {
    vec!["HEAD", "head", "main", "master", "refs/heads/main", "refs/heads/HEAD", "refs/remotes/origin/main", "refs/remotes/origin/HEAD", "origin/main", "origin/HEAD", "origin/origin/x", "refs/heads/origin/x", "refs/heads/refs/heads/x",
        "refs/remotes/upstream/release/1", "refs/tags/v1.0.0", "refs/pull/12/merge", "heads/main", "remotes/origin/main", "(no branch)", "(HEAD detached at 1a2b3c4)", "none", "None", "null", "NULL", "nil", "true", "false", "yes", "off", "~", "*", "-", "0",
        "undefined", "unknown", "default", "latest", "v1.2.3", "vv1.2.3", "1.2.3", "feature/HEAD", "dependabot/cargo/serde-1.0.200", "release/release/1", "release/1.2.x", "user@host:path", "a b"]
}
