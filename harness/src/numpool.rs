//! Dense numeric grid shared by the checks: every value 0..=300, and the neighbourhood (-1, 0, +1) of every power of two
//! 2^8..2^64 and every power of ten 10^2..10^20, as decimal strings in increasing numeric order without duplicates.
//! Purpose: a threshold somewhere in the middle of a range (a u8 / u16 / i32 / i64 cast, a fixed digit budget, a table of
//! 100 or 1000 entries) separates two neighbouring grid values, whereas {0, 1, 10, 2^32-1} sit on one side of it.

fn dec_add1(s: &str) -> String {
    let mut d: Vec<u8> = s.bytes().collect();
    let mut i = d.len();
    loop {
        if i == 0 { d.insert(0, b'1'); break; }
        i -= 1;
        if d[i] == b'9' { d[i] = b'0'; } else { d[i] += 1; break; }
    }
    String::from_utf8(d).unwrap()
}

fn dec_cmp(a: &str, b: &str) -> std::cmp::Ordering { a.len().cmp(&b.len()).then_with(|| a.cmp(b)) }

/// the grid as decimal strings (the top of it does not fit u64)
pub fn grid() -> Vec<String> {
    let mut v: Vec<String> = (0u32..=300).map(|n| n.to_string()).collect();
    for k in 8..=64u32 {
        let p: u128 = 1u128 << k;
        for x in [p - 1, p, p + 1] { v.push(x.to_string()); }
    }
    for k in 2..=20u32 {
        let p: u128 = 10u128.pow(k);
        for x in [p - 1, p, p + 1] { v.push(x.to_string()); }
    }
    v.sort_by(|a, b| dec_cmp(a, b));
    v.dedup();
    v
}

/// the part of the grid not above `max`
pub fn grid_upto(max: u128) -> Vec<String> { grid().into_iter().filter(|s| s.parse::<u128>().map(|n| n <= max).unwrap_or(false)).collect() }

pub fn grid_u64() -> Vec<u64> { grid().iter().filter_map(|s| s.parse::<u64>().ok()).collect() }

pub fn grid_u32() -> Vec<u32> { grid().iter().filter_map(|s| s.parse::<u32>().ok()).collect() }

/// successor of a decimal string
pub fn succ(s: &str) -> String { dec_add1(s) }

/// a thinner grid for products: 0..=17, 99..=101, 127..=129, 255..=257, and the neighbourhoods of 2^15, 2^16, 2^31, 2^32, 2^63, 2^64, 10^3, 10^4, 10^9, 10^10, 10^19
pub fn thin() -> Vec<String> {
    let mut v: Vec<u128> = (0..=17).collect();
    for c in [100u128, 128, 256, 1 << 15, 1 << 16, 1 << 31, 1 << 32, 1 << 63, 1 << 64, 1000, 10_000, 1_000_000_000, 10_000_000_000, 10u128.pow(19)] { v.extend([c - 1, c, c + 1]); }
    v.sort(); v.dedup();
    v.into_iter().map(|n| n.to_string()).collect()
}

/// input sizes: the neighbourhood (-1, 0, +1) of every power of two 2^7..2^max_pow2 and of every power of ten 10^3..10^max_pow10,
/// increasing, without duplicates. A size limit (a fixed buffer, a "robustness" cap, a chunked reader) sits between two of them
/// or beyond the last one - the bound is stated in the evidence.
pub fn sizes(max_pow2: u32, max_pow10: u32) -> Vec<usize> {
    let mut v: Vec<usize> = vec![];
    for k in 7..=max_pow2 { let p = 1usize << k; v.extend([p - 1, p, p + 1]); }
    for k in 3..=max_pow10 { let p = 10usize.pow(k); v.extend([p - 1, p, p + 1]); }
    v.sort(); v.dedup();
    v
}
