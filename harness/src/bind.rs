//! Binding between the reference model's data types (refmodel::ren) and zerv's own types.
use zerv::version::zerv::{Component, PreReleaseLabel, PreReleaseVar, Var, Zerv, ZervSchema, ZervVars};

use crate::refmodel::ren::{RComp, RSchema, RVar, RVars};

pub fn var(v: &RVar) -> Var {
    match v {
        RVar::Major => Var::Major,
        RVar::Minor => Var::Minor,
        RVar::Patch => Var::Patch,
        RVar::Epoch => Var::Epoch,
        RVar::PreRelease => Var::PreRelease,
        RVar::Post => Var::Post,
        RVar::Dev => Var::Dev,
        RVar::Distance => Var::Distance,
        RVar::Dirty => Var::Dirty,
        RVar::BumpedBranch => Var::BumpedBranch,
        RVar::BumpedCommitHash => Var::BumpedCommitHash,
        RVar::BumpedCommitHashShort => Var::BumpedCommitHashShort,
        RVar::BumpedTimestamp => Var::BumpedTimestamp,
        RVar::LastBranch => Var::LastBranch,
        RVar::LastCommitHash => Var::LastCommitHash,
        RVar::LastCommitHashShort => Var::LastCommitHashShort,
        RVar::LastTimestamp => Var::LastTimestamp,
        RVar::Custom(k) => Var::Custom(k.clone()),
        RVar::Ts(p) => Var::Timestamp(p.clone()),
    }
}

pub fn rvar(v: &Var) -> RVar {
    match v {
        Var::Major => RVar::Major,
        Var::Minor => RVar::Minor,
        Var::Patch => RVar::Patch,
        Var::Epoch => RVar::Epoch,
        Var::PreRelease => RVar::PreRelease,
        Var::Post => RVar::Post,
        Var::Dev => RVar::Dev,
        Var::Distance => RVar::Distance,
        Var::Dirty => RVar::Dirty,
        Var::BumpedBranch => RVar::BumpedBranch,
        Var::BumpedCommitHash => RVar::BumpedCommitHash,
        Var::BumpedCommitHashShort => RVar::BumpedCommitHashShort,
        Var::BumpedTimestamp => RVar::BumpedTimestamp,
        Var::LastBranch => RVar::LastBranch,
        Var::LastCommitHash => RVar::LastCommitHash,
        Var::LastCommitHashShort => RVar::LastCommitHashShort,
        Var::LastTimestamp => RVar::LastTimestamp,
        Var::Custom(k) => RVar::Custom(k.clone()),
        Var::Timestamp(p) => RVar::Ts(p.clone()),
    }
}

pub fn comp(c: &RComp) -> Component {
    match c {
        RComp::Str(s) => Component::Str(s.clone()),
        RComp::UInt(n) => Component::UInt(*n),
        RComp::Var(v) => Component::Var(var(v)),
    }
}

pub fn rcomp(c: &Component) -> RComp {
    match c {
        Component::Str(s) => RComp::Str(s.clone()),
        Component::UInt(n) => RComp::UInt(*n),
        Component::Var(v) => RComp::Var(rvar(v)),
    }
}

pub fn rschema(s: &ZervSchema) -> RSchema {
    RSchema { core: s.core().iter().map(rcomp).collect(), extra_core: s.extra_core().iter().map(rcomp).collect(), build: s.build().iter().map(rcomp).collect() }
}

pub fn schema(s: &RSchema) -> Result<ZervSchema, String> {
    ZervSchema::new(s.core.iter().map(comp).collect(), s.extra_core.iter().map(comp).collect(), s.build.iter().map(comp).collect()).map_err(|e| e.to_string())
}

pub fn label(l: &str) -> PreReleaseLabel {
    match l {
        "alpha" => PreReleaseLabel::Alpha,
        "beta" => PreReleaseLabel::Beta,
        _ => PreReleaseLabel::Rc,
    }
}

pub fn rlabel(l: &PreReleaseLabel) -> &'static str {
    match l {
        PreReleaseLabel::Alpha => "alpha",
        PreReleaseLabel::Beta => "beta",
        PreReleaseLabel::Rc => "rc",
    }
}

pub fn vars(v: &RVars) -> ZervVars {
    ZervVars {
        major: v.major,
        minor: v.minor,
        patch: v.patch,
        epoch: v.epoch,
        pre_release: v.pre.map(|(l, n)| PreReleaseVar { label: label(l), number: n }),
        post: v.post,
        dev: v.dev,
        distance: v.distance,
        dirty: v.dirty,
        bumped_branch: v.bumped_branch.clone(),
        bumped_commit_hash: v.bumped_commit_hash.clone(),
        bumped_timestamp: v.bumped_timestamp,
        last_branch: v.last_branch.clone(),
        last_commit_hash: v.last_commit_hash.clone(),
        last_timestamp: v.last_timestamp,
        last_tag_version: None,
        custom: v.custom.clone(),
    }
}

pub fn rvars(v: &ZervVars) -> RVars {
    RVars {
        major: v.major,
        minor: v.minor,
        patch: v.patch,
        epoch: v.epoch,
        pre: v.pre_release.as_ref().map(|p| (rlabel(&p.label), p.number)),
        post: v.post,
        dev: v.dev,
        distance: v.distance,
        dirty: v.dirty,
        bumped_branch: v.bumped_branch.clone(),
        bumped_commit_hash: v.bumped_commit_hash.clone(),
        bumped_timestamp: v.bumped_timestamp,
        last_branch: v.last_branch.clone(),
        last_commit_hash: v.last_commit_hash.clone(),
        last_timestamp: v.last_timestamp,
        custom: v.custom.clone(),
    }
}

pub fn zerv(s: &RSchema, v: &RVars) -> Result<Zerv, String> {
    Zerv::new(schema(s)?, vars(v)).map_err(|e| e.to_string())
}
