//! Child-process runner with closed/explicit stdin, clean environment and a hard kill timer.
use std::io::{Read, Write};
use std::path::Path;
use std::process::{Command, Stdio};
use std::time::{Duration, Instant};

#[derive(Debug, Clone, PartialEq, Eq, Hash)]
pub struct Out {
    /// exit code, or -signal
    pub status: i32,
    pub stdout: Vec<u8>,
    pub stderr: Vec<u8>,
    pub timed_out: bool,
}

impl Out {
    pub fn stdout_str(&self) -> String {
        String::from_utf8_lossy(&self.stdout).into_owned()
    }
    pub fn stderr_str(&self) -> String {
        String::from_utf8_lossy(&self.stderr).into_owned()
    }
}

pub struct Run<'a> {
    pub program: &'a Path,
    pub args: Vec<String>,
    pub stdin: Option<Vec<u8>>,
    /// complete environment (env_clear is always applied)
    pub env: Vec<(String, String)>,
    pub cwd: Option<&'a Path>,
    pub timeout: Duration,
}

pub fn run(r: &Run) -> std::io::Result<Out> {
    let mut cmd = Command::new(r.program);
    cmd.args(&r.args).env_clear();
    for (k, v) in &r.env {
        cmd.env(k, v);
    }
    if let Some(c) = r.cwd {
        cmd.current_dir(c);
    }
    // a child must never outlive the engine (e.g. when the engine stops on a machinery error while a non-terminating
    // zerv is still running): the kernel kills it when its parent dies
    unsafe {
        use std::os::unix::process::CommandExt;
        cmd.pre_exec(|| { libc::prctl(libc::PR_SET_PDEATHSIG, libc::SIGKILL); Ok(()) });
    }
    cmd.stdin(if r.stdin.is_some() { Stdio::piped() } else { Stdio::null() })
        .stdout(Stdio::piped())
        .stderr(Stdio::piped());
    let mut child = cmd.spawn()?;
    let stdin_thread = if let Some(data) = r.stdin.clone() {
        let mut si = child.stdin.take().unwrap();
        Some(std::thread::spawn(move || {
            let _ = si.write_all(&data);
        }))
    } else {
        None
    };
    let mut so = child.stdout.take().unwrap();
    let mut se = child.stderr.take().unwrap();
    let t_out = std::thread::spawn(move || {
        let mut b = vec![];
        let _ = so.read_to_end(&mut b);
        b
    });
    let t_err = std::thread::spawn(move || {
        let mut b = vec![];
        let _ = se.read_to_end(&mut b);
        b
    });
    let start = Instant::now();
    let mut timed_out = false;
    let status = loop {
        match child.try_wait()? {
            Some(s) => break s,
            None => {
                if start.elapsed() > r.timeout {
                    let _ = child.kill();
                    timed_out = true;
                    break child.wait()?;
                }
                std::thread::sleep(Duration::from_micros(500));
            }
        }
    };
    if let Some(t) = stdin_thread {
        let _ = t.join();
    }
    let stdout = t_out.join().unwrap_or_default();
    let stderr = t_err.join().unwrap_or_default();
    use std::os::unix::process::ExitStatusExt;
    let code = match status.code() {
        Some(c) => c,
        None => -status.signal().unwrap_or(0),
    };
    Ok(Out { status: code, stdout, stderr, timed_out })
}

/// Minimal fixed environment for every zerv child.
pub fn base_env() -> Vec<(String, String)> {
    let mut v = base_env_unpinned();
    for k in ["LD_PRELOAD", "ZERV_VERIF_NOW"] {
        if let Ok(val) = std::env::var(k) {
            v.push((k.into(), val));
        }
    }
    v
}

pub fn base_env_unpinned() -> Vec<(String, String)> {
    vec![
        ("PATH".into(), "/usr/local/sbin:/usr/local/bin:/usr/sbin:/usr/bin:/sbin:/bin".into()),
        ("HOME".into(), "/nonexistent".into()),
        ("LC_ALL".into(), "C".into()),
        ("TZ".into(), "UTC".into()),
        ("GIT_CONFIG_GLOBAL".into(), "/dev/null".into()),
        ("GIT_CONFIG_SYSTEM".into(), "/dev/null".into()),
        ("GIT_CONFIG_NOSYSTEM".into(), "1".into()),
        ("GIT_AUTHOR_NAME".into(), "v".into()),
        ("GIT_AUTHOR_EMAIL".into(), "v@v".into()),
        ("GIT_COMMITTER_NAME".into(), "v".into()),
        ("GIT_COMMITTER_EMAIL".into(), "v@v".into()),
    ]
}

pub fn zerv_bin() -> std::path::PathBuf {
    std::env::var("ZERV_BIN")
        .unwrap_or_else(|_| format!("{}/target/zerv-bin/debug/zerv", crate::verif_root()))
        .into()
}
