//! Child-process runner with closed/explicit stdin, clean environment and a hard kill timer.
use std::io::{Read, Write};
use std::path::Path;
use std::process::{Command, Stdio};
use std::time::{Duration, Instant};

#[derive(Debug, Clone, PartialEq, Eq, Hash)]
pub struct Out {
    /// exit code, or -signal
    pub status: i32,
    pub stdout: Vec<u8>,
    pub stderr: Vec<u8>,
    pub timed_out: bool,
}

impl Out {
    pub fn stdout_str(&self) -> String {
        String::from_utf8_lossy(&self.stdout).into_owned()
    }
    pub fn stderr_str(&self) -> String {
        String::from_utf8_lossy(&self.stderr).into_owned()
    }
}

pub struct Run<'a> {
    pub program: &'a Path,
    pub args: Vec<String>,
    pub stdin: Option<Vec<u8>>,
    /// complete environment (env_clear is always applied)
    pub env: Vec<(String, String)>,
    pub cwd: Option<&'a Path>,
    pub timeout: Duration,
}

/// How the bytes of `Run::stdin` reach the child: nothing is written for `first_delay`, then `chunk` bytes at a time (0 = all at
/// once) with `gap` between the pieces; the pipe is closed `close_delay` after the last byte. The default is immediate delivery.
#[derive(Debug, Clone, Copy, Default)]
pub struct Delivery { pub first_delay: Duration, /// the first `head` bytes are written on their own, followed by a pause of `head_gap`
    pub head: usize, pub head_gap: Duration, pub chunk: usize, pub gap: Duration, pub close_delay: Duration }

pub fn run(r: &Run) -> std::io::Result<Out> { run_delivery(r, &Delivery::default()) }

pub fn run_delivery(r: &Run, d: &Delivery) -> std::io::Result<Out> {
    let d = *d;
    let mut cmd = Command::new(r.program);
    cmd.args(&r.args).env_clear();
    for (k, v) in &r.env {
        cmd.env(k, v);
    }
    if let Some(c) = r.cwd {
        cmd.current_dir(c);
    }
    // a child must never outlive the engine (e.g. when the engine stops on a machinery error while a non-terminating
    // zerv is still running): the kernel kills it when its parent dies
    unsafe {
        use std::os::unix::process::CommandExt;
        cmd.pre_exec(|| { libc::prctl(libc::PR_SET_PDEATHSIG, libc::SIGKILL); Ok(()) });
    }
    cmd.stdin(if r.stdin.is_some() { Stdio::piped() } else { Stdio::null() })
        .stdout(Stdio::piped())
        .stderr(Stdio::piped());
    let mut child = cmd.spawn()?;
    let stdin_thread = if let Some(data) = r.stdin.clone() {
        let mut si = child.stdin.take().unwrap();
        Some(std::thread::spawn(move || {
            if !d.first_delay.is_zero() { std::thread::sleep(d.first_delay); }
            let head = d.head.min(data.len());
            if head > 0 { if si.write_all(&data[..head]).is_ok() { let _ = si.flush(); } std::thread::sleep(d.head_gap); }
            let data = &data[head..];
            if d.chunk == 0 { let _ = si.write_all(data); } else {
                for (i, piece) in data.chunks(d.chunk).enumerate() {
                    if i > 0 && !d.gap.is_zero() { std::thread::sleep(d.gap); }
                    if si.write_all(piece).is_err() || si.flush().is_err() { break; }
                }
            }
            if !d.close_delay.is_zero() { std::thread::sleep(d.close_delay); }
        }))
    } else {
        None
    };
    let mut so = child.stdout.take().unwrap();
    let mut se = child.stderr.take().unwrap();
    let t_out = std::thread::spawn(move || {
        let mut b = vec![];
        let _ = so.read_to_end(&mut b);
        b
    });
    let t_err = std::thread::spawn(move || {
        let mut b = vec![];
        let _ = se.read_to_end(&mut b);
        b
    });
    let start = Instant::now();
    let mut timed_out = false;
    let status = loop {
        match child.try_wait()? {
            Some(s) => break s,
            None => {
                if start.elapsed() > r.timeout {
                    let _ = child.kill();
                    timed_out = true;
                    break child.wait()?;
                }
                std::thread::sleep(Duration::from_micros(500));
            }
        }
    };
    if let Some(t) = stdin_thread {
        let _ = t.join();
    }
    let stdout = t_out.join().unwrap_or_default();
    let stderr = t_err.join().unwrap_or_default();
    use std::os::unix::process::ExitStatusExt;
    let code = match status.code() {
        Some(c) => c,
        None => -status.signal().unwrap_or(0),
    };
    Ok(Out { status: code, stdout, stderr, timed_out })
}

/// Minimal fixed environment for every zerv child.
pub fn base_env() -> Vec<(String, String)> {
    let mut v = base_env_unpinned();
    for k in ["LD_PRELOAD", "ZERV_VERIF_NOW"] {
        if let Ok(val) = std::env::var(k) {
            v.push((k.into(), val));
        }
    }
    v
}

pub fn base_env_unpinned() -> Vec<(String, String)> {
    vec![
        ("PATH".into(), "/usr/local/sbin:/usr/local/bin:/usr/sbin:/usr/bin:/sbin:/bin".into()),
        ("HOME".into(), "/nonexistent".into()),
        ("LC_ALL".into(), "C".into()),
        ("TZ".into(), "UTC".into()),
        ("GIT_CONFIG_GLOBAL".into(), "/dev/null".into()),
        ("GIT_CONFIG_SYSTEM".into(), "/dev/null".into()),
        ("GIT_CONFIG_NOSYSTEM".into(), "1".into()),
        ("GIT_AUTHOR_NAME".into(), "v".into()),
        ("GIT_AUTHOR_EMAIL".into(), "v@v".into()),
        ("GIT_COMMITTER_NAME".into(), "v".into()),
        ("GIT_COMMITTER_EMAIL".into(), "v@v".into()),
    ]
}

pub fn zerv_bin() -> std::path::PathBuf {
    std::env::var("ZERV_BIN")
        .unwrap_or_else(|_| format!("{}/target/zerv-bin/debug/zerv", crate::verif_root()))
        .into()
}
