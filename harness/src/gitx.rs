//! R-GIT: abstract repository model, shape exploration (BFS over structural operations), and
//! materialisation of model states in real git (`git fast-import`), with model<->git conformance.
use std::collections::{BTreeMap, BTreeSet, HashMap, VecDeque};
use std::path::{Path, PathBuf};

use crate::machinery_error;
use crate::proc;

#[derive(Clone, Debug, PartialEq, Eq, Hash, PartialOrd, Ord)]
pub struct Shape {
    /// parent lists in creation order (commit 0 is the root)
    pub parents: Vec<Vec<usize>>,
    pub branches: BTreeMap<String, usize>,
    /// checked-out branch during construction
    pub cur: String,
    /// the operation sequence that first reached this shape (for replay/readability)
    pub ops: Vec<String>,
}

impl Shape {
    pub fn key(&self) -> (Vec<Vec<usize>>, BTreeMap<String, usize>, String) {
        (self.parents.clone(), self.branches.clone(), self.cur.clone())
    }
    pub fn has_merge(&self) -> bool {
        self.parents.iter().any(|p| p.len() > 1)
    }
    pub fn ancestors_or_self(&self, c: usize) -> BTreeSet<usize> {
        let mut seen = BTreeSet::new();
        let mut stack = vec![c];
        while let Some(x) = stack.pop() {
            if seen.insert(x) {
                stack.extend(self.parents[x].iter().copied());
            }
        }
        seen
    }
}

/// Rebuild a shape from a recorded operation list (replay files): the same operation semantics as `explore_shapes`.
pub fn shape_from_ops(ops: &[String]) -> Result<Shape, String> {
    let mut s = Shape { parents: vec![vec![]], branches: BTreeMap::from([("main".to_string(), 0)]), cur: "main".into(), ops: vec![] };
    // layer E of C02 renames the first branch when the explored name would collide with "main"
    if ops.iter().any(|o| o.starts_with("branch main/")) { s.branches = BTreeMap::from([("trunk".to_string(), 0)]); s.cur = "trunk".into(); }
    for op in ops {
        let tip = s.branches[&s.cur];
        let (verb, arg) = op.split_once(' ').map(|(a, b)| (a, b.to_string())).unwrap_or((op.as_str(), String::new()));
        match verb {
            "commit" => { s.parents.push(vec![tip]); let id = s.parents.len() - 1; s.branches.insert(s.cur.clone(), id); }
            "branch" => { s.branches.insert(arg.clone(), tip); s.cur = arg; }
            "checkout" => { if !s.branches.contains_key(&arg) { return Err(format!("checkout of unknown branch {arg}")); } s.cur = arg; }
            "merge-ff" => { let bt = *s.branches.get(&arg).ok_or("merge of unknown branch")?; s.branches.insert(s.cur.clone(), bt); }
            "merge" => { let bt = *s.branches.get(&arg).ok_or("merge of unknown branch")?; s.parents.push(vec![tip, bt]); let id = s.parents.len() - 1; s.branches.insert(s.cur.clone(), id); }
            // a merge commit although a fast-forward was possible (`git merge --no-ff`, the merge button of the forges)
            "merge-noff" => { let bt = *s.branches.get(&arg).ok_or("merge of unknown branch")?; s.parents.push(vec![tip, bt]); let id = s.parents.len() - 1; s.branches.insert(s.cur.clone(), id); }
            // one merge commit with three or more parents (`git merge b1 b2 ...`)
            "octopus" => { let mut ps = vec![tip]; for b in arg.split(' ') { ps.push(*s.branches.get(b).ok_or("octopus merge of unknown branch")?); } s.parents.push(ps); let id = s.parents.len() - 1; s.branches.insert(s.cur.clone(), id); }
            other => return Err(format!("unknown operation {other:?}")),
        }
        s.ops.push(op.clone());
    }
    Ok(s)
}

/// Histories outside the BFS alphabet, written as operation lists: merge commits where a fast-forward was possible (two branches
/// merging each other in turn - every commit the second merge brings in is itself a merge), criss-cross merges, octopus merges
/// with three and four parents (as HEAD, below HEAD, below the tag), and a merge of two merges.
pub fn special_shapes() -> Vec<Shape> {
    let lists: [&[&str]; 9] = [
        &["branch b1", "commit", "checkout main", "merge-noff b1", "checkout b1", "merge-noff main"],
        &["branch b1", "commit", "checkout main", "merge-noff b1", "checkout b1", "merge-noff main", "commit"],
        &["branch b1", "commit", "checkout main", "merge-noff b1", "checkout b1", "merge-noff main", "checkout main", "merge-noff b1"],
        &["branch b1", "commit", "checkout main", "commit", "merge b1", "checkout b1", "merge main"],
        &["branch b1", "commit", "checkout main", "branch b2", "commit", "checkout main", "commit", "octopus b1 b2"],
        &["branch b1", "commit", "checkout main", "branch b2", "commit", "checkout main", "commit", "octopus b1 b2", "commit"],
        &["branch b1", "commit", "checkout main", "branch b2", "commit", "checkout main", "octopus b1 b2", "commit", "commit"],
        &["branch b1", "commit", "checkout main", "branch b2", "commit", "checkout main", "branch b3", "commit", "checkout main", "commit", "octopus b1 b2 b3", "commit"],
        &["branch b1", "commit", "checkout main", "commit", "merge b1", "branch b2", "checkout b1", "commit", "checkout main", "commit", "merge b1", "checkout b2", "merge-noff main"],
    ];
    lists.iter().map(|l| shape_from_ops(&l.iter().map(|x| x.to_string()).collect::<Vec<_>>()).expect("special shape")).collect()
}

/// BFS over commit / branch&checkout / checkout / merge from a one-commit repository.
/// Returns (shapes, transitions explored).
pub fn explore_shapes(max_commits: usize, max_extra_branches: usize) -> (Vec<Shape>, u64) {
    let names = ["main", "b1", "b2", "b3"];
    let init = Shape { parents: vec![vec![]], branches: BTreeMap::from([("main".to_string(), 0)]), cur: "main".into(), ops: vec![] };
    let mut seen = BTreeSet::new();
    seen.insert(init.key());
    let mut out = vec![init.clone()];
    let mut q = VecDeque::from([init]);
    let mut transitions = 0u64;
    while let Some(s) = q.pop_front() {
        let mut next: Vec<Shape> = vec![];
        let tip = s.branches[&s.cur];
        // commit on the current branch
        if s.parents.len() < max_commits {
            let mut n = s.clone();
            n.parents.push(vec![tip]);
            let id = n.parents.len() - 1;
            n.branches.insert(n.cur.clone(), id);
            n.ops.push("commit".into());
            next.push(n);
        }
        // create a branch at the current tip and check it out
        if s.branches.len() < 1 + max_extra_branches {
            let name = names[s.branches.len()];
            let mut n = s.clone();
            n.branches.insert(name.to_string(), tip);
            n.cur = name.to_string();
            n.ops.push(format!("branch {name}"));
            next.push(n);
        }
        for (b, &bt) in &s.branches {
            if *b == s.cur { continue; }
            // checkout
            let mut n = s.clone();
            n.cur = b.clone();
            n.ops.push(format!("checkout {b}"));
            next.push(n);
            // merge b into cur
            let anc_cur = s.ancestors_or_self(tip);
            let anc_b = s.ancestors_or_self(bt);
            if anc_cur.contains(&bt) {
                continue; // already up to date
            }
            if anc_b.contains(&tip) {
                // fast-forward
                let mut n = s.clone();
                n.branches.insert(n.cur.clone(), bt);
                n.ops.push(format!("merge-ff {b}"));
                next.push(n);
            } else if s.parents.len() < max_commits {
                let mut n = s.clone();
                n.parents.push(vec![tip, bt]);
                let id = n.parents.len() - 1;
                n.branches.insert(n.cur.clone(), id);
                n.ops.push(format!("merge {b}"));
                next.push(n);
            }
        }
        for n in next {
            transitions += 1;
            if seen.insert(n.key()) {
                out.push(n.clone());
                q.push_back(n);
            }
        }
    }
    (out, transitions)
}

#[derive(Clone, Copy, Debug, PartialEq, Eq, Hash)]
pub enum DateMode { Increasing, Decreasing, ZigZag, Equal }

pub fn dates(n: usize, mode: DateMode) -> Vec<i64> {
    let base = 1_600_000_000i64;
    (0..n).map(|i| match mode {
        DateMode::Increasing => base + 1000 * i as i64,
        DateMode::Decreasing => base - 1000 * i as i64,
        DateMode::ZigZag => base + if i % 2 == 0 { 1000 * i as i64 } else { -1000 * i as i64 },
        DateMode::Equal => base,
    }).collect()
}

#[derive(Clone, Debug, PartialEq, Eq, Hash, PartialOrd, Ord)]
pub struct Tag { pub name: String, pub target: usize, pub annotated: bool }

#[derive(Clone, Debug, PartialEq, Eq, Hash)]
pub enum Head { Branch(String), Detached(usize) }

#[derive(Clone, Copy, Debug, PartialEq, Eq, Hash)]
pub enum WorkTree { Clean, ModifiedTracked, StagedNew, Untracked, IgnoredOnly, ModifiedAndIgnored, DeletedTracked, StagedModification, UntrackedInSubdir, EmptyUntrackedDir, IgnoredDir, StagedDeletion, StagedRename, ModeChange, StagedThenReverted, StagedModWorktreeAsHead, StagedNewThenDeleted, GitlinkMoved, GitlinkMovedStaged, FileNamedLikeTag, FileNamedHead, TouchedTracked, SubmoduleCheckedOutClean, SubmoduleUntrackedInside, SubmoduleModifiedInside, UserIgnoredUntracked, InfoExcludedUntracked, UnmergedBothModified, UnmergedDeletedByThem, UnmergedBothAdded }

impl WorkTree {
    pub fn dirty(self) -> bool { !matches!(self, WorkTree::Clean | WorkTree::IgnoredOnly | WorkTree::EmptyUntrackedDir | WorkTree::IgnoredDir | WorkTree::StagedThenReverted | WorkTree::TouchedTracked | WorkTree::UserIgnoredUntracked | WorkTree::InfoExcludedUntracked | WorkTree::SubmoduleCheckedOutClean) }
    pub const ALL: [WorkTree; 30] = [WorkTree::Clean, WorkTree::ModifiedTracked, WorkTree::StagedNew, WorkTree::Untracked, WorkTree::IgnoredOnly, WorkTree::ModifiedAndIgnored, WorkTree::DeletedTracked, WorkTree::StagedModification, WorkTree::UntrackedInSubdir, WorkTree::EmptyUntrackedDir, WorkTree::IgnoredDir, WorkTree::StagedDeletion, WorkTree::StagedRename, WorkTree::ModeChange, WorkTree::StagedThenReverted, WorkTree::StagedModWorktreeAsHead, WorkTree::StagedNewThenDeleted, WorkTree::GitlinkMoved, WorkTree::GitlinkMovedStaged, WorkTree::FileNamedLikeTag, WorkTree::FileNamedHead, WorkTree::TouchedTracked, WorkTree::SubmoduleCheckedOutClean, WorkTree::SubmoduleUntrackedInside, WorkTree::SubmoduleModifiedInside, WorkTree::UserIgnoredUntracked, WorkTree::InfoExcludedUntracked, WorkTree::UnmergedBothModified, WorkTree::UnmergedDeletedByThem, WorkTree::UnmergedBothAdded];
}

/// the commit every repository's gitlink `lib` records: an empty-tree root commit by v <v@v> at 1500000000 +0000, message "inner"
pub const NESTED_COMMIT: &str = "780dd3ca1074701ebb3912bf6fa3dfca1eaf79d7";

/// Environment of every git process of the harness and (where an engine exports it) of zerv's own git children: as
/// `proc::base_env_unpinned`, except that the user-level configuration is a real file that names a user-level ignore file
/// (`*.userignored`), as editors' swap-file and IDE-directory patterns usually are. What git calls ignored there is ignored.
pub fn git_env() -> Vec<(String, String)> {
    use std::sync::OnceLock;
    static CONFIG: OnceLock<String> = OnceLock::new();
    let cfg = CONFIG.get_or_init(|| {
        let dir = format!("{}/build", crate::verif_root());
        let _ = std::fs::create_dir_all(&dir);
        let (cfg, ign) = (format!("{dir}/harness.gitconfig"), format!("{dir}/harness.gitignore"));
        let want_cfg = format!("[core]\n\texcludesFile = {ign}\n");
        if std::fs::read_to_string(&ign).ok().as_deref() != Some("*.userignored\n") { std::fs::write(&ign, "*.userignored\n").unwrap_or_else(|e| machinery_error(&format!("{ign}: {e}"))); }
        if std::fs::read_to_string(&cfg).ok().as_deref() != Some(&want_cfg) { std::fs::write(&cfg, &want_cfg).unwrap_or_else(|e| machinery_error(&format!("{cfg}: {e}"))); }
        cfg
    });
    proc::base_env_unpinned().into_iter().map(|(k, v)| if k == "GIT_CONFIG_GLOBAL" { (k, cfg.clone()) } else { (k, v) }).collect()
}

pub fn git(dir: &Path, args: &[&str], stdin: Option<&[u8]>) -> String {
    use std::io::Write;
    use std::process::{Command, Stdio};
    let mut cmd = Command::new("git");
    cmd.args(args).current_dir(dir).env_clear();
    for (k, v) in git_env() { cmd.env(k, v); }
    let out = if let Some(data) = stdin {
        cmd.stdin(Stdio::piped()).stdout(Stdio::piped()).stderr(Stdio::piped());
        let mut child = cmd.spawn().unwrap_or_else(|e| machinery_error(&format!("cannot run git: {e}")));
        // inputs are small (a few KB): write then close before waiting
        child.stdin.take().unwrap().write_all(data).unwrap_or_else(|e| machinery_error(&format!("git stdin: {e}")));
        child.wait_with_output()
    } else {
        cmd.stdin(Stdio::null()).output()
    }
    .unwrap_or_else(|e| machinery_error(&format!("cannot run git: {e}")));
    if !out.status.success() {
        machinery_error(&format!("git {:?} failed in {dir:?}: {}", args, String::from_utf8_lossy(&out.stderr)));
    }
    String::from_utf8_lossy(&out.stdout).into_owned()
}

pub struct Repo {
    pub dir: PathBuf,
    pub shas: Vec<String>,
    pub dates: Vec<i64>,
    tag_objects: HashMap<(String, usize), String>,
    current_tags: Vec<Tag>,
    /// SHA-256 object format (64-digit object names)
    pub sha256: bool,
    /// how many tag objects stand between an annotated tag's ref and its commit (1 = ordinary annotated tag, 2+ = a tag of a
    /// tag, as `git tag -a v2 <annotated tag>` makes); applies to the tags written from now on
    pub nest_depth: usize,
}

pub fn scratch_root() -> PathBuf {
    let base = if Path::new("/dev/shm").is_dir() { PathBuf::from("/dev/shm") } else { std::env::temp_dir() };
    base.join(format!("zvgit-{}", std::process::id()))
}

impl Repo {
    /// Materialise the DAG and branches of `shape` with the given committer dates.
    pub fn create(root: &Path, id: &str, shape: &Shape, dates: &[i64]) -> Repo { Repo::create_fmt(root, id, shape, dates, false) }

    /// ... in the SHA-1 or the SHA-256 object format (64-digit object names; `git init --object-format=sha256`)
    pub fn create_fmt(root: &Path, id: &str, shape: &Shape, dates: &[i64], sha256: bool) -> Repo {
        let dir = root.join(id);
        let _ = std::fs::remove_dir_all(&dir);
        std::fs::create_dir_all(&dir).unwrap_or_else(|e| machinery_error(&format!("mkdir {dir:?}: {e}")));
        if sha256 { git(&dir, &["init", "-q", "-b", "zzinit", "--object-format=sha256"], None); } else { git(&dir, &["init", "-q", "-b", "zzinit"], None); }
        std::fs::write(dir.join(".git/info/exclude"), "*.locallyignored\n").unwrap_or_else(|e| machinery_error(&format!("info/exclude: {e}")));
        let mut s = String::new();
        for (i, ps) in shape.parents.iter().enumerate() {
            let msg = format!("c{i}");
            // the author date deliberately differs from the committer date (amended / rebased commits): "commit time" is %ct
            let author = if dates[i] > 43_200_000 { dates[i] - 43_200_000 } else { dates[i] + 43_200_000 };
            // the committer line records a UTC offset next to the instant (the committer's zone at the time): it is not part of "the commit time"
            let ctz = ["+0530", "-0800", "+1400", "+0000", "-1200"][i % 5];
            s += &format!("commit refs/heads/zztmp\nmark :{}\nauthor a <a@a> {} +0900\ncommitter v <v@v> {} {ctz}\ndata {}\n{}\n", i + 1, author, dates[i], msg.len(), msg);
            if let Some(p) = ps.first() { s += &format!("from :{}\n", p + 1); }
            for p in ps.iter().skip(1) { s += &format!("merge :{}\n", p + 1); }
            // every third commit is empty (tree identical to its first parent, as `git commit --allow-empty`, "ci: trigger"
            // commits or `merge -s ours` produce): it still counts for the distance
            // (long histories re-use 64 file names, so that the work tree stays small)
            if i % 3 != 2 { s += &format!("M 100644 inline f{}\ndata {}\n{}\n", i % 64, msg.len(), msg); }
            // the root commit also records a gitlink (a submodule pointer) `lib` to NESTED_COMMIT (see nested_repo); the directory stays an uninitialised, empty
            // submodule unless a work-tree state puts a nested repository there
            if i == 0 { s += "M 100644 inline .gitignore\ndata 8\nignored*\n"; s += if sha256 { "M 160000 780dd3ca1074701ebb3912bf6fa3dfca1eaf79d7780dd3ca1074701ebb3912bf lib\n" } else { "M 160000 780dd3ca1074701ebb3912bf6fa3dfca1eaf79d7 lib\n" }; }
            s += "\n";
        }
        for (b, c) in &shape.branches { s += &format!("reset refs/heads/{b}\nfrom :{}\n\n", c + 1); }
        let marks = dir.join(".git/zzmarks");
        git(&dir, &["fast-import", "--quiet", &format!("--export-marks={}", marks.display())], Some(s.as_bytes()));
        let mut shas = vec![String::new(); shape.parents.len()];
        for line in std::fs::read_to_string(&marks).unwrap_or_default().lines() {
            if let Some((m, sha)) = line.split_once(' ') { if let Ok(n) = m.trim_start_matches(':').parse::<usize>() { if n >= 1 && n <= shas.len() { shas[n - 1] = sha.to_string(); } } }
        }
        if shas.iter().any(|s| s.is_empty()) { machinery_error("fast-import marks incomplete"); }
        git(&dir, &["update-ref", "-d", "refs/heads/zztmp"], None);
        let r = Repo { dir, shas, dates: dates.to_vec(), tag_objects: HashMap::new(), current_tags: vec![], sha256, nest_depth: 1 };
        r.conform_dag(shape);
        r
    }

    /// model <-> git conformance of the DAG, dates and branch refs, using commands zerv does not use
    pub fn conform_dag(&self, shape: &Shape) {
        let log = git(&self.dir, &["log", "--all", "--format=%H %ct %P"], None);
        let mut seen = 0;
        let index: HashMap<&str, usize> = self.shas.iter().enumerate().map(|(i, s)| (s.as_str(), i)).collect();
        for line in log.lines() {
            let mut it = line.split(' ');
            let (h, ct) = (it.next().unwrap_or(""), it.next().unwrap_or(""));
            let ps: Vec<&str> = it.filter(|x| !x.is_empty()).collect();
            let Some(&i) = index.get(h) else { machinery_error(&format!("conformance: unknown commit {h} in git")) };
            let want: Vec<&str> = shape.parents[i].iter().map(|p| self.shas[*p].as_str()).collect();
            if ps != want || ct != self.dates[i].to_string() { machinery_error(&format!("conformance: commit {i} parents/date differ: git {ps:?} {ct}, model {want:?} {}", self.dates[i])); }
            seen += 1;
        }
        let reachable: BTreeSet<usize> = shape.branches.values().flat_map(|&t| shape.ancestors_or_self(t)).collect();
        if seen != reachable.len() { machinery_error(&format!("conformance: git has {seen} commits on branches, model {}", reachable.len())); }
        let refs = git(&self.dir, &["for-each-ref", "--format=%(refname) %(objectname)", "refs/heads"], None);
        let got: BTreeMap<String, String> = refs.lines().filter_map(|l| l.split_once(' ')).map(|(a, b)| (a.trim_start_matches("refs/heads/").to_string(), b.to_string())).collect();
        let want: BTreeMap<String, String> = shape.branches.iter().map(|(b, c)| (b.clone(), self.shas[*c].clone())).collect();
        if got != want { machinery_error(&format!("conformance: branch refs differ: git {got:?}, model {want:?}")); }
    }

    /// Replace the tag set.
    pub fn set_tags(&mut self, tags: &[Tag]) {
        let mut script = String::new();
        for t in &self.current_tags { if !tags.iter().any(|n| n.name == t.name) { script += &format!("delete refs/tags/{}\n", t.name); } }
        for t in tags {
            let target = if t.annotated {
                let key = (t.name.clone(), t.target);
                if !self.tag_objects.contains_key(&key) {
                    // tagger date deliberately differs from the commit date (40 days later: another day, month and often year)
                    let body = format!("object {}\ntype commit\ntag {}\ntagger v <v@v> {} -0930\n\nannotated\n", self.shas[t.target], t.name, self.dates[t.target] + 3_456_777);
                    let mut id = git(&self.dir, &["hash-object", "-t", "tag", "-w", "--stdin"], Some(body.as_bytes())).trim().to_string();
                    // nested annotated tag: further tag objects, each pointing at the previous one (inner names are not refs)
                    for lvl in 1..self.nest_depth {
                        let body = format!("object {}\ntype tag\ntag {}\ntagger v <v@v> {} +0000\n\nnested {}\n", id, t.name, self.dates[t.target] + 3_456_777 + lvl as i64, lvl);
                        id = git(&self.dir, &["hash-object", "-t", "tag", "-w", "--stdin"], Some(body.as_bytes())).trim().to_string();
                    }
                    self.tag_objects.insert(key.clone(), id);
                }
                self.tag_objects[&key].clone()
            } else { self.shas[t.target].clone() };
            script += &format!("update refs/tags/{} {}\n", t.name, target);
        }
        if !script.is_empty() { git(&self.dir, &["update-ref", "--stdin"], Some(script.as_bytes())); }
        self.current_tags = tags.to_vec();
        // conformance of tags (name -> dereferenced commit, object type)
        let refs = git(&self.dir, &["for-each-ref", "--format=%(refname) %(objecttype) %(objectname) %(*objectname)", "refs/tags"], None);
        let mut got: Vec<(String, bool, String)> = refs.lines().map(|l| { let p: Vec<&str> = l.split(' ').collect(); let ann = p.get(1) == Some(&"tag"); let peeled = if ann && self.nest_depth > 1 { git(&self.dir, &["rev-parse", "--verify", "-q", &format!("{}^{{commit}}", p[0])], None).trim().to_string() } else if ann { p.get(3).unwrap_or(&"").to_string() } else { p.get(2).unwrap_or(&"").to_string() }; (p[0].strip_prefix("refs/tags/").unwrap_or(p[0]).to_string(), ann, peeled) }).collect();
        let mut want: Vec<(String, bool, String)> = tags.iter().map(|t| (t.name.clone(), t.annotated, self.shas[t.target].clone())).collect();
        got.sort(); want.sort();
        if got != want { machinery_error(&format!("conformance: tags differ: git {got:?}, model {want:?}")); }
    }

    /// From now on annotated tags are written with `d` tag objects between ref and commit.
    pub fn set_nesting(&mut self, d: usize) {
        if d.max(1) == self.nest_depth { return; }
        self.nest_depth = d.max(1);
        self.tag_objects.clear();
        let script = git(&self.dir, &["for-each-ref", "--format=delete %(refname)", "refs/tags"], None);
        if !script.trim().is_empty() { git(&self.dir, &["update-ref", "--stdin"], Some(script.as_bytes())); }
        self.current_tags.clear();
    }

    pub fn set_head(&self, head: &Head) {
        match head {
            // not `git checkout <name>`: a branch may share its short name with a tag
            Head::Branch(b) => { git(&self.dir, &["symbolic-ref", "HEAD", &format!("refs/heads/{b}")], None); git(&self.dir, &["reset", "-q", "--hard"], None); }
            Head::Detached(c) => { git(&self.dir, &["checkout", "-q", "-f", "--detach", &self.shas[*c]], None); }
        }
        // conformance of HEAD
        let sym = {
            let mut cmd = std::process::Command::new("git");
            cmd.args(["symbolic-ref", "-q", "HEAD"]).current_dir(&self.dir).env_clear().stdin(std::process::Stdio::null());
            for (k, v) in git_env() { cmd.env(k, v); }
            cmd.output().map(|o| { let t = String::from_utf8_lossy(&o.stdout).trim().to_string(); t.strip_prefix("refs/heads/").map(|x| x.to_string()).unwrap_or(t) }).unwrap_or_default()
        };
        let want = match head { Head::Branch(b) => b.clone(), Head::Detached(_) => String::new() };
        if sym != want { machinery_error(&format!("conformance: HEAD is {sym:?}, model {want:?}")); }
    }

    /// Put the work tree into the given state (assumes a clean checkout); returns nothing, conformance via `git status`.
    pub fn set_worktree(&self, w: WorkTree, tracked_file: &str) {
        let p = |n: &str| self.dir.join(n);
        match w {
            WorkTree::Clean => {}
            WorkTree::ModifiedTracked => { std::fs::write(p(tracked_file), "changed").unwrap(); }
            WorkTree::StagedNew => { std::fs::write(p("newfile"), "x").unwrap(); git(&self.dir, &["add", "newfile"], None); }
            WorkTree::Untracked => { std::fs::write(p("untracked.txt"), "x").unwrap(); }
            WorkTree::IgnoredOnly => { std::fs::write(p("ignored.log"), "x").unwrap(); }
            WorkTree::ModifiedAndIgnored => { std::fs::write(p("ignored.log"), "x").unwrap(); std::fs::write(p(tracked_file), "changed").unwrap(); }
            WorkTree::DeletedTracked => { std::fs::remove_file(p(tracked_file)).unwrap(); }
            WorkTree::StagedModification => { std::fs::write(p(tracked_file), "changed").unwrap(); git(&self.dir, &["add", tracked_file], None); }
            WorkTree::UntrackedInSubdir => { std::fs::create_dir_all(p("sub/deeper")).unwrap(); std::fs::write(p("sub/deeper/new.txt"), "x").unwrap(); }
            WorkTree::EmptyUntrackedDir => { std::fs::create_dir_all(p("emptydir/inner")).unwrap(); }
            WorkTree::IgnoredDir => { std::fs::create_dir_all(p("ignored_dir")).unwrap(); std::fs::write(p("ignored_dir/file.txt"), "x").unwrap(); }
            WorkTree::StagedDeletion => { git(&self.dir, &["rm", "-q", tracked_file], None); }
            WorkTree::StagedRename => { git(&self.dir, &["mv", tracked_file, "renamed"], None); }
            WorkTree::ModeChange => { use std::os::unix::fs::PermissionsExt; std::fs::set_permissions(p(tracked_file), std::fs::Permissions::from_mode(0o755)).unwrap(); }
            // untracked files that only the user-level ignore file (core.excludesFile) or $GIT_DIR/info/exclude covers
            WorkTree::UserIgnoredUntracked => { std::fs::write(p(".f0.swp.userignored"), "x").unwrap(); std::fs::create_dir_all(p("ide.userignored")).unwrap(); std::fs::write(p("ide.userignored/workspace.xml"), "x").unwrap(); }
            WorkTree::InfoExcludedUntracked => { std::fs::write(p("notes.locallyignored"), "x").unwrap(); }
            // a merge / cherry-pick / rebase / stash pop stopped on a conflict and the conflicting path is the only change: the index holds
            // stages 1-3 (UU), 1-2 (UD: deleted by them) or 2-3 of a new path (AA); the work-tree copy carries conflict markers
            WorkTree::UnmergedBothModified | WorkTree::UnmergedDeletedByThem | WorkTree::UnmergedBothAdded => {
                let path = if w == WorkTree::UnmergedBothAdded { "bothadded" } else { tracked_file };
                let blob = |text: &str| git(&self.dir, &["hash-object", "-w", "--stdin"], Some(text.as_bytes())).trim().to_string();
                let (base, ours, theirs) = (blob("base\n"), blob("ours\n"), blob("theirs\n"));
                let zero = "0".repeat(if self.sha256 { 64 } else { 40 });
                let mut info = format!("0 {zero}\t{path}\n");
                match w {
                    WorkTree::UnmergedBothModified => { info += &format!("100644 {base} 1\t{path}\n100644 {ours} 2\t{path}\n100644 {theirs} 3\t{path}\n"); }
                    WorkTree::UnmergedDeletedByThem => { info += &format!("100644 {base} 1\t{path}\n100644 {ours} 2\t{path}\n"); }
                    _ => { info += &format!("100644 {ours} 2\t{path}\n100644 {theirs} 3\t{path}\n"); }
                }
                git(&self.dir, &["update-index", "--index-info"], Some(info.as_bytes()));
                std::fs::write(p(path), "<<<<<<< ours\nours\n=======\ntheirs\n>>>>>>> theirs\n").unwrap();
            }
            WorkTree::TouchedTracked => {} // done after the conformance check below (which would refresh the index)
            // untracked files whose names are also revisions: `git <cmd> v1.0.0` / `git <cmd> HEAD` become ambiguous without `--`
            WorkTree::FileNamedLikeTag => { for n in ["v1.0.0", "v1.2.3", "1.5.0rc1", "v2.0.0"] { std::fs::write(p(n), "x").unwrap(); } }
            WorkTree::FileNamedHead => { std::fs::write(p("HEAD"), "x").unwrap(); }
            // the submodule directory holds a repository checked out at another commit than the recorded one ( M lib / M  lib)
            // the submodule is checked out exactly at the recorded commit: clean; with an untracked or a modified file inside it,
            // the superproject's `git status` says " M lib"
            WorkTree::SubmoduleCheckedOutClean | WorkTree::SubmoduleUntrackedInside | WorkTree::SubmoduleModifiedInside => {
                self.nested_repo(&p("lib"), w == WorkTree::SubmoduleModifiedInside);
                if w == WorkTree::SubmoduleUntrackedInside { std::fs::write(p("lib/untracked.txt"), "x").unwrap(); }
                if w == WorkTree::SubmoduleModifiedInside { std::fs::write(p("lib/tracked.txt"), "changed").unwrap(); }
            }
            WorkTree::GitlinkMoved | WorkTree::GitlinkMovedStaged => {
                self.nested_repo(&p("lib"), false);
                git(&p("lib"), &["commit", "-q", "--allow-empty", "-m", "moved on"], None);
                if w == WorkTree::GitlinkMovedStaged { git(&self.dir, &["add", "lib"], None); }
            }
            // staged change whose work-tree copy has been put back to the committed content (status MM): index != HEAD
            WorkTree::StagedModWorktreeAsHead => { let orig = std::fs::read(p(tracked_file)).unwrap(); std::fs::write(p(tracked_file), "changed").unwrap(); git(&self.dir, &["add", tracked_file], None); std::fs::write(p(tracked_file), orig).unwrap(); }
            // new file staged, then deleted from the work tree (status AD): still a staged change
            WorkTree::StagedNewThenDeleted => { std::fs::write(p("newfile2"), "x").unwrap(); git(&self.dir, &["add", "newfile2"], None); std::fs::remove_file(p("newfile2")).unwrap(); }
            // content changed and staged, then changed back in the work tree and re-staged: index == HEAD again
            WorkTree::StagedThenReverted => { let orig = std::fs::read(p(tracked_file)).unwrap(); std::fs::write(p(tracked_file), "changed").unwrap(); git(&self.dir, &["add", tracked_file], None); std::fs::write(p(tracked_file), orig).unwrap(); git(&self.dir, &["add", tracked_file], None); }
        }
        // conformance with a command zerv does not use in this form
        let st = git(&self.dir, &["status", "--porcelain=v2", "--ignored=no", "--untracked-files=all"], None);
        if st.trim().is_empty() == w.dirty() { machinery_error(&format!("conformance: work tree {w:?} but git status says {st:?}")); }
        if w == WorkTree::TouchedTracked {
            // same bytes, new inode and an old mtime: the index's cached stat data is stale, the content is not changed.
            // (no git command after this point: `git status` would refresh the index and hide the staleness)
            let orig = std::fs::read(p(tracked_file)).unwrap();
            std::fs::remove_file(p(tracked_file)).unwrap();
            std::fs::write(p(tracked_file), &orig).unwrap();
            let f = std::fs::OpenOptions::new().write(true).open(p(tracked_file)).unwrap();
            let _ = f.set_modified(std::time::UNIX_EPOCH + std::time::Duration::from_secs(1_000_000_000));
        }
    }

    /// A repository in the submodule directory whose HEAD is the commit the gitlink records (deterministic: fixed identity,
    /// date and message). With `with_file` a file is additionally staged inside it (the recorded commit has an empty tree).
    fn nested_repo(&self, dir: &Path, with_file: bool) {
        git(dir, &["init", "-q", "-b", "main"], None);
        let mut cmd = std::process::Command::new("git");
        cmd.args(["commit", "-q", "--allow-empty", "-m", "inner"]).current_dir(dir).env_clear().stdin(std::process::Stdio::null());
        for (k, v) in git_env() { cmd.env(k, v); }
        cmd.env("GIT_AUTHOR_DATE", "1500000000 +0000").env("GIT_COMMITTER_DATE", "1500000000 +0000");
        if !cmd.output().map(|o| o.status.success()).unwrap_or(false) { machinery_error("nested repository: commit failed"); }
        let head = git(dir, &["rev-parse", "HEAD"], None);
        if head.trim() != NESTED_COMMIT { machinery_error(&format!("nested repository: HEAD is {} but the gitlink records {NESTED_COMMIT}", head.trim())); }
        if with_file {
            // a file that the nested repository tracks *at the recorded commit* cannot exist (that commit has an empty tree);
            // "modified content" inside a submodule also covers staged additions, which is what is produced here
            std::fs::write(dir.join("tracked.txt"), "x").unwrap();
            git(dir, &["add", "tracked.txt"], None);
        }
    }

    pub fn reset_worktree(&self) {
        // a nested repository left in the submodule directory survives `reset --hard` and `clean`: remove it first
        if self.dir.join("lib/.git").exists() { let _ = std::fs::remove_dir_all(self.dir.join("lib")); }
        git(&self.dir, &["reset", "-q", "--hard"], None);
        git(&self.dir, &["clean", "-q", "-f", "-d", "-x"], None);
    }

    pub fn remove(self) {
        let _ = std::fs::remove_dir_all(&self.dir);
    }
}

// ---------------------------------------------------------------- cross-check of the shape explorer with stateright

/// The same abstract operation system as `explore_shapes`, expressed as a stateright model; used only to
/// cross-check the purpose-built BFS (same bounds => same number of unique states).
pub mod sr {
    use std::collections::BTreeMap;

    use stateright::{Checker, Model, Property};

    #[derive(Clone, Debug, PartialEq, Eq, Hash)]
    pub struct S { pub parents: Vec<Vec<usize>>, pub branches: BTreeMap<String, usize>, pub cur: String }

    #[derive(Clone, Debug, PartialEq, Eq, Hash)]
    pub enum A { Commit, Branch(String), Checkout(String), Merge(String) }

    pub struct GitOps { pub max_commits: usize, pub max_extra_branches: usize }

    fn anc(s: &S, c: usize) -> std::collections::BTreeSet<usize> {
        let mut seen = std::collections::BTreeSet::new();
        let mut st = vec![c];
        while let Some(x) = st.pop() { if seen.insert(x) { st.extend(s.parents[x].iter().copied()); } }
        seen
    }

    impl Model for GitOps {
        type State = S;
        type Action = A;
        fn init_states(&self) -> Vec<S> {
            vec![S { parents: vec![vec![]], branches: BTreeMap::from([("main".to_string(), 0)]), cur: "main".into() }]
        }
        fn actions(&self, s: &S, out: &mut Vec<A>) {
            let names = ["main", "b1", "b2", "b3"];
            let tip = s.branches[&s.cur];
            if s.parents.len() < self.max_commits { out.push(A::Commit); }
            if s.branches.len() < 1 + self.max_extra_branches { out.push(A::Branch(names[s.branches.len()].to_string())); }
            for (b, &bt) in &s.branches {
                if *b == s.cur { continue; }
                out.push(A::Checkout(b.clone()));
                let ac = anc(s, tip);
                if ac.contains(&bt) { continue; }
                let ab = anc(s, bt);
                if ab.contains(&tip) || s.parents.len() < self.max_commits { out.push(A::Merge(b.clone())); }
            }
        }
        fn next_state(&self, s: &S, a: A) -> Option<S> {
            let mut n = s.clone();
            let tip = s.branches[&s.cur];
            match a {
                A::Commit => { n.parents.push(vec![tip]); let id = n.parents.len() - 1; n.branches.insert(n.cur.clone(), id); }
                A::Branch(name) => { n.branches.insert(name.clone(), tip); n.cur = name; }
                A::Checkout(b) => { n.cur = b; }
                A::Merge(b) => {
                    let bt = s.branches[&b];
                    if anc(s, bt).contains(&tip) { n.branches.insert(n.cur.clone(), bt); }
                    else { n.parents.push(vec![tip, bt]); let id = n.parents.len() - 1; n.branches.insert(n.cur.clone(), id); }
                }
            }
            Some(n)
        }
        fn properties(&self) -> Vec<Property<Self>> {
            vec![Property::always("branch tips exist", |_, s: &S| s.branches.values().all(|t| *t < s.parents.len()))]
        }
    }

    /// unique states reachable within the bounds, by stateright's BFS
    pub fn unique_states(max_commits: usize, max_extra_branches: usize) -> usize {
        let checker = GitOps { max_commits, max_extra_branches }.checker().spawn_bfs().join();
        checker.unique_state_count()
    }
}
