//! Profiles of environment variables that have nothing to do with zerv's inputs (properties C14, C17).
/// Unrelated environment, as profiles: 0 = none, 1 = terminal / tooling variables, 2 = everything GitHub Actions exports
/// for a branch build, 3 = what GitLab CI, Jenkins, Azure Pipelines, Travis, CircleCI, Bitbucket, Buildkite, Drone,
/// AppVeyor and packaging tools export (branch, tag, commit, build number, version overrides).
pub const PROFILES: usize = 4;
pub fn profile_env(p: usize) -> Vec<(&'static str, &'static str)> {
    match p {
        1 => vec![("COLUMNS", "1"), ("RUST_BACKTRACE", "1"), ("NO_COLOR", "1"), ("HOME", ""), ("TERM", "dumb"), ("LANGUAGE", "de:fr"), ("SOURCE_DATE_EPOCH", "1"), ("ZERV_TEST", "x"), ("CLICOLOR_FORCE", "1")],
        2 => vec![("CI", "true"), ("GITHUB_ACTIONS", "true"), ("GITHUB_REF", "refs/heads/feature/login"), ("GITHUB_REF_NAME", "feature/login"), ("GITHUB_HEAD_REF", "feature/login"), ("GITHUB_BASE_REF", "main"),
            ("GITHUB_REF_TYPE", "branch"), ("GITHUB_REF_PROTECTED", "false"), ("GITHUB_SHA", "0123456789abcdef0123456789abcdef01234567"), ("GITHUB_RUN_NUMBER", "77"), ("GITHUB_RUN_ID", "9000000001"), ("GITHUB_RUN_ATTEMPT", "2"),
            ("GITHUB_EVENT_NAME", "pull_request"), ("GITHUB_WORKSPACE", "/nonexistent/work"), ("GITHUB_REPOSITORY", "o/r"), ("GITHUB_JOB", "build"), ("RUNNER_OS", "Linux"), ("GITHUB_WORKFLOW", "ci")],
        3 => vec![("CI", "1"), ("GITLAB_CI", "true"), ("CI_COMMIT_REF_NAME", "topic"), ("CI_COMMIT_BRANCH", "topic"), ("CI_COMMIT_TAG", "v9.9.9"), ("CI_COMMIT_SHA", "fedcba9876543210fedcba9876543210fedcba98"), ("CI_COMMIT_SHORT_SHA", "fedcba98"),
            ("CI_PIPELINE_IID", "5"), ("CI_COMMIT_TIMESTAMP", "2020-01-01T00:00:00Z"), ("JENKINS_URL", "http://j/"), ("BRANCH_NAME", "topic"), ("GIT_BRANCH", "origin/topic"), ("GIT_COMMIT", "fedcba9876543210fedcba9876543210fedcba98"), ("TAG_NAME", "v9.9.9"),
            ("BUILD_NUMBER", "12"), ("TF_BUILD", "True"), ("BUILD_SOURCEBRANCH", "refs/heads/topic"), ("BUILD_SOURCEBRANCHNAME", "topic"), ("BUILD_SOURCEVERSION", "fedcba98"), ("TRAVIS", "true"), ("TRAVIS_BRANCH", "topic"), ("TRAVIS_TAG", "v9.9.9"),
            ("CIRCLECI", "true"), ("CIRCLE_BRANCH", "topic"), ("CIRCLE_TAG", "v9.9.9"), ("BITBUCKET_BRANCH", "topic"), ("BITBUCKET_TAG", "v9.9.9"), ("BUILDKITE_BRANCH", "topic"), ("DRONE_BRANCH", "topic"), ("APPVEYOR_REPO_BRANCH", "topic"),
            ("SEMAPHORE_GIT_BRANCH", "topic"), ("VERSION", "9.9.9"), ("ZERV_VERSION", "9.9.9"), ("PACKAGE_VERSION", "9.9.9"), ("SETUPTOOLS_SCM_PRETEND_VERSION", "9.9.9"), ("ZERV_BRANCH", "topic"), ("ZERV_SOURCE", "none"), ("ZERV_OUTPUT_FORMAT", "pep440")],
        _ => vec![],
    }
}

