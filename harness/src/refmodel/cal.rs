//! R-CAL: proleptic Gregorian UTC calendar from a Unix timestamp (days-from-civil inverse), no chrono.

#[derive(Debug, Clone, Copy, PartialEq, Eq)]
pub struct Civil {
    pub year: i64,
    pub month: u32,
    pub day: u32,
    pub hour: u32,
    pub minute: u32,
    pub second: u32,
    /// day of year, 0-based
    pub yday: u32,
    /// 0 = Monday .. 6 = Sunday
    pub wday_mon0: u32,
}

pub fn is_leap(y: i64) -> bool {
    (y % 4 == 0 && y % 100 != 0) || y % 400 == 0
}

pub fn civil(t: u64) -> Civil {
    let days = (t / 86400) as i64;
    let rem = (t % 86400) as u32;
    // civil_from_days (Howard Hinnant)
    let z = days + 719468;
    let era = z.div_euclid(146097);
    let doe = z.rem_euclid(146097);
    let yoe = (doe - doe / 1460 + doe / 36524 - doe / 146096) / 365;
    let y = yoe + era * 400;
    let doy = doe - (365 * yoe + yoe / 4 - yoe / 100);
    let mp = (5 * doy + 2) / 153;
    let d = (doy - (153 * mp + 2) / 5 + 1) as u32;
    let m = if mp < 10 { mp + 3 } else { mp - 9 } as u32;
    let year = if m <= 2 { y + 1 } else { y };
    const CUM: [u32; 12] = [0, 31, 59, 90, 120, 151, 181, 212, 243, 273, 304, 334];
    let yday = CUM[(m - 1) as usize] + d - 1 + if m > 2 && is_leap(year) { 1 } else { 0 };
    // 1970-01-01 was a Thursday (Mon0 = 3)
    let wday_mon0 = ((days + 3).rem_euclid(7)) as u32;
    Civil { year, month: m, day: d, hour: rem / 3600, minute: rem % 3600 / 60, second: rem % 60, yday, wday_mon0 }
}

/// The sixteen documented patterns (property C17).
pub const PATTERNS: [&str; 16] = ["YYYY", "YY", "MM", "0M", "DD", "0D", "HH", "0H", "mm", "0m", "SS", "0S", "WW", "0W", "compact_date", "compact_datetime"];

pub fn field(p: &str, t: u64) -> String {
    let c = civil(t);
    // %W: week number of the year, weeks starting on Monday, days before the first Monday are week 0
    let ww = (c.yday + 7 - c.wday_mon0) / 7;
    match p {
        "YYYY" => format!("{}", c.year),
        "YY" => format!("{:02}", c.year % 100),
        "MM" => format!("{}", c.month),
        "0M" => format!("{:02}", c.month),
        "DD" => format!("{}", c.day),
        "0D" => format!("{:02}", c.day),
        "HH" => format!("{}", c.hour),
        "0H" => format!("{:02}", c.hour),
        "mm" => format!("{}", c.minute),
        "0m" => format!("{:02}", c.minute),
        "SS" => format!("{}", c.second),
        "0S" => format!("{:02}", c.second),
        "WW" => format!("{ww}"),
        "0W" => format!("{ww:02}"),
        "compact_date" => format!("{:04}{:02}{:02}", c.year, c.month, c.day),
        "compact_datetime" => format!("{:04}{:02}{:02}{:02}{:02}{:02}", c.year, c.month, c.day, c.hour, c.minute, c.second),
        _ => panic!("unknown pattern {p}"),
    }
}
