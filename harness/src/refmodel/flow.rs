//! R-FLOW: the flow law of property C04 (DESIGN A.7) and R-SIP (SipHash-1-3, zero key, `str` hashing)
//! for the branch id. No zerv code, no std hasher.
use super::ren::RVars;

// ---------------------------------------------------------------- R-SIP

fn sipround(v: &mut [u64; 4]) {
    v[0] = v[0].wrapping_add(v[1]); v[1] = v[1].rotate_left(13); v[1] ^= v[0]; v[0] = v[0].rotate_left(32);
    v[2] = v[2].wrapping_add(v[3]); v[3] = v[3].rotate_left(16); v[3] ^= v[2];
    v[0] = v[0].wrapping_add(v[3]); v[3] = v[3].rotate_left(21); v[3] ^= v[0];
    v[2] = v[2].wrapping_add(v[1]); v[1] = v[1].rotate_left(17); v[1] ^= v[2]; v[2] = v[2].rotate_left(32);
}

/// SipHash-1-3 with key (0, 0) over `data`.
pub fn siphash13(data: &[u8]) -> u64 {
    let mut v: [u64; 4] = [0x736f6d6570736575, 0x646f72616e646f6d, 0x6c7967656e657261, 0x7465646279746573];
    let mut chunks = data.chunks_exact(8);
    for c in &mut chunks {
        let m = u64::from_le_bytes(c.try_into().unwrap());
        v[3] ^= m;
        sipround(&mut v);
        v[0] ^= m;
    }
    let rem = chunks.remainder();
    let mut b: u64 = (data.len() as u64) << 56;
    for (i, x) in rem.iter().enumerate() { b |= (*x as u64) << (8 * i); }
    v[3] ^= b;
    sipround(&mut v);
    v[0] ^= b;
    v[2] ^= 0xff;
    sipround(&mut v); sipround(&mut v); sipround(&mut v);
    v[0] ^ v[1] ^ v[2] ^ v[3]
}

/// Hash of a Rust `str` under the default (zero-keyed) hasher: bytes followed by 0xff.
pub fn hash_str(s: &str) -> u64 {
    let mut d = s.as_bytes().to_vec();
    d.push(0xff);
    siphash13(&d)
}

/// First `len` decimal digits of the branch hash.
pub fn branch_id(branch: &str, len: usize) -> String {
    let d = hash_str(branch).to_string();
    d.chars().take(len).collect()
}

// ---------------------------------------------------------------- rules

#[derive(Clone, Debug, PartialEq)]
pub struct Rule {
    pub pattern: String,
    pub label: &'static str,
    pub number: Option<u32>,
    /// "tag" | "commit"
    pub mode: &'static str,
}

pub fn default_rules() -> Vec<Rule> {
    vec![
        Rule { pattern: "develop".into(), label: "beta", number: Some(1), mode: "commit" },
        Rule { pattern: "release/*".into(), label: "rc", number: None, mode: "tag" },
        Rule { pattern: "*".into(), label: "alpha", number: None, mode: "commit" },
    ]
}

pub fn rules_ron(rules: &[Rule]) -> String {
    let items: Vec<String> = rules.iter().map(|r| {
        let num = match r.number { Some(n) => format!(", pre_release_num: {n}"), None => String::new() };
        format!("(pattern: \"{}\", pre_release_label: {}{}, post_mode: {})", r.pattern, r.label, num, r.mode)
    }).collect();
    format!("[{}]", items.join(", "))
}

fn matches(r: &Rule, branch: &str) -> bool {
    if r.pattern == "*" { return !branch.is_empty(); }
    if let Some(p) = r.pattern.strip_suffix("/*") {
        let prefix = format!("{p}/");
        return branch.starts_with(&prefix) && branch.len() > prefix.len();
    }
    r.pattern == branch
}

#[derive(Debug, Clone, PartialEq)]
pub enum Num {
    Exact(String),
    /// statement leaves it open (absent branch)
    Unspecified,
    /// the first all-digit segment cannot be represented: the branch hash or the segment's own value are both defensible,
    /// any other number (e.g. a *later* digit segment) is not
    OneOf(Vec<String>),
}

/// number from the rule: explicit, else first all-digit '/'-segment after the prefix, else None (=> branch id)
fn rule_number(r: &Rule, branch: &str) -> Option<Num> {
    if let Some(n) = r.number { return Some(Num::Exact(n.to_string())); }
    let rest: &str = if r.pattern == "*" { branch } else if let Some(p) = r.pattern.strip_suffix("/*") { &branch[p.len() + 1..] } else { return None };
    let seg = rest.split('/').find(|s| !s.is_empty() && s.bytes().all(|b| b.is_ascii_digit()))?;
    let stripped = seg.trim_start_matches('0');
    let stripped = if stripped.is_empty() { "0" } else { stripped };
    if stripped.len() > 10 || (stripped.len() == 10 && stripped > "4294967295") { return Some(Num::OneOf(vec![stripped.to_string()])); }
    Some(Num::Exact(stripped.to_string()))
}

#[derive(Clone, Debug, Default)]
pub struct FlowInput {
    pub branch: Option<String>,
    pub distance: Option<u64>,
    /// after --dirty / --no-dirty / --clean
    pub dirty: Option<bool>,
    pub flag_post: Option<u64>,
    pub flag_label: Option<&'static str>,
    pub flag_num: Option<u32>,
    pub flag_mode: Option<&'static str>,
    pub hash_len: usize,
}

#[derive(Debug, Clone, PartialEq)]
pub struct Expect {
    pub major: Option<u64>,
    pub minor: Option<u64>,
    pub patch: Option<u64>,
    pub epoch: Option<u64>,
    pub pre: Option<(&'static str, Num)>,
    /// None = unspecified
    pub post: Option<Option<u64>>,
    pub dev: Option<u64>,
    pub active: bool,
}

/// tag: the variables of the base tag (as zerv itself reports them without any flow processing)
pub fn expect(tag: &RVars, rules: &[Rule], i: &FlowInput, now: u64) -> Expect {
    let active = i.dirty.unwrap_or(false) || i.distance.unwrap_or(0) > 0;
    if !active {
        return Expect { major: tag.major, minor: tag.minor, patch: tag.patch, epoch: tag.epoch,
            pre: tag.pre.map(|(l, n)| (l, n.map(|n| Num::Exact(n.to_string())).unwrap_or(Num::Exact("none".into())))),
            post: Some(i.flag_post.or(tag.post)), dev: tag.dev, active };
    }
    let rule = i.branch.as_deref().and_then(|b| rules.iter().find(|r| matches(r, b)));
    let label = i.flag_label.or(rule.map(|r| r.label)).unwrap_or("alpha");
    let mode = i.flag_mode.or(rule.map(|r| r.mode)).unwrap_or("commit");
    let number = if let Some(n) = i.flag_num { Num::Exact(n.to_string()) }
        else if let Some(n) = rule.and_then(|r| rule_number(r, i.branch.as_deref().unwrap_or(""))) {
            match n { Num::OneOf(mut v) => { if let Some(b) = &i.branch { v.push(branch_id(b, i.hash_len)); } Num::OneOf(v) } other => other }
        }
        else if let Some(b) = &i.branch { Num::Exact(branch_id(b, i.hash_len)) }
        else { Num::Unspecified };
    let base_post = i.flag_post.or(tag.post);
    let post = if mode == "commit" {
        match i.distance { Some(d) => Some(Some(base_post.unwrap_or(0) + d)), None => None }
    } else {
        Some(Some(base_post.unwrap_or(0) + 1))
    };
    let dev = if (mode == "commit" && i.dirty.unwrap_or(false)) || mode == "tag" { Some(now) } else { None };
    Expect { major: tag.major, minor: tag.minor, patch: if tag.pre.is_none() { Some(tag.patch.unwrap_or(0) + 1) } else { tag.patch },
        epoch: tag.epoch, pre: Some((label, number)), post, dev, active }
}
