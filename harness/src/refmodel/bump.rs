//! R-BUMP: override / bump / reset semantics in precedence order (property C05, DESIGN A.6).
//! Operates on refmodel::ren types. No zerv code.
use super::ren::{RComp, RSchema, RVar, RVars};

#[derive(Clone, Debug, PartialEq, Eq, Hash, PartialOrd, Ord)]
pub enum Field { Epoch, Major, Minor, Patch, PreNum, Post, Dev }

#[derive(Clone, Debug, PartialEq, Eq, Hash, PartialOrd, Ord)]
pub enum Section { Core, ExtraCore, Build }

#[derive(Clone, Debug, PartialEq, Eq, Hash, PartialOrd, Ord)]
pub enum Op {
    Override(Field, u32),
    Bump(Field, u32),
    OverrideLabel(&'static str),
    BumpLabel(&'static str),
    /// index spelling (e.g. "0", "-1", "~2") and value text
    SecOverride(Section, String, String),
    /// index spelling and optional amount/text
    SecBump(Section, String, Option<String>),
    Distance(u32),
    Dirty,
    NoDirty,
    Clean,
    NoBumpContext,
    /// --tag-version TEXT on a source that already carries a version: every version variable is replaced by the parsed tag
    TagVersion(&'static str),
}

#[derive(Clone, Debug, PartialEq)]
pub struct State {
    pub schema: RSchema,
    pub vars: RVars,
}

#[derive(Debug, Clone, PartialEq)]
pub enum Outcome {
    Ok(State, Unspecified),
    /// rejected (usage error or zerv error), nothing printed
    Rejected(String),
}

/// which parts of the result the statement leaves open for this operation set (DESIGN A.10)
#[derive(Debug, Clone, Default, PartialEq)]
pub struct Unspecified {
    /// the pre-release label was invented (number set/bumped on a version without pre-release)
    pub pre_label: bool,
    /// the number kept when only the label was overridden
    pub pre_number: bool,
}

#[derive(Clone, Copy, PartialEq, Eq, PartialOrd, Ord, Debug)]
enum Level { Epoch, Major, Minor, Patch, Core, PreLabel, PreNum, Post, Dev, ExtraCore, Build }
const LEVELS: [Level; 11] = [Level::Epoch, Level::Major, Level::Minor, Level::Patch, Level::Core, Level::PreLabel, Level::PreNum, Level::Post, Level::Dev, Level::ExtraCore, Level::Build];

fn level_of(f: &Field) -> Level {
    match f { Field::Epoch => Level::Epoch, Field::Major => Level::Major, Field::Minor => Level::Minor, Field::Patch => Level::Patch, Field::PreNum => Level::PreNum, Field::Post => Level::Post, Field::Dev => Level::Dev }
}

fn reset_below(v: &mut RVars, l: Level) {
    for lv in LEVELS.iter().filter(|x| **x > l) {
        match lv {
            Level::Epoch => v.epoch = Some(0),
            Level::Major => v.major = Some(0),
            Level::Minor => v.minor = Some(0),
            Level::Patch => v.patch = Some(0),
            Level::PreLabel => v.pre = None,
            Level::PreNum => if let Some((l, _)) = v.pre { v.pre = Some((l, Some(0))); },
            Level::Post => v.post = None,
            Level::Dev => v.dev = None,
            _ => {}
        }
    }
}

fn add(a: u64, b: u32) -> Result<u64, String> {
    a.checked_add(b as u64).ok_or_else(|| "overflow".to_string())
}

fn field(v: &mut RVars, f: &Field, ov: Option<u32>, bump: Option<u32>, un: &mut Unspecified) -> Result<(), String> {
    if *f == Field::PreNum {
        if let Some(n) = ov {
            match v.pre { None => { v.pre = Some(("alpha", Some(n as u64))); un.pre_label = true; } Some((l, _)) => v.pre = Some((l, Some(n as u64))) }
        }
        if let Some(n) = bump {
            match v.pre {
                Some((l, num)) => v.pre = Some((l, Some(add(num.unwrap_or(0), n)?))),
                None => { v.pre = Some(("alpha", Some(n as u64))); un.pre_label = true; }
            }
            reset_below(v, Level::PreNum);
        }
        return Ok(());
    }
    let slot: &mut Option<u64> = match f { Field::Epoch => &mut v.epoch, Field::Major => &mut v.major, Field::Minor => &mut v.minor, Field::Patch => &mut v.patch, Field::Post => &mut v.post, Field::Dev => &mut v.dev, Field::PreNum => unreachable!() };
    if let Some(n) = ov { *slot = Some(n as u64); }
    if let Some(n) = bump {
        *slot = Some(add(slot.unwrap_or(0), n)?);
        reset_below(v, level_of(f));
    }
    Ok(())
}

fn parse_index(spelling: &str, len: usize) -> Result<usize, String> {
    let idx: i64 = if let Some(t) = spelling.strip_prefix('~') {
        if t.is_empty() || !t.bytes().all(|b| b.is_ascii_digit()) { return Err("bad tilde index".into()); }
        let n: i64 = t.parse().map_err(|_| "bad tilde index")?;
        if n <= 0 { return Err("tilde index must be positive".into()); }
        -n
    } else {
        let body = spelling.strip_prefix('-').unwrap_or(spelling);
        if body.is_empty() || !body.bytes().all(|b| b.is_ascii_digit()) { return Err("bad index".into()); }
        spelling.parse().map_err(|_| "bad index")?
    };
    let r = if idx >= 0 { idx } else { len as i64 + idx };
    if r < 0 || r >= len as i64 { return Err(format!("index {spelling} out of range for length {len}")); }
    Ok(r as usize)
}

/// the component index a spelling denotes in a section of this schema, if it denotes one
pub fn resolve_index(schema: &RSchema, sec: &Section, spelling: &str) -> Option<usize> {
    let len = match sec { Section::Core => schema.core.len(), Section::ExtraCore => schema.extra_core.len(), Section::Build => schema.build.len() };
    parse_index(spelling, len).ok()
}

fn num(text: &str) -> Result<u32, String> {
    if text.is_empty() || !text.bytes().all(|b| b.is_ascii_digit()) { return Err(format!("non-numeric value {text:?} for a numeric component")); }
    text.parse::<u32>().map_err(|_| format!("value {text:?} out of range"))
}

fn section(st: &mut State, sec: &Section, ops: &[Op], un: &mut Unspecified) -> Result<(), String> {
    let len = match sec { Section::Core => st.schema.core.len(), Section::ExtraCore => st.schema.extra_core.len(), Section::Build => st.schema.build.len() };
    let mut ovs: Vec<(usize, String)> = vec![];
    let mut bumps: Vec<(usize, String)> = vec![];
    for op in ops {
        match op {
            Op::SecOverride(s, i, val) if s == sec => {
                let idx = parse_index(i, len)?;
                if val.is_empty() { return Err("empty value".into()); }
                if val.strip_prefix('-').map(|d| !d.is_empty() && d.bytes().all(|b| b.is_ascii_digit())).unwrap_or(false) { return Err("negative value".into()); }
                if ovs.iter().any(|(j, _)| *j == idx) { return Err("duplicate override index".into()); }
                ovs.push((idx, val.clone()));
            }
            Op::SecBump(s, i, val) if s == sec => {
                let idx = parse_index(i, len)?;
                let val = val.clone().unwrap_or_else(|| "1".to_string());
                if val.is_empty() { return Err("empty value".into()); }
                if val.strip_prefix('-').map(|d| !d.is_empty() && d.bytes().all(|b| b.is_ascii_digit())).unwrap_or(false) { return Err("negative value".into()); }
                if bumps.iter().any(|(j, _)| *j == idx) { return Err("duplicate bump index".into()); }
                bumps.push((idx, val));
            }
            _ => {}
        }
    }
    let mut idxs: Vec<usize> = ovs.iter().map(|x| x.0).chain(bumps.iter().map(|x| x.0)).collect();
    idxs.sort();
    idxs.dedup();
    for i in idxs {
        let ov = ovs.iter().find(|x| x.0 == i).map(|x| x.1.clone());
        let bump = bumps.iter().find(|x| x.0 == i).map(|x| x.1.clone());
        let comp = match sec { Section::Core => st.schema.core[i].clone(), Section::ExtraCore => st.schema.extra_core[i].clone(), Section::Build => st.schema.build[i].clone() };
        let newc = match comp {
            RComp::Var(v) => {
                let f = match v {
                    RVar::Major => Field::Major, RVar::Minor => Field::Minor, RVar::Patch => Field::Patch, RVar::Epoch => Field::Epoch,
                    RVar::Post => Field::Post, RVar::Dev => Field::Dev, RVar::PreRelease => Field::PreNum,
                    other => return Err(format!("component {other:?} cannot be overridden or bumped")),
                };
                let o = ov.as_deref().map(num).transpose()?;
                let b = bump.as_deref().map(num).transpose()?;
                field(&mut st.vars, &f, o, b, un)?;
                None
            }
            RComp::UInt(n) => {
                let o = ov.as_deref().map(num).transpose()?;
                let b = bump.as_deref().map(num).transpose()?;
                let base = o.map(|x| x as u64).unwrap_or(n);
                Some(RComp::UInt(match b { Some(b) => add(base, b)?, None => base }))
            }
            RComp::Str(s) => {
                let mut cur = s;
                if let Some(o) = ov { cur = o; }
                if let Some(b) = bump { cur = b; }
                Some(RComp::Str(cur))
            }
        };
        if let Some(c) = newc {
            match sec { Section::Core => st.schema.core[i] = c, Section::ExtraCore => st.schema.extra_core[i] = c, Section::Build => st.schema.build[i] = c }
        }
    }
    Ok(())
}

/// Apply a set of flag instances (order-independent) to a start state. `now` = pinned wall clock.
pub fn apply(start: &State, ops: &[Op], now: u64) -> Outcome {
    let mut un = Unspecified::default();
    match apply_inner(start, ops, now, &mut un) {
        Ok(s) => Outcome::Ok(s, un),
        Err(e) => Outcome::Rejected(e),
    }
}

fn apply_inner(start: &State, ops: &[Op], now: u64, un: &mut Unspecified) -> Result<State, String> {
    let mut st = start.clone();
    // single-valued flags may appear once
    for (i, a) in ops.iter().enumerate() {
        for b in &ops[i + 1..] {
            let same = match (a, b) {
                (Op::Override(f, _), Op::Override(g, _)) | (Op::Bump(f, _), Op::Bump(g, _)) => f == g,
                (Op::OverrideLabel(_), Op::OverrideLabel(_)) | (Op::BumpLabel(_), Op::BumpLabel(_)) | (Op::Distance(_), Op::Distance(_)) => true,
                _ => false,
            };
            if same { return Err("flag given twice".into()); }
        }
    }
    let has = |p: &dyn Fn(&Op) -> bool| ops.iter().any(|o| p(o));
    let (dirty, no_dirty, clean, nbc) = (has(&|o| *o == Op::Dirty), has(&|o| *o == Op::NoDirty), has(&|o| *o == Op::Clean), has(&|o| *o == Op::NoBumpContext));
    let distance = ops.iter().find_map(|o| if let Op::Distance(d) = o { Some(*d) } else { None });
    if dirty && no_dirty { return Err("--dirty with --no-dirty".into()); }
    if clean && (distance.is_some() || dirty || no_dirty) { return Err("--clean conflicts".into()); }
    if nbc && dirty { return Err("--no-bump-context with --dirty".into()); }
    if has(&|o| matches!(o, Op::OverrideLabel(_))) && has(&|o| matches!(o, Op::BumpLabel(_))) { return Err("label override with label bump".into()); }
    // a tag-version override replaces the whole version (epoch, core, pre-release, post, dev), absent parts become absent
    let tags: Vec<&str> = ops.iter().filter_map(|o| if let Op::TagVersion(t) = o { Some(*t) } else { None }).collect();
    if tags.len() > 1 { return Err("flag given twice".into()); }
    if let Some(t) = tags.first() {
        let (core, pre): ([u64; 3], Option<(&'static str, Option<u64>)>) = match *t { "9.8.7" => ([9, 8, 7], None), "4.5.6-rc.2" => ([4, 5, 6], Some(("rc", Some(2)))), other => return Err(format!("model does not know tag {other}")) };
        st.vars.epoch = None; st.vars.major = Some(core[0]); st.vars.minor = Some(core[1]); st.vars.patch = Some(core[2]); st.vars.pre = pre; st.vars.post = None; st.vars.dev = None;
    }
    // context overrides, before anything else
    if let Some(d) = distance { st.vars.distance = Some(d as u64); }
    if dirty { st.vars.dirty = Some(true); }
    if no_dirty { st.vars.dirty = Some(false); }
    if clean { st.vars.distance = None; st.vars.dirty = Some(false); }
    if nbc { st.vars.distance = Some(0); st.vars.dirty = Some(false); st.vars.bumped_branch = None; st.vars.bumped_commit_hash = None; st.vars.bumped_timestamp = None; }

    let ov = |f: Field| ops.iter().find_map(|o| if let Op::Override(g, n) = o { (*g == f).then_some(*n) } else { None });
    let bp = |f: Field| ops.iter().find_map(|o| if let Op::Bump(g, n) = o { (*g == f).then_some(*n) } else { None });
    for lv in LEVELS {
        match lv {
            Level::Epoch => field(&mut st.vars, &Field::Epoch, ov(Field::Epoch), bp(Field::Epoch), un)?,
            Level::Major => field(&mut st.vars, &Field::Major, ov(Field::Major), bp(Field::Major), un)?,
            Level::Minor => field(&mut st.vars, &Field::Minor, ov(Field::Minor), bp(Field::Minor), un)?,
            Level::Patch => field(&mut st.vars, &Field::Patch, ov(Field::Patch), bp(Field::Patch), un)?,
            Level::Core => section(&mut st, &Section::Core, ops, un)?,
            Level::PreLabel => {
                if let Some(l) = ops.iter().find_map(|o| if let Op::OverrideLabel(l) = o { Some(*l) } else { None }) {
                    let old = st.vars.pre.and_then(|p| p.1);
                    let n = ov(Field::PreNum).map(|n| n as u64).or(old).unwrap_or(0);
                    if ov(Field::PreNum).is_none() { un.pre_number = true; }
                    st.vars.pre = Some((l, Some(n)));
                }
                if let Some(l) = ops.iter().find_map(|o| if let Op::BumpLabel(l) = o { Some(*l) } else { None }) {
                    reset_below(&mut st.vars, Level::PreLabel);
                    st.vars.pre = Some((l, Some(0)));
                }
            }
            Level::PreNum => field(&mut st.vars, &Field::PreNum, ov(Field::PreNum), bp(Field::PreNum), un)?,
            Level::Post => field(&mut st.vars, &Field::Post, ov(Field::Post), bp(Field::Post), un)?,
            Level::Dev => field(&mut st.vars, &Field::Dev, ov(Field::Dev), bp(Field::Dev), un)?,
            Level::ExtraCore => section(&mut st, &Section::ExtraCore, ops, un)?,
            Level::Build => section(&mut st, &Section::Build, ops, un)?,
        }
    }
    if st.vars.dirty == Some(true) { st.vars.bumped_timestamp = Some(now); }
    if st.vars.epoch == Some(0) { st.vars.epoch = None; }
    Ok(st)
}

/// argv fragment for an op (index flags use the --flag=value spelling so that negative indices parse)
pub fn argv(op: &Op) -> Vec<String> {
    let fname = |f: &Field| match f { Field::Epoch => "epoch", Field::Major => "major", Field::Minor => "minor", Field::Patch => "patch", Field::PreNum => "pre-release-num", Field::Post => "post", Field::Dev => "dev" };
    let sname = |s: &Section| match s { Section::Core => "core", Section::ExtraCore => "extra-core", Section::Build => "build" };
    match op {
        Op::Override(f, n) => vec![format!("--{}", fname(f)), n.to_string()],
        Op::Bump(f, n) => if *n == 1 { vec![format!("--bump-{}", fname(f))] } else { vec![format!("--bump-{}={}", fname(f), n)] },
        Op::OverrideLabel(l) => vec!["--pre-release-label".into(), l.to_string()],
        Op::BumpLabel(l) => vec!["--bump-pre-release-label".into(), l.to_string()],
        Op::SecOverride(s, i, v) => vec![format!("--{}={}={}", sname(s), i, v)],
        Op::SecBump(s, i, v) => vec![match v { Some(v) => format!("--bump-{}={}={}", sname(s), i, v), None => format!("--bump-{}={}", sname(s), i) }],
        Op::Distance(d) => vec!["--distance".into(), d.to_string()],
        Op::Dirty => vec!["--dirty".into()],
        Op::NoDirty => vec!["--no-dirty".into()],
        Op::Clean => vec!["--clean".into()],
        Op::NoBumpContext => vec!["--no-bump-context".into()],
        Op::TagVersion(t) => vec!["--tag-version".into(), t.to_string()],
    }
}
