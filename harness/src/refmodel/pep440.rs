//! R-PEP: PEP 440 Appendix-B grammar as a regex AST run by a tiny backtracking matcher (ASCII
//! case-insensitive, leftmost/greedy priority like Python's `re`), the normal form with
//! arbitrary-precision numbers, and two comparators (key_c11 = the key stated in property C11,
//! key_std = the standard PEP 440 sort key). No zerv code.
use std::cmp::Ordering;

pub enum Re {
    /// one char out of the set (ASCII case-insensitive)
    Set(&'static str),
    /// literal (ASCII case-insensitive)
    Lit(&'static str),
    Seq(Vec<Re>),
    /// ordered alternation
    Alt(Vec<Re>),
    Opt(Box<Re>),
    Star(Box<Re>),
    Plus(Box<Re>),
    Cap(&'static str, Box<Re>),
    /// one or more chars out of the set, maximal munch, never given back (iterative: no recursion per character)
    Run(&'static str),
    /// zero or more repetitions of a capture-free group, each repetition the group's first match, never given back
    StarP(Box<Re>),
}
use Re::*;

fn opt(r: Re) -> Re { Opt(Box::new(r)) }
fn cap(n: &'static str, r: Re) -> Re { Cap(n, Box::new(r)) }

const DIGITS: &str = "0123456789";
const SEP: &str = "-_.";
const ALNUM: &str = "abcdefghijklmnopqrstuvwxyz0123456789";

/// PEP 440, Appendix B (VERSION_PATTERN), without the surrounding `\s*`.
pub fn appendix_b() -> Re { grammar(false) }

/// The same grammar with the digit / alphanumeric runs and the two repeated groups (`(\.[0-9]+)*` of the release, `([-_.][a-z0-9]+)*` of
/// the local part) as possessive, iterative nodes - used for long inputs, where the recursive matcher would need a stack frame per
/// character. Equivalence: a digit given back by a run, or a `.N` group given back by the release, would have to be matched by what
/// follows it in the pattern - a separator, a letter, `!`, `+` or the end - which no digit and no `.digit` can; the local part is
/// last and must reach the end of the string. C09 re-validates the equivalence on every short string it enumerates.
pub fn appendix_b_possessive() -> Re { grammar(true) }

fn grammar(possessive: bool) -> Re {
    let plus = |r: Re| -> Re { match (&r, possessive) { (Set(x), true) => Run(x), _ => Plus(Box::new(r)) } };
    let star = |r: Re| -> Re { if possessive { StarP(Box::new(r)) } else { Star(Box::new(r)) } };
    Seq(vec![
        opt(Lit("v")),
        opt(Seq(vec![cap("epoch", plus(Set(DIGITS))), Lit("!")])),
        cap("release", Seq(vec![plus(Set(DIGITS)), star(Seq(vec![Lit("."), plus(Set(DIGITS))]))])),
        opt(cap("pre", Seq(vec![
            opt(Set(SEP)),
            // order as in the PEP: (a|b|c|rc|alpha|beta|pre|preview)
            cap("pre_l", Alt(vec![Lit("a"), Lit("b"), Lit("c"), Lit("rc"), Lit("alpha"), Lit("beta"), Lit("pre"), Lit("preview")])),
            opt(Set(SEP)),
            opt(cap("pre_n", plus(Set(DIGITS)))),
        ]))),
        opt(cap("post", Alt(vec![
            Seq(vec![Lit("-"), cap("post_n1", plus(Set(DIGITS)))]),
            Seq(vec![opt(Set(SEP)), cap("post_l", Alt(vec![Lit("post"), Lit("rev"), Lit("r")])), opt(Set(SEP)), opt(cap("post_n2", plus(Set(DIGITS))))]),
        ]))),
        opt(cap("dev", Seq(vec![opt(Set(SEP)), cap("dev_l", Lit("dev")), opt(Set(SEP)), opt(cap("dev_n", plus(Set(DIGITS))))]))),
        opt(Seq(vec![Lit("+"), cap("local", Seq(vec![plus(Set(ALNUM)), star(Seq(vec![Set(SEP), plus(Set(ALNUM))]))]))])),
    ])
}

type Caps = Vec<(&'static str, usize, usize)>;

fn m(re: &Re, s: &[char], pos: usize, caps: &mut Caps, k: &mut dyn FnMut(usize, &mut Caps) -> bool) -> bool {
    match re {
        Set(set) => {
            if pos < s.len() && s[pos].is_ascii() && set.contains(s[pos].to_ascii_lowercase()) {
                k(pos + 1, caps)
            } else {
                false
            }
        }
        Lit(l) => {
            let lc: Vec<char> = l.chars().collect();
            if pos + lc.len() <= s.len() && lc.iter().enumerate().all(|(i, c)| s[pos + i].is_ascii() && s[pos + i].to_ascii_lowercase() == *c) {
                k(pos + lc.len(), caps)
            } else {
                false
            }
        }
        Seq(v) => seq(v, s, pos, caps, k),
        Alt(v) => {
            for a in v {
                if m(a, s, pos, caps, k) {
                    return true;
                }
            }
            false
        }
        Opt(r) => m(r, s, pos, caps, k) || k(pos, caps),
        Star(r) => {
            // greedy: one more iteration first (must consume), then stop
            let mut more = |p: usize, c: &mut Caps| -> bool { p > pos && m(re, s, p, c, k) };
            if m(r, s, pos, caps, &mut more) {
                return true;
            }
            k(pos, caps)
        }
        Plus(r) => {
            let st = Star(Box::new(clone_ref(r)));
            let mut rest = |p: usize, c: &mut Caps| -> bool { m(&st, s, p, c, k) };
            m(r, s, pos, caps, &mut rest)
        }
        Run(set) => {
            let mut p = pos;
            while p < s.len() && s[p].is_ascii() && set.contains(s[p].to_ascii_lowercase()) { p += 1; }
            if p == pos { false } else { k(p, caps) }
        }
        StarP(r) => {
            let mut p = pos;
            loop {
                let mut end: Option<usize> = None;
                let mut scratch: Caps = vec![];
                let mut first = |e: usize, _c: &mut Caps| -> bool { end = Some(e); true };
                if m(r, s, p, &mut scratch, &mut first) && end.unwrap() > p { p = end.unwrap(); } else { break; }
            }
            k(p, caps)
        }
        Cap(name, r) => {
            let n = *name;
            let mut done = |p: usize, c: &mut Caps| -> bool {
                c.push((n, pos, p));
                if k(p, c) {
                    return true;
                }
                c.pop();
                false
            };
            m(r, s, pos, caps, &mut done)
        }
    }
}

fn clone_ref(r: &Re) -> Re {
    match r {
        Set(x) => Set(x),
        Lit(x) => Lit(x),
        Seq(v) => Seq(v.iter().map(clone_ref).collect()),
        Alt(v) => Alt(v.iter().map(clone_ref).collect()),
        Opt(x) => Opt(Box::new(clone_ref(x))),
        Star(x) => Star(Box::new(clone_ref(x))),
        Plus(x) => Plus(Box::new(clone_ref(x))),
        Cap(n, x) => Cap(n, Box::new(clone_ref(x))),
        Run(x) => Run(x),
        StarP(x) => StarP(Box::new(clone_ref(x))),
    }
}

fn seq(v: &[Re], s: &[char], pos: usize, caps: &mut Caps, k: &mut dyn FnMut(usize, &mut Caps) -> bool) -> bool {
    match v.split_first() {
        None => k(pos, caps),
        Some((first, rest)) => {
            let mut cont = |p: usize, c: &mut Caps| -> bool { seq(rest, s, p, c, k) };
            m(first, s, pos, caps, &mut cont)
        }
    }
}

#[derive(Clone, Debug, PartialEq, Eq, Hash)]
pub struct Parsed {
    /// decimal strings without leading zeros
    pub epoch: String,
    pub release: Vec<String>,
    /// ("a"|"b"|"rc", number)
    pub pre: Option<(&'static str, String)>,
    pub post: Option<String>,
    pub dev: Option<String>,
    /// lower-cased parts; all-digit parts without leading zeros
    pub local: Option<Vec<String>>,
}

fn strip(d: &str) -> String {
    let t = d.trim_start_matches('0');
    if t.is_empty() { "0".into() } else { t.into() }
}

thread_local! { static GRAMMAR: Re = appendix_b(); static GRAMMAR_P: Re = appendix_b_possessive(); }

/// inputs longer than this go through the possessive (iterative) form of the grammar
pub const LONG_INPUT: usize = 2048;

/// Full-string match of Appendix B; None if the string is not a PEP 440 version.
pub fn parse(x: &str) -> Option<Parsed> { parse_with(x, x.len() > LONG_INPUT) }

pub fn parse_with(x: &str, possessive: bool) -> Option<Parsed> {
    let chars: Vec<char> = x.chars().collect();
    let mut caps: Caps = vec![];
    let mut result: Option<Caps> = None;
    let n = chars.len();
    (if possessive { &GRAMMAR_P } else { &GRAMMAR }).with(|g| {
        let mut k = |p: usize, c: &mut Caps| -> bool {
            if p == n {
                result = Some(c.clone());
                true
            } else {
                false
            }
        };
        m(g, &chars, 0, &mut caps, &mut k)
    });
    let caps = result?;
    let get = |name: &str| -> Option<String> {
        caps.iter().rev().find(|c| c.0 == name).map(|c| chars[c.1..c.2].iter().collect())
    };
    let pre = get("pre_l").map(|l| {
        let lab = match l.to_ascii_lowercase().as_str() {
            "a" | "alpha" => "a",
            "b" | "beta" => "b",
            _ => "rc",
        };
        (lab, get("pre_n").map(|n| strip(&n)).unwrap_or_else(|| "0".into()))
    });
    let post = get("post").map(|_| get("post_n1").or_else(|| get("post_n2")).map(|n| strip(&n)).unwrap_or_else(|| "0".into()));
    let dev = get("dev").map(|_| get("dev_n").map(|n| strip(&n)).unwrap_or_else(|| "0".into()));
    let local = get("local").map(|l| {
        l.to_ascii_lowercase()
            .split(['-', '_', '.'])
            .map(|p| if p.bytes().all(|b| b.is_ascii_digit()) { strip(p) } else { p.to_string() })
            .collect()
    });
    Some(Parsed {
        epoch: get("epoch").map(|e| strip(&e)).unwrap_or_else(|| "0".into()),
        release: get("release")?.split('.').map(strip).collect(),
        pre,
        post,
        dev,
        local,
    })
}

impl Parsed {
    /// PEP 440 normal form.
    pub fn normal(&self) -> String {
        let mut s = String::new();
        if self.epoch != "0" {
            s.push_str(&self.epoch);
            s.push('!');
        }
        s.push_str(&self.release.join("."));
        if let Some((l, n)) = &self.pre {
            s.push_str(l);
            s.push_str(n);
        }
        if let Some(n) = &self.post {
            s.push_str(".post");
            s.push_str(n);
        }
        if let Some(n) = &self.dev {
            s.push_str(".dev");
            s.push_str(n);
        }
        if let Some(l) = &self.local {
            s.push('+');
            s.push_str(&l.join("."));
        }
        s
    }
    /// every number in the version (for range predicates)
    pub fn numbers(&self) -> Vec<&str> {
        let mut v: Vec<&str> = vec![&self.epoch];
        v.extend(self.release.iter().map(|s| s.as_str()));
        if let Some((_, n)) = &self.pre { v.push(n); }
        if let Some(n) = &self.post { v.push(n); }
        if let Some(n) = &self.dev { v.push(n); }
        if let Some(l) = &self.local {
            v.extend(l.iter().filter(|p| p.bytes().all(|b| b.is_ascii_digit())).map(|s| s.as_str()));
        }
        v
    }
}

pub fn cmp_dec(a: &str, b: &str) -> Ordering {
    a.len().cmp(&b.len()).then_with(|| a.cmp(b))
}

fn cmp_release_padded(a: &[String], b: &[String]) -> Ordering {
    let n = a.len().max(b.len());
    for i in 0..n {
        let x = a.get(i).map(|s| s.as_str()).unwrap_or("0");
        let y = b.get(i).map(|s| s.as_str()).unwrap_or("0");
        let o = cmp_dec(x, y);
        if o != Ordering::Equal {
            return o;
        }
    }
    Ordering::Equal
}

fn phase(l: &str) -> u8 {
    match l { "a" => 0, "b" => 1, _ => 2 }
}

fn cmp_local(a: &Option<Vec<String>>, b: &Option<Vec<String>>) -> Ordering {
    match (a, b) {
        (None, None) => Ordering::Equal,
        (None, Some(_)) => Ordering::Less,
        (Some(_), None) => Ordering::Greater,
        (Some(x), Some(y)) => {
            for (p, q) in x.iter().zip(y.iter()) {
                let pn = p.bytes().all(|c| c.is_ascii_digit());
                let qn = q.bytes().all(|c| c.is_ascii_digit());
                let o = match (pn, qn) {
                    (true, true) => cmp_dec(p, q),
                    (true, false) => Ordering::Less,
                    (false, true) => Ordering::Greater,
                    (false, false) => p.as_bytes().cmp(q.as_bytes()),
                };
                if o != Ordering::Equal {
                    return o;
                }
            }
            x.len().cmp(&y.len())
        }
    }
}

/// The order stated in property C11: lexicographic on epoch, release (zero padded), pre-release
/// phase (a < b < rc < none) and number, post (none lowest), dev (none highest), local.
pub fn cmp_c11(a: &Parsed, b: &Parsed) -> Ordering {
    cmp_dec(&a.epoch, &b.epoch)
        .then_with(|| cmp_release_padded(&a.release, &b.release))
        .then_with(|| match (&a.pre, &b.pre) {
            (None, None) => Ordering::Equal,
            (None, Some(_)) => Ordering::Greater,
            (Some(_), None) => Ordering::Less,
            (Some((l1, n1)), Some((l2, n2))) => phase(l1).cmp(&phase(l2)).then_with(|| cmp_dec(n1, n2)),
        })
        .then_with(|| match (&a.post, &b.post) {
            (None, None) => Ordering::Equal,
            (None, Some(_)) => Ordering::Less,
            (Some(_), None) => Ordering::Greater,
            (Some(x), Some(y)) => cmp_dec(x, y),
        })
        .then_with(|| match (&a.dev, &b.dev) {
            (None, None) => Ordering::Equal,
            (None, Some(_)) => Ordering::Greater,
            (Some(_), None) => Ordering::Less,
            (Some(x), Some(y)) => cmp_dec(x, y),
        })
        .then_with(|| cmp_local(&a.local, &b.local))
}

/// Standard PEP 440 ordering (packaging's _cmpkey): release with trailing zeros stripped;
/// a version with dev but neither pre nor post sorts before every pre-release of that release.
pub fn cmp_std(a: &Parsed, b: &Parsed) -> Ordering {
    fn pre_key(p: &Parsed) -> (i8, u8, &str) {
        // (-1: -inf, 0: value, 1: +inf)
        match (&p.pre, &p.post, &p.dev) {
            (None, None, Some(_)) => (-1, 0, "0"),
            (None, _, _) => (1, 0, "0"),
            (Some((l, n)), _, _) => (0, phase(l), n.as_str()),
        }
    }
    let (ka, kb) = (pre_key(a), pre_key(b));
    cmp_dec(&a.epoch, &b.epoch)
        .then_with(|| cmp_release_padded(&a.release, &b.release))
        .then_with(|| ka.0.cmp(&kb.0).then_with(|| ka.1.cmp(&kb.1)).then_with(|| cmp_dec(ka.2, kb.2)))
        .then_with(|| match (&a.post, &b.post) {
            (None, None) => Ordering::Equal,
            (None, Some(_)) => Ordering::Less,
            (Some(_), None) => Ordering::Greater,
            (Some(x), Some(y)) => cmp_dec(x, y),
        })
        .then_with(|| match (&a.dev, &b.dev) {
            (None, None) => Ordering::Equal,
            (None, Some(_)) => Ordering::Greater,
            (Some(_), None) => Ordering::Less,
            (Some(x), Some(y)) => cmp_dec(x, y),
        })
        .then_with(|| cmp_local(&a.local, &b.local))
}

pub fn fits_u32(d: &str) -> bool {
    cmp_dec(d, "4294967295") != Ordering::Greater
}
