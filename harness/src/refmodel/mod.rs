//! Reference models. None of these may use zerv code.
pub mod san;
pub mod semver;
pub mod ren;
pub mod sch;
pub mod flow;
pub mod bump;
pub mod cal;
pub mod pep440;

/// Well-formedness of an emitted version string (property C01): Some(reason) if malformed.
pub fn malformed(fmt: &str, out: &str) -> Option<String> {
    if !out.is_ascii() {
        return Some("non-ASCII character".into());
    }
    if out.contains('\n') || out.contains('\r') {
        return Some("more than one line".into());
    }
    match fmt {
        "semver" => {
            if out.starts_with('v') || !semver::accepts(out) {
                return Some("not SemVer 2.0.0".into());
            }
        }
        "pep440" => match pep440::parse(out) {
            None => return Some("not PEP 440".into()),
            Some(p) => {
                if p.normal() != out {
                    return Some(format!("not in PEP 440 normal form (normal form is {:?})", p.normal()));
                }
            }
        },
        _ => {}
    }
    None
}
