//! Reference models. None of these may use zerv code.
pub mod san;
pub mod semver;
pub mod ren;
pub mod cal;
pub mod pep440;
