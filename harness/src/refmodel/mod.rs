//! Reference models. None of these may use zerv code.
pub mod san;
