//! R-SAN: the sanitiser contract of C16 (DESIGN A.1).

fn strip_zeros(r: &str) -> &str {
    let t = r.trim_start_matches('0');
    if t.is_empty() { "0" } else { t }
}

/// Maximal runs of ASCII letters/digits, in order, normalised.
pub fn runs(x: &str, lower: bool, keep_zeros: bool) -> Vec<String> {
    let mut out = vec![];
    let mut cur = String::new();
    for ch in x.chars() {
        if ch.is_ascii_alphanumeric() {
            cur.push(if lower { ch.to_ascii_lowercase() } else { ch });
        } else if !cur.is_empty() {
            out.push(std::mem::take(&mut cur));
        }
    }
    if !cur.is_empty() {
        out.push(cur);
    }
    if !keep_zeros {
        for r in out.iter_mut() {
            if r.bytes().all(|b| b.is_ascii_digit()) {
                *r = strip_zeros(r).to_string();
            }
        }
    }
    out
}

pub fn san(x: &str, sep: &str, lower: bool, keep_zeros: bool) -> String {
    runs(x, lower, keep_zeros).join(sep)
}

/// Integer sanitiser: digits of a purely numeric input without leading zeros, else "".
pub fn uint(x: &str) -> String {
    if !x.is_empty() && x.bytes().all(|b| b.is_ascii_digit()) {
        strip_zeros(x).to_string()
    } else {
        String::new()
    }
}

/// Invariants I1-I4 on an output for a given single-char ASCII separator. Returns the name of the
/// first violated invariant.
pub fn invariants(out: &str, sep: char, keep_zeros: bool, max_len: Option<usize>) -> Option<&'static str> {
    if !out.chars().all(|c| c.is_ascii_alphanumeric() || c == sep) {
        return Some("I1_alphabet");
    }
    if out.starts_with(sep) || out.ends_with(sep) {
        return Some("I2_edge_separator");
    }
    let mut prev_sep = false;
    for c in out.chars() {
        if c == sep && prev_sep {
            return Some("I2_doubled_separator");
        }
        prev_sep = c == sep;
    }
    if !keep_zeros {
        for seg in out.split(sep) {
            if seg.len() > 1 && seg.starts_with('0') && seg.bytes().all(|b| b.is_ascii_digit()) {
                return Some("I3_leading_zero");
            }
        }
    }
    if let Some(m) = max_len {
        if out.chars().count() > m {
            return Some("I4_max_length");
        }
    }
    None
}

/// I7: with max_length, `out` must be a segment-wise prefix of the untruncated reference:
/// every segment but the last equals the reference segment; the last is a prefix of the reference
/// segment, possibly with zeros stripped if that prefix is all digits.
pub fn is_truncation_of(out: &str, full: &str, sep: char, keep_zeros: bool) -> bool {
    if out.is_empty() {
        return true;
    }
    let o: Vec<&str> = out.split(sep).collect();
    let f: Vec<&str> = full.split(sep).collect();
    if o.len() > f.len() {
        return false;
    }
    for i in 0..o.len() - 1 {
        if o[i] != f[i] {
            return false;
        }
    }
    let last = o[o.len() - 1];
    let reference = f[o.len() - 1];
    if reference.starts_with(last) {
        return true;
    }
    if !keep_zeros {
        // some all-digit prefix p of the reference with strip_zeros(p) == last
        for n in 1..=reference.len() {
            if !reference.is_char_boundary(n) {
                continue;
            }
            let p = &reference[..n];
            if p.bytes().all(|b| b.is_ascii_digit()) && strip_zeros(p) == last {
                return true;
            }
        }
    }
    false
}
