//! R-REN: where every schema component goes in SemVer / PEP 440 output (property C06, DESIGN A.5).
//! Own data types; no zerv code. Uses R-SAN and R-CAL.
use serde_json::Value;

use super::{cal, san};

#[derive(Clone, Debug, PartialEq, Eq, Hash)]
pub enum RVar {
    Major, Minor, Patch, Epoch, PreRelease, Post, Dev, Distance, Dirty,
    BumpedBranch, BumpedCommitHash, BumpedCommitHashShort, BumpedTimestamp,
    LastBranch, LastCommitHash, LastCommitHashShort, LastTimestamp,
    Custom(String), Ts(String),
}

#[derive(Clone, Debug, PartialEq, Eq, Hash)]
pub enum RComp {
    Str(String),
    UInt(u64),
    Var(RVar),
}

#[derive(Clone, Debug, Default, PartialEq)]
pub struct RVars {
    pub major: Option<u64>,
    pub minor: Option<u64>,
    pub patch: Option<u64>,
    pub epoch: Option<u64>,
    /// ("alpha"|"beta"|"rc", number)
    pub pre: Option<(&'static str, Option<u64>)>,
    pub post: Option<u64>,
    pub dev: Option<u64>,
    pub distance: Option<u64>,
    pub dirty: Option<bool>,
    pub bumped_branch: Option<String>,
    pub bumped_commit_hash: Option<String>,
    pub bumped_timestamp: Option<u64>,
    pub last_branch: Option<String>,
    pub last_commit_hash: Option<String>,
    pub last_timestamp: Option<u64>,
    pub custom: Value,
}

#[derive(Clone, Debug, Default, PartialEq)]
pub struct RSchema {
    pub core: Vec<RComp>,
    pub extra_core: Vec<RComp>,
    pub build: Vec<RComp>,
}

fn short(h: &Option<String>) -> Option<String> {
    h.as_ref().map(|h| h.chars().take(8).collect())
}

fn custom_leaf(v: &Value, path: &str) -> Option<String> {
    let mut cur = v;
    for part in path.split('.') {
        cur = cur.get(part)?;
    }
    match cur {
        Value::String(s) => Some(s.clone()),
        Value::Number(n) => Some(n.to_string()),
        Value::Bool(b) => Some(b.to_string()),
        _ => None,
    }
}

/// raw (unsanitised) text of a component, None = unset
pub fn raw(c: &RComp, v: &RVars) -> Option<String> {
    match c {
        RComp::Str(s) => Some(s.clone()),
        RComp::UInt(n) => Some(n.to_string()),
        RComp::Var(var) => match var {
            RVar::Major => v.major.map(|n| n.to_string()),
            RVar::Minor => v.minor.map(|n| n.to_string()),
            RVar::Patch => v.patch.map(|n| n.to_string()),
            RVar::Epoch => v.epoch.map(|n| n.to_string()),
            RVar::PreRelease => v.pre.and_then(|p| p.1).map(|n| n.to_string()),
            RVar::Post => v.post.map(|n| n.to_string()),
            RVar::Dev => v.dev.map(|n| n.to_string()),
            RVar::Distance => v.distance.map(|n| n.to_string()),
            RVar::Dirty => v.dirty.map(|b| b.to_string()),
            RVar::BumpedBranch => v.bumped_branch.clone(),
            RVar::BumpedCommitHash => v.bumped_commit_hash.clone(),
            RVar::BumpedCommitHashShort => short(&v.bumped_commit_hash),
            RVar::BumpedTimestamp => v.bumped_timestamp.map(|n| n.to_string()),
            RVar::LastBranch => v.last_branch.clone(),
            RVar::LastCommitHash => v.last_commit_hash.clone(),
            RVar::LastCommitHashShort => short(&v.last_commit_hash),
            RVar::LastTimestamp => v.last_timestamp.map(|n| n.to_string()),
            RVar::Custom(k) => custom_leaf(&v.custom, k),
            RVar::Ts(p) => {
                let t = v.bumped_timestamp.or(v.last_timestamp)?;
                if cal::PATTERNS.contains(&p.as_str()) { Some(cal::field(p, t)) } else { None }
            }
        },
    }
}

fn is_int(s: &str) -> bool {
    !s.is_empty() && s.bytes().all(|b| b.is_ascii_digit())
}

/// identifiers contributed by a plain (non-secondary) component under the string sanitiser
fn ids(c: &RComp, v: &RVars, lower: bool) -> Vec<String> {
    match raw(c, v) {
        None => vec![],
        Some(t) => san::runs(&t, lower, false),
    }
}

/// value under the integer sanitiser: Some(decimal) if the raw text is purely numeric
fn int_val(c: &RComp, v: &RVars) -> Option<String> {
    let t = raw(c, v)?;
    let u = san::uint(t.trim());
    if is_int(&u) { Some(u) } else { None }
}

fn is_secondary(c: &RComp) -> bool {
    matches!(c, RComp::Var(RVar::Epoch | RVar::PreRelease | RVar::Post | RVar::Dev))
}

/// Some(decimal string) exceeds this width => the case is outside what the model specifies
pub fn fits(d: &str, max: &str) -> bool {
    d.len() < max.len() || (d.len() == max.len() && d <= max)
}

pub fn semver(s: &RSchema, v: &RVars) -> String {
    let mut core_nums: Vec<String> = vec![];
    let mut pre: Vec<String> = vec![];
    for c in &s.core {
        if core_nums.len() < 3 {
            if let Some(n) = int_val(c, v) {
                if fits(&n, "18446744073709551615") {
                    core_nums.push(n);
                    continue;
                }
            }
        }
        pre.extend(ids(c, v, false));
    }
    while core_nums.len() < 3 {
        core_nums.push("0".into());
    }
    for c in &s.extra_core {
        if is_secondary(c) {
            match c {
                RComp::Var(RVar::Epoch) => if let Some(n) = v.epoch { pre.push("epoch".into()); pre.push(n.to_string()); },
                RComp::Var(RVar::Post) => if let Some(n) = v.post { pre.push("post".into()); pre.push(n.to_string()); },
                RComp::Var(RVar::Dev) => if let Some(n) = v.dev { pre.push("dev".into()); pre.push(n.to_string()); },
                _ => if let Some((l, n)) = v.pre { pre.push(l.to_string()); if let Some(n) = n { pre.push(n.to_string()); } },
            }
        } else {
            pre.extend(ids(c, v, false));
        }
    }
    let mut build: Vec<String> = vec![];
    for c in &s.build {
        build.extend(ids(c, v, false));
    }
    let mut out = core_nums.join(".");
    if !pre.is_empty() { out.push('-'); out.push_str(&pre.join(".")); }
    if !build.is_empty() { out.push('+'); out.push_str(&build.join(".")); }
    out
}

pub fn pep440(s: &RSchema, v: &RVars) -> String {
    const U32: &str = "4294967295";
    let mut release: Vec<String> = vec![];
    let mut local: Vec<String> = vec![];
    for c in &s.core {
        if let Some(n) = int_val(c, v) {
            if fits(&n, U32) { release.push(n); continue; }
        }
        local.extend(ids(c, v, true));
    }
    if release.is_empty() { release.push("0".into()); }
    let (mut epoch, mut pre, mut post, mut dev) = (None, None, None, None);
    for c in &s.extra_core {
        match c {
            RComp::Var(RVar::Epoch) => if let Some(n) = v.epoch { epoch = Some(n); },
            RComp::Var(RVar::PreRelease) => if let Some((l, n)) = v.pre { pre = Some((l, n.unwrap_or(0))); },
            RComp::Var(RVar::Post) => if let Some(n) = v.post { post = Some(n); },
            RComp::Var(RVar::Dev) => if let Some(n) = v.dev { dev = Some(n); },
            _ => local.extend(ids(c, v, true)),
        }
    }
    for c in &s.build { local.extend(ids(c, v, true)); }
    let mut out = String::new();
    if let Some(e) = epoch { if e != 0 { out.push_str(&format!("{e}!")); } }
    out.push_str(&release.join("."));
    if let Some((l, n)) = pre { out.push_str(match l { "alpha" => "a", "beta" => "b", _ => "rc" }); out.push_str(&n.to_string()); }
    if let Some(n) = post { out.push_str(&format!(".post{n}")); }
    if let Some(n) = dev { out.push_str(&format!(".dev{n}")); }
    if !local.is_empty() { out.push('+'); out.push_str(&local.join(".")); }
    out
}

/// Tier of the smart presets: which extra_core list and whether build context is present.
/// family: "standard" | "calver"; variant: "" (smart context) | "no-context" | "context"
pub fn smart_tier(v: &RVars, variant: &str) -> (Vec<RComp>, bool) {
    use RComp::Var as V;
    let dirty = v.dirty.unwrap_or(false);
    let ahead = v.distance.unwrap_or(0) > 0;
    let extra = if dirty {
        vec![V(RVar::Epoch), V(RVar::PreRelease), V(RVar::Post), V(RVar::Dev)]
    } else if ahead || (v.pre.is_some() && v.post.is_some()) {
        vec![V(RVar::Epoch), V(RVar::PreRelease), V(RVar::Post)]
    } else if v.pre.is_some() {
        vec![V(RVar::Epoch), V(RVar::PreRelease)]
    } else {
        vec![V(RVar::Epoch)]
    };
    let ctx = match variant { "context" => true, "no-context" => false, _ => dirty || ahead };
    (extra, ctx)
}
