//! R-SV: SemVer 2.0.0 recogniser (explicit DFA, ASCII only, optional leading `v`) and precedence
//! comparator on arbitrary-precision decimal strings (DESIGN A.2). No zerv code.
use std::cmp::Ordering;

#[derive(Clone, Copy, PartialEq, Eq, Debug, Hash)]
pub enum St {
    Start,
    /// expecting the first digit of core number k
    NumStart(u8),
    NumZero(u8),
    NumDigits(u8),
    PreStart,
    PreZero,
    PreLeadZeroDigits,
    PreNum,
    PreAlnum,
    BuildStart,
    BuildId,
}

#[inline]
fn is_idch(c: char) -> bool {
    c.is_ascii_alphanumeric() || c == '-'
}

pub fn step(s: St, c: char) -> Option<St> {
    use St::*;
    Some(match s {
        Start => match c {
            'v' => NumStart(0),
            '0' => NumZero(0),
            '1'..='9' => NumDigits(0),
            _ => return None,
        },
        NumStart(k) => match c {
            '0' => NumZero(k),
            '1'..='9' => NumDigits(k),
            _ => return None,
        },
        NumZero(k) | NumDigits(k) => match c {
            '0'..='9' if matches!(s, NumDigits(_)) => NumDigits(k),
            '.' if k < 2 => NumStart(k + 1),
            '-' if k == 2 => PreStart,
            '+' if k == 2 => BuildStart,
            _ => return None,
        },
        PreStart => match c {
            '0' => PreZero,
            '1'..='9' => PreNum,
            c if is_idch(c) => PreAlnum,
            _ => return None,
        },
        PreZero | PreNum | PreAlnum | PreLeadZeroDigits => match c {
            '0'..='9' => match s {
                PreZero | PreLeadZeroDigits => PreLeadZeroDigits,
                PreNum => PreNum,
                _ => PreAlnum,
            },
            c if is_idch(c) => PreAlnum,
            '.' if s != PreLeadZeroDigits => PreStart,
            '+' if s != PreLeadZeroDigits => BuildStart,
            _ => return None,
        },
        BuildStart => match c {
            c if is_idch(c) => BuildId,
            _ => return None,
        },
        BuildId => match c {
            c if is_idch(c) => BuildId,
            '.' => BuildStart,
            _ => return None,
        },
    })
}

pub fn accepting(s: St) -> bool {
    use St::*;
    matches!(s, NumZero(2) | NumDigits(2) | PreZero | PreNum | PreAlnum | BuildId)
}

pub fn accepts(x: &str) -> bool {
    let mut s = St::Start;
    for c in x.chars() {
        match step(s, c) {
            Some(n) => s = n,
            None => return false,
        }
    }
    accepting(s)
}

#[derive(Clone, Debug, PartialEq, Eq)]
pub struct Parsed {
    pub core: [String; 3],
    pub pre: Vec<String>,
    pub build: Vec<String>,
}

/// Split an accepted string into its fields (decimal strings kept as text).
pub fn parse(x: &str) -> Option<Parsed> {
    if !accepts(x) {
        return None;
    }
    let x = x.strip_prefix('v').unwrap_or(x);
    let (rest, build) = match x.split_once('+') {
        Some((a, b)) => (a, b.split('.').map(String::from).collect()),
        None => (x, vec![]),
    };
    let (core, pre) = match rest.split_once('-') {
        Some((a, b)) => (a, b.split('.').map(String::from).collect()),
        None => (rest, vec![]),
    };
    let mut it = core.split('.');
    Some(Parsed {
        core: [it.next()?.into(), it.next()?.into(), it.next()?.into()],
        pre,
        build,
    })
}

pub fn is_numeric(id: &str) -> bool {
    !id.is_empty() && id.bytes().all(|b| b.is_ascii_digit())
}

pub fn cmp_dec(a: &str, b: &str) -> Ordering {
    a.len().cmp(&b.len()).then_with(|| a.cmp(b))
}

/// SemVer 2.0.0 §11 precedence.
pub fn cmp(a: &Parsed, b: &Parsed) -> Ordering {
    for i in 0..3 {
        let o = cmp_dec(&a.core[i], &b.core[i]);
        if o != Ordering::Equal {
            return o;
        }
    }
    match (a.pre.is_empty(), b.pre.is_empty()) {
        (true, true) => return Ordering::Equal,
        (true, false) => return Ordering::Greater,
        (false, true) => return Ordering::Less,
        _ => {}
    }
    for (x, y) in a.pre.iter().zip(b.pre.iter()) {
        let o = match (is_numeric(x), is_numeric(y)) {
            (true, true) => cmp_dec(x, y),
            (true, false) => Ordering::Less,
            (false, true) => Ordering::Greater,
            (false, false) => x.as_bytes().cmp(y.as_bytes()),
        };
        if o != Ordering::Equal {
            return o;
        }
    }
    a.pre.len().cmp(&b.pre.len())
}

/// does a decimal string fit u64?
pub fn fits_u64(d: &str) -> bool {
    cmp_dec(d, "18446744073709551615") != Ordering::Greater
}
pub fn fits_u32(d: &str) -> bool {
    cmp_dec(d, "4294967295") != Ordering::Greater
}
