//! R-SCH: schema placement rules (property C12, DESIGN A.9) and a minimal RON writer for schemas
//! (valid or not) so that invalid schemas can be fed to zerv as text. No zerv code.
use super::cal;
use super::ren::{RComp, RSchema, RVar};

#[derive(Debug, Clone, PartialEq)]
pub enum Verdict {
    Valid,
    Invalid(&'static str),
    /// the statement does not speak about it (ts("%..."))
    Unspecified,
}

pub fn judge(s: &RSchema) -> Verdict {
    if s.core.is_empty() && s.extra_core.is_empty() && s.build.is_empty() {
        return Verdict::Invalid("no component at all");
    }
    let mut unspecified = false;
    for c in s.core.iter().chain(s.extra_core.iter()).chain(s.build.iter()) {
        if let RComp::Var(RVar::Ts(p)) = c {
            if !cal::PATTERNS.contains(&p.as_str()) {
                if p.starts_with('%') { unspecified = true; } else { return Verdict::Invalid("unknown timestamp pattern"); }
            }
        }
    }
    let prim = |c: &RComp| match c { RComp::Var(RVar::Major) => Some(0), RComp::Var(RVar::Minor) => Some(1), RComp::Var(RVar::Patch) => Some(2), _ => None };
    let sec = |c: &RComp| matches!(c, RComp::Var(RVar::Epoch | RVar::PreRelease | RVar::Post | RVar::Dev));
    let mut last = -1i32;
    for c in &s.core {
        if let Some(r) = prim(c) {
            if r == last { return Verdict::Invalid("duplicate primary component"); }
            if r < last { return Verdict::Invalid("primary components out of order"); }
            last = r;
        }
        if sec(c) { return Verdict::Invalid("secondary component outside extra_core"); }
    }
    // duplicates that are not adjacent in rank (e.g. Major, Minor, Major) are caught by the order rule above
    for (i, c) in s.extra_core.iter().enumerate() {
        if prim(c).is_some() { return Verdict::Invalid("primary component outside core"); }
        if sec(c) && s.extra_core[..i].contains(c) { return Verdict::Invalid("duplicate secondary component"); }
    }
    for c in &s.build {
        if prim(c).is_some() { return Verdict::Invalid("primary component outside core"); }
        if sec(c) { return Verdict::Invalid("secondary component outside extra_core"); }
    }
    if unspecified { Verdict::Unspecified } else { Verdict::Valid }
}

pub fn ron_string(s: &str) -> String {
    let mut o = String::from("\"");
    for ch in s.chars() {
        match ch {
            '"' => o.push_str("\\\""),
            '\\' => o.push_str("\\\\"),
            '\n' => o.push_str("\\n"),
            '\r' => o.push_str("\\r"),
            '\t' => o.push_str("\\t"),
            c if (c as u32) < 0x20 || c as u32 == 0x7f => o.push_str(&format!("\\u{{{:x}}}", c as u32)),
            c => o.push(c),
        }
    }
    o.push('"');
    o
}

fn ron_var(v: &RVar) -> String {
    match v {
        RVar::Major => "Major".into(), RVar::Minor => "Minor".into(), RVar::Patch => "Patch".into(), RVar::Epoch => "Epoch".into(),
        RVar::PreRelease => "PreRelease".into(), RVar::Post => "Post".into(), RVar::Dev => "Dev".into(), RVar::Distance => "Distance".into(),
        RVar::Dirty => "Dirty".into(), RVar::BumpedBranch => "BumpedBranch".into(), RVar::BumpedCommitHash => "BumpedCommitHash".into(),
        RVar::BumpedCommitHashShort => "BumpedCommitHashShort".into(), RVar::BumpedTimestamp => "BumpedTimestamp".into(), RVar::LastBranch => "LastBranch".into(),
        RVar::LastCommitHash => "LastCommitHash".into(), RVar::LastCommitHashShort => "LastCommitHashShort".into(), RVar::LastTimestamp => "LastTimestamp".into(),
        RVar::Custom(k) => format!("custom({})", ron_string(k)),
        RVar::Ts(p) => format!("ts({})", ron_string(p)),
    }
}

pub fn ron_comp(c: &RComp) -> String {
    match c {
        RComp::Str(s) => format!("str({})", ron_string(s)),
        RComp::UInt(n) => format!("uint({n})"),
        RComp::Var(v) => format!("var({})", ron_var(v)),
    }
}

pub fn ron_schema(s: &RSchema) -> String {
    let list = |v: &Vec<RComp>| v.iter().map(ron_comp).collect::<Vec<_>>().join(",");
    format!("(core:[{}],extra_core:[{}],build:[{}])", list(&s.core), list(&s.extra_core), list(&s.build))
}
