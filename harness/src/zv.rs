//! Binding to the real zerv CLI entry points, in-process (mirrors src/cli/app.rs:run_with_args without
//! logging initialisation and stdin extraction) and through the real binary.
use std::path::Path;
use std::time::Duration;

use clap::Parser;
use zerv::cli::{Cli, Commands, run_flow_pipeline, run_render, run_version_pipeline};

use crate::proc;
use crate::{PanicInfo, catch};

#[derive(Debug, Clone, PartialEq, Eq, Hash)]
pub enum Res {
    Ok(String),
    /// clap rejected the argument vector
    Usage(String),
    /// zerv returned an error
    Err(String),
}

impl Res {
    pub fn ok(&self) -> Option<&str> {
        match self {
            Res::Ok(s) => Some(s),
            _ => None,
        }
    }
    pub fn is_ok(&self) -> bool {
        matches!(self, Res::Ok(_))
    }
}

/// Run `zerv <args...>` in-process with explicit stdin content.
pub fn run_cli<S: AsRef<str>>(args: &[S], stdin: Option<&str>) -> Result<Res, PanicInfo> {
    let argv: Vec<String> = std::iter::once("zerv".to_string()).chain(args.iter().map(|s| s.as_ref().to_string())).collect();
    catch(move || {
        let cli = match Cli::try_parse_from(argv) {
            Ok(c) => c,
            Err(e) => return Res::Usage(e.kind().to_string()),
        };
        let stdin = stdin.filter(|s| !s.trim().is_empty());
        let r = match cli.command {
            Some(Commands::Version(a)) => run_version_pipeline(*a, stdin),
            Some(Commands::Flow(a)) => run_flow_pipeline(*a, stdin),
            Some(Commands::Check(a)) => return match check(&a.version, a.format.as_deref()) { Ok(t) => Res::Ok(t), Err(e) => Res::Err(e) },
            Some(Commands::Render(a)) => run_render(*a),
            None => return Res::Usage("no subcommand".into()),
        };
        match r {
            Ok(s) => Res::Ok(s),
            Err(e) => Res::Err(e.to_string()),
        }
    })
}

/// `zerv check [--format f] -- <version>` through the application entry point `zerv::cli::app::run_with_args` (the function
/// `main` calls): the narrowest seam that does not depend on the signature of an internal function. The engine's own stdin
/// is /dev/null, so the entry point's stdin extraction reads nothing. Ok(report text without the final newline) | Err(error text).
pub fn check(version: &str, format: Option<&str>) -> Result<String, String> {
    let mut argv: Vec<String> = vec!["zerv".into(), "check".into()];
    if let Some(f) = format { argv.push("--format".into()); argv.push(f.into()); }
    argv.push("--".into()); argv.push(version.into());
    let mut buf: Vec<u8> = vec![];
    match zerv::cli::app::run_with_args(argv, &mut buf) {
        Ok(()) => { let t = String::from_utf8_lossy(&buf).to_string(); Ok(t.strip_suffix('\n').map(|x| x.to_string()).unwrap_or(t)) }
        Err(e) => Err(e.to_string()),
    }
}

/// Run the real binary. stdin None = /dev/null.
pub fn run_bin<S: AsRef<str>>(args: &[S], stdin: Option<&str>, extra_env: &[(&str, &str)], cwd: Option<&Path>) -> proc::Out {
    let bin = proc::zerv_bin();
    let mut env = proc::base_env();
    for (k, v) in extra_env {
        env.retain(|(ek, _)| ek != k);
        env.push((k.to_string(), v.to_string()));
    }
    let o = proc::run(&proc::Run {
        program: &bin,
        args: args.iter().map(|s| s.as_ref().to_string()).collect(),
        stdin: stdin.map(|s| s.as_bytes().to_vec()),
        env,
        cwd,
        timeout: Duration::from_secs(120),
    })
    .unwrap_or_else(|e| crate::machinery_error(&format!("cannot spawn {bin:?}: {e}")));
    if o.timed_out {
        crate::machinery_error(&format!("zerv timed out on {:?}", args.iter().map(|s| s.as_ref()).collect::<Vec<_>>()));
    }
    o
}

/// Run the real binary with stdin delivered late / in pieces (see `proc::Delivery`).
pub fn run_bin_delivery<S: AsRef<str>>(args: &[S], stdin: Option<&str>, extra_env: &[(&str, &str)], cwd: Option<&Path>, delivery: &proc::Delivery) -> proc::Out {
    let bin = proc::zerv_bin();
    let mut env = proc::base_env();
    for (k, v) in extra_env {
        env.retain(|(ek, _)| ek != k);
        env.push((k.to_string(), v.to_string()));
    }
    let o = proc::run_delivery(&proc::Run {
        program: &bin,
        args: args.iter().map(|s| s.as_ref().to_string()).collect(),
        stdin: stdin.map(|s| s.as_bytes().to_vec()),
        env,
        cwd,
        timeout: Duration::from_secs(120),
    }, delivery)
    .unwrap_or_else(|e| crate::machinery_error(&format!("cannot spawn {bin:?}: {e}")));
    if o.timed_out {
        crate::machinery_error(&format!("zerv timed out on {:?}", args.iter().map(|s| s.as_ref()).collect::<Vec<_>>()));
    }
    o
}

/// Conformance of the in-process driver with the real binary on one case:
/// (exit==0, stdout) must equal (Ok, output + "\n"); failure => stdout empty.
pub fn conforms(inproc: &Result<Res, PanicInfo>, out: &proc::Out) -> Result<(), String> {
    match inproc {
        Ok(Res::Ok(s)) => {
            if out.status == 0 && out.stdout_str() == format!("{s}\n") {
                Ok(())
            } else {
                Err(format!("in-process Ok({s:?}) but binary exit {} stdout {:?} stderr {:?}", out.status, out.stdout_str(), crate::truncate(&out.stderr_str(), 200)))
            }
        }
        Ok(Res::Usage(_)) | Ok(Res::Err(_)) => {
            if out.status != 0 && out.status != 101 && out.stdout.is_empty() {
                Ok(())
            } else {
                Err(format!("in-process {:?} but binary exit {} stdout {:?}", inproc, out.status, out.stdout_str()))
            }
        }
        Err(p) => {
            if out.status == 101 || out.status < 0 {
                Ok(())
            } else {
                Err(format!("in-process panic at {} but binary exit {}", p.location, out.status))
            }
        }
    }
}

pub const STANDARD_PRESETS: [&str; 11] = [
    "standard", "standard-no-context", "standard-base", "standard-base-prerelease", "standard-base-prerelease-post",
    "standard-base-prerelease-post-dev", "standard-base-context", "standard-base-prerelease-context",
    "standard-base-prerelease-post-context", "standard-base-prerelease-post-dev-context", "standard-context",
];
pub const CALVER_PRESETS: [&str; 11] = [
    "calver", "calver-no-context", "calver-base", "calver-base-prerelease", "calver-base-prerelease-post",
    "calver-base-prerelease-post-dev", "calver-base-context", "calver-base-prerelease-context",
    "calver-base-prerelease-post-context", "calver-base-prerelease-post-dev-context", "calver-context",
];
