//! C14 — output is deterministic and independent of the environment (separate processes, pinned clock).
use std::path::{Path, PathBuf};

use rayon::prelude::*;
use serde_json::json;
use zvharness::gitx::{self, Head, Repo, Shape, Tag, WorkTree};
use zvharness::refmodel::{cal, flow};
use zvharness::zv;
use zvharness::*;

fn a(v: &[&str]) -> Vec<String> { v.iter().map(|s| s.to_string()).collect() }

#[derive(Clone)]
struct Job { args: Vec<String>, stdin: Option<String>, /// cwd choices: None = any of the three
    cwds: Vec<PathBuf>, /// output depends on the wall clock (dirty / ahead in flow / current_timestamp)
    clock_dependent: bool, /// expected exact stdout, when the harness can compute it independently
    expect: Option<String>, label: String }

use zvharness::envp::{profile_env, PROFILES};

fn run_env(job: &Job, tz: &str, lc: &str, cwd: &Path, profile: usize, now: u64) -> proc::Out {
    let nows = now.to_string();
    let mut env: Vec<(&str, &str)> = vec![("TZ", tz), ("LC_ALL", lc), ("LANG", lc), ("ZERV_VERIF_NOW", &nows)];
    env.extend(profile_env(profile));
    zv::run_bin(&job.args, job.stdin.as_deref(), &env, Some(cwd))
}

fn main() {
    let ctx = Ctx::from_args("C14", "model_checking");
    let now = ctx.pinned_now();
    let quick = ctx.quick();
    let root = gitx::scratch_root();
    let _ = std::fs::remove_dir_all(&root);
    std::fs::create_dir_all(root.join("sibling")).unwrap_or_else(|e| machinery_error(&format!("scratch: {e}")));
    // real repositories whose HEAD commit times straddle UTC midnight
    let linear = Shape { parents: vec![vec![], vec![0], vec![1]], branches: [("main".to_string(), 2), ("feature/x".to_string(), 1)].into_iter().collect(), cur: "main".into(), ops: vec![] };
    let midnight = 1_710_547_200i64; // 2024-03-16T00:00:00Z
    let mut repos: Vec<(String, Repo)> = vec![];
    for (name, dates, tags, head, wt) in [
        ("r_before", vec![midnight - 7200, midnight - 3600, midnight - 1], vec![Tag { name: "v1.2.3".into(), target: 1, annotated: false }], Head::Branch("main".into()), WorkTree::Clean),
        ("r_after", vec![midnight - 2, midnight - 1, midnight], vec![Tag { name: "v1.2.3".into(), target: 2, annotated: true }, Tag { name: "v1.2.0".into(), target: 2, annotated: false }, Tag { name: "v1.2.1-rc.1".into(), target: 2, annotated: false }, Tag { name: "v1.0.0".into(), target: 0, annotated: false }], Head::Branch("main".into()), WorkTree::Clean),
        ("r_dirty", vec![midnight - 2, midnight - 1, midnight + 1], vec![Tag { name: "1.0.0rc1".into(), target: 0, annotated: false }], Head::Branch("feature/x".into()), WorkTree::Untracked),
        // commit dates in the future (a committer clock running ahead, or a pinned SOURCE_DATE_EPOCH): still just data
        ("r_future", vec![4_070_908_800 - 86400, 4_070_908_800, 4_070_908_800 + 3600], vec![Tag { name: "v1.2.3".into(), target: 1, annotated: true }], Head::Branch("main".into()), WorkTree::Clean),
        // detached HEAD: git reports this state through (translatable) messages on some code paths
        ("r_detached", vec![midnight - 7200, midnight - 3600, midnight - 1], vec![Tag { name: "v1.2.3".into(), target: 0, annotated: false }], Head::Detached(1), WorkTree::Clean),
    ] {
        let mut r = Repo::create(&root, name, &linear, &dates);
        r.set_tags(&tags); r.set_head(&head); r.set_worktree(wt, "f0");
        repos.push((name.to_string(), r));
    }
    // a branch whose short name is also a remote-tracking ref (not a tag: that would be ambiguous under either setting): how git abbreviates such a name depends on the
    // user's core.warnAmbiguousRefs
    {
        let shape_amb = Shape { parents: vec![vec![], vec![0]], branches: [("main".to_string(), 0), ("origin/topic".to_string(), 1)].into_iter().collect(), cur: "origin/topic".into(), ops: vec![] };
        let mut r = Repo::create(&root, "r_ambiguous", &shape_amb, &[midnight - 7200, midnight - 1]);
        r.set_tags(&[Tag { name: "v1.2.3".into(), target: 0, annotated: false }]);
        r.set_head(&Head::Branch("origin/topic".into()));
        gitx::git(&r.dir, &["update-ref", "refs/remotes/origin/topic", &r.shas[0]], None);
        repos.push(("r_ambiguous".to_string(), r));
    }
    let any_cwd = vec![root.join("sibling"), PathBuf::from("/"), repos[0].1.dir.clone()];
    // "loaded" start directories: files that tools commonly pick up from the directory a process is started in (or an ancestor of
    // it) - dotenv files that redirect git, switch on logging or move the clock / time zone, configuration-file candidates in
    // every usual spelling, version files, and a sub-directory of an unrelated repository. None of them is zerv input.
    let loaded: Vec<PathBuf> = {
        let other_git = repos[1].1.dir.join(".git");
        let mut v = vec![];
        let mk = |name: &str, files: &[(&str, String)]| -> PathBuf {
            let top = root.join(name);
            let d = top.join("sub").join("dir");
            std::fs::create_dir_all(&d).unwrap_or_else(|e| machinery_error(&format!("loaded dir: {e}")));
            for (f, body) in files { for at in [&top, &d] { let p = at.join(f); if let Some(pp) = p.parent() { let _ = std::fs::create_dir_all(pp); } std::fs::write(&p, body).unwrap_or_else(|e| machinery_error(&format!("loaded file: {e}"))); } }
            d
        };
        v.push(mk("loaded_env_git", &[(".env", format!("GIT_DIR={}\nGIT_WORK_TREE={}\n", other_git.display(), repos[1].1.dir.display()))]));
        v.push(mk("loaded_env_log", &[(".env", "RUST_LOG=trace\nRUST_BACKTRACE=1\n".to_string()), (".env.local", "RUST_LOG=zerv=debug\n".to_string())]));
        v.push(mk("loaded_env_clock", &[(".env", "TZ=Asia/Tokyo\nSOURCE_DATE_EPOCH=86400\nZERV_FORCE_RUST_LOG_OFF=1\nLC_ALL=de_DE.UTF-8\nPAGER=cat\nGIT_CONFIG_COUNT=1\nGIT_CONFIG_KEY_0=core.bare\nGIT_CONFIG_VALUE_0=true\n".to_string())]));
        let toml = "schema = \"calver\"\noutput_format = \"pep440\"\noutput-format = \"pep440\"\noutput_prefix = \"v\"\nsource = \"none\"\ntag_version = \"9.9.9\"\n[version]\nschema = \"calver\"\noutput_format = \"pep440\"\n[flow]\nschema = \"standard-context\"\npre_release_label = \"rc\"\n[tool.zerv]\nschema = \"calver\"\noutput_format = \"pep440\"\n[package.metadata.zerv]\nschema = \"calver\"\n".to_string();
        let ron = "(schema: \"calver\", output_format: \"pep440\", output_prefix: \"v\")".to_string();
        let jsn = "{\"schema\": \"calver\", \"output_format\": \"pep440\", \"zerv\": {\"schema\": \"calver\"}}".to_string();
        v.push(mk("loaded_cfg", &[("zerv.toml", toml.clone()), (".zerv.toml", toml.clone()), (".zervrc", toml.clone()), ("zerv.ron", ron.clone()), (".zerv.ron", ron), ("zerv.json", jsn.clone()), (".zerv.json", jsn.clone()), ("zerv.yaml", "schema: calver\noutput_format: pep440\n".to_string()),
            (".config/zerv/config.toml", toml.clone()), (".config/zerv.toml", toml.clone()), ("pyproject.toml", toml.clone()), ("Cargo.toml", toml.clone()), ("setup.cfg", "[zerv]\nschema = calver\n".to_string()), ("package.json", jsn),
            ("VERSION", "9.9.9\n".to_string()), ("version.txt", "9.9.9\n".to_string()), (".tool-versions", "zerv 0.0.1\n".to_string()), (".gitconfig", "[core]\n\tbare = true\n".to_string())]));
        let inner = repos[2 % repos.len()].1.dir.join("sub_of_other_repo");
        let _ = std::fs::create_dir_all(&inner);
        // (an untracked directory is invisible to the repository that holds it: empty directories are not status entries)
        v.push(inner);
        v
    };
    let mut jobs: Vec<Job> = vec![];
    // presets x {clean, ahead, dirty} via source none, both formats; calver expectations from R-CAL at a midnight-straddling timestamp
    let presets: Vec<&str> = zv::STANDARD_PRESETS.iter().chain(zv::CALVER_PRESETS.iter()).copied().collect();
    for (pi, p) in presets.iter().enumerate() {
        if quick && pi % 3 != 0 && !p.starts_with("calver-base") { continue; }
        for (state, flags) in [("clean", vec![]), ("ahead", vec!["--distance", "3"]), ("dirty", vec!["--dirty"])] {
            for (ti, ts) in [midnight - 1, midnight, 951782399 + 86400].iter().enumerate() {
                if quick && ti == 2 { continue; }
                let tss = ts.to_string();
                for fmt in ["semver", "pep440"] {
                    let mut args = a(&["version", "--source", "none", "--tag-version", "1.2.3", "--bumped-branch", "feature/x", "--bumped-commit-hash", "g1a2b3c4d5e", "--bumped-timestamp", &tss, "--schema", p, "--output-format", fmt]);
                    args.extend(flags.iter().map(|s| s.to_string()));
                    let expect = if p.starts_with("calver") && state == "clean" && fmt == "semver" && *p == "calver-base" { let c = cal::civil(*ts as u64); Some(format!("{}.{}.{}-3\n", c.year, c.month, c.day)) } else { None };
                    jobs.push(Job { args, stdin: None, cwds: any_cwd.clone(), clock_dependent: state == "dirty", expect, label: format!("{p}/{state}/{fmt}") });
                }
            }
        }
    }
    // templates using date and hash functions
    let bid = flow::branch_id("feature/x", 7);
    let hx: String = format!("{:x}", flow::hash_str("feature/x")).chars().take(9).collect();
    for ts in [midnight - 1, midnight] {
        let tss = ts.to_string();
        let c = cal::civil(ts as u64);
        let t = "{{ format_timestamp(value=bumped_timestamp, format=\"%Y-%m-%d %H:%M:%S\") }}|{{ format_timestamp(value=bumped_timestamp, format=\"compact_datetime\") }}|{{ hash(value=bumped_branch, length=9) }}|{{ hash_int(value=bumped_branch, length=7) }}";
        jobs.push(Job { args: a(&["version", "--source", "none", "--tag-version", "1.2.3", "--bumped-branch", "feature/x", "--bumped-timestamp", &tss, "--output-template", t]), stdin: None, cwds: any_cwd.clone(), clock_dependent: false,
            expect: Some(format!("{:04}-{:02}-{:02} {:02}:{:02}:{:02}|{}|{hx}|{bid}\n", c.year, c.month, c.day, c.hour, c.minute, c.second, cal::field("compact_datetime", ts as u64))), label: "template-dates-hashes".into() });
        let ron = "(core:[var(ts(\"YYYY\")),var(ts(\"0M\")),var(ts(\"0D\"))],extra_core:[var(ts(\"HH\")),var(ts(\"WW\"))],build:[var(ts(\"compact_datetime\"))])";
        jobs.push(Job { args: a(&["version", "--source", "none", "--tag-version", "1.2.3", "--bumped-timestamp", &tss, "--schema-ron", ron]), stdin: None, cwds: any_cwd.clone(), clock_dependent: false,
            expect: Some(format!("{}.{}.{}-{}.{}+{}\n", c.year, c.month, c.day, c.hour, cal::field("WW", ts as u64), cal::field("compact_datetime", ts as u64))), label: "schema-ron-ts".into() });
    }
    jobs.push(Job { args: a(&["version", "--source", "none", "--tag-version", "1.2.3", "--output-template", "{{ current_timestamp }}"]), stdin: None, cwds: any_cwd.clone(), clock_dependent: true, expect: Some(format!("{now}\n")), label: "current_timestamp".into() });
    // flow: branch id must be the R-SIP constant in every process
    for (b, d) in [("feature/x", "2"), ("main", "1")] {
        let id = flow::branch_id(b, 5);
        jobs.push(Job { args: a(&["flow", "--source", "none", "--tag-version", "1.2.3", "--bumped-branch", b, "--distance", d, "--schema", "standard-base-prerelease-post"]), stdin: None, cwds: any_cwd.clone(), clock_dependent: false, expect: Some(format!("1.2.4-alpha.{id}.post.{d}\n")), label: format!("flow-branch-id/{b}") });
        jobs.push(Job { args: a(&["flow", "--source", "none", "--tag-version", "1.2.3", "--bumped-branch", b, "--dirty", "--output-format", "pep440"]), stdin: None, cwds: any_cwd.clone(), clock_dependent: true, expect: None, label: format!("flow-dirty/{b}") });
    }
    // flow in a *clean* state must not look at the wall clock at all: every branch kind (commit and tag post-mode, by rule and
    // by flag), dirty unknown / false, distance absent / 0, sources none and stdin
    for b in ["main", "develop", "release/2", "feature/x"] { for mode in [None, Some("tag"), Some("commit")] { for dirty in [None, Some("--no-dirty"), Some("--clean")] { for dist in [None, Some("0")] {
        if dirty == Some("--clean") && dist.is_some() { continue; }
        let mut args = a(&["flow", "--source", "none", "--tag-version", "1.2.3", "--bumped-branch", b]);
        if let Some(m) = mode { args.extend(a(&["--post-mode", m])); }
        if let Some(d) = dirty { args.push(d.into()); }
        if let Some(d) = dist { args.extend(a(&["--distance", d])); }
        jobs.push(Job { args, stdin: None, cwds: vec![any_cwd[0].clone()], clock_dependent: false, expect: Some("1.2.3\n".into()), label: format!("flow-clean/{b}/{mode:?}/{dirty:?}/{dist:?}") });
    }}}}
    for b in ["release/2", "main"] {
        let sdoc = format!("(schema:(core:[var(Major),var(Minor),var(Patch)],extra_core:[var(Epoch),var(PreRelease),var(Post),var(Dev)],build:[]),vars:(major:Some(1),minor:Some(2),patch:Some(3),bumped_branch:Some(\"{b}\")))");
        for fmt in ["semver", "zerv"] { jobs.push(Job { args: a(&["flow", "--source", "stdin", "--output-format", fmt]), stdin: Some(sdoc.clone()), cwds: vec![any_cwd[0].clone()], clock_dependent: false, expect: if fmt == "semver" { Some("1.2.3\n".into()) } else { None }, label: format!("flow-clean-stdin/{b}/{fmt}") }); }
    }
    // stdin documents
    let doc = format!("(schema:(core:[var(ts(\"YYYY\")),var(ts(\"MM\")),var(ts(\"DD\")),var(Patch)],extra_core:[var(PreRelease)],build:[var(BumpedBranch)]),vars:(major:Some(1),patch:Some(4),pre_release:Some((label:Rc,number:Some(2))),bumped_branch:Some(\"İstanbul/ÉCOLE\"),last_timestamp:Some({}),custom:()))", midnight - 1);
    for fmt in ["semver", "pep440", "zerv"] { jobs.push(Job { args: a(&["version", "--source", "stdin", "--output-format", fmt]), stdin: Some(doc.clone()), cwds: any_cwd.clone(), clock_dependent: false, expect: if fmt == "semver" { Some("2024.3.15-4.rc.2+stanbul.COLE\n".into()) } else { None }, label: format!("stdin/{fmt}") }); }
    jobs.push(Job { args: a(&["render", "1.2.3-RC.1+İ", "--output-format", "pep440"]), stdin: None, cwds: any_cwd.clone(), clock_dependent: false, expect: None, label: "render-case".into() });
    jobs.push(Job { args: a(&["check", "1.0.0-alpha.İ"]), stdin: None, cwds: any_cwd.clone(), clock_dependent: false, expect: None, label: "check-nonascii".into() });
    // git repositories: -C absolute from every cwd; relative -C and plain cwd compared separately below
    for (name, r) in &repos {
        let dir = r.dir.to_string_lossy().to_string();
        for extra in [vec![], vec!["--schema", "calver"], vec!["--output-format", "pep440"], vec!["--output-format", "zerv"], vec!["--schema", "calver-base-prerelease-post-dev-context", "--output-format", "pep440"], vec!["--output-template", "{{ bumped_timestamp }}/{{ last_timestamp }}"]] {
            let mut args = a(&["version", "-C", &dir]); args.extend(extra.iter().map(|s| s.to_string()));
            jobs.push(Job { args, stdin: None, cwds: any_cwd.clone(), clock_dependent: name == "r_dirty", expect: None, label: format!("git/{name}") });
        }
        for extra in [vec![], vec!["--output-format", "pep440"]] {
            let mut args = a(&["flow", "-C", &dir]); args.extend(extra.iter().map(|s| s.to_string()));
            jobs.push(Job { args, stdin: None, cwds: any_cwd.clone(), clock_dependent: name != "r_after", expect: None, label: format!("git-flow/{name}") });
        }
    }
    let tzs: Vec<&str> = if quick { vec!["UTC", "Pacific/Kiritimati", "Pacific/Pago_Pago"] } else { vec!["UTC", "Pacific/Kiritimati", "Pacific/Pago_Pago", "Asia/Kolkata", "JST-9"] };
    // C.UTF-8 is the one non-"C" locale every system has: with LANGUAGE set, child processes (git) translate their messages
    let lcs: Vec<&str> = if quick { vec!["C", "C.UTF-8", "tr_TR.UTF-8"] } else { vec!["C", "C.UTF-8", "tr_TR.UTF-8", "de_DE.UTF-8", "de_DE.ISO-8859-1"] };
    let repeats = 2;
    let now2 = now + 3 * 86400 + 7;
    let st = jobs.par_iter().map(|job| {
        let mut st = Stats::default();
        st.inc("argument_vectors");
        let reference = run_env(job, "UTC", "C", &job.cwds[0], 0, now);
        let case = json!({"kind":"env","args":job.args,"stdin":job.stdin});
        if let Some(e) = &job.expect {
            st.inc("independent_expectations");
            if reference.stdout_str() != *e { ctx.violation("output_differs_from_independent_expectation", format!("{} {}", job.label, job.args.join(" ")), case.clone(), format!("stdout {:?}, expected {:?} (UTC calendar / zero-keyed SipHash)", reference.stdout_str(), e)); }
        }
        for tz in &tzs { for lc in &lcs { for cwd in &job.cwds { for extra in 0..PROFILES { for rep in 0..repeats {
            if *tz == "UTC" && *lc == "C" && extra == 0 && rep == 0 && cwd == &job.cwds[0] { continue; }
            // the two CI profiles are crossed with every cwd; with time zone, locale and repetition in the thorough tier only
            if quick && extra >= 2 && !(*tz == tzs[0] && *lc == lcs[0] && rep == 0) { continue; }
            // quick tier: the repetition dimension (run-to-run nondeterminism) is crossed with cwd and extra environment
            // only, under the first time zone and the first two locales
            if quick && rep > 0 && !(*tz == tzs[0] && (*lc == lcs[0] || *lc == lcs[1])) { continue; }
            st.inc("process_runs");
            let o = run_env(job, tz, lc, cwd, extra, now);
            if o != reference {
                let what = if o.stdout != reference.stdout { "stdout" } else if o.status != reference.status { "status" } else { "stderr" };
                ctx.violation(&format!("{what}_depends_on_environment"), format!("{} {} [TZ={tz} LC_ALL={lc} cwd={} extra_env={extra} repeat={rep}]", job.label, job.args.join(" "), cwd.display()), case.clone(),
                    format!("reference (UTC,C): exit {} {:?} / here: exit {} {:?} stderr {:?}", reference.status, truncate(&reference.stdout_str(), 120), o.status, truncate(&o.stdout_str(), 120), truncate(&o.stderr_str(), 120)));
            }
        }}}}}
        // loaded start directories (see above): the same answer, byte for byte, on all three streams; for the git jobs only with an
        // absolute -C (they all are), and one run with XDG_CONFIG_HOME pointing into the configuration-file directory
        if job.cwds.len() > 1 || job.stdin.is_some() || job.args.iter().any(|x| x == "none") {
            for (li, cwd) in loaded.iter().enumerate() {
                // the last one lies inside another repository: jobs that take their repository from the start directory are not comparable
                st.inc("process_runs"); st.inc("loaded_start_directory_runs");
                let o = run_env(job, "UTC", "C", cwd, 0, now);
                if o != reference {
                    let what = if o.stdout != reference.stdout { "stdout" } else if o.status != reference.status { "status" } else { "stderr" };
                    ctx.violation(&format!("{what}_depends_on_files_in_start_directory"), format!("{} {} [cwd=loaded#{li} {}]", job.label, job.args.join(" "), cwd.display()), case.clone(),
                        format!("reference: exit {} {:?} / here: exit {} {:?} stderr {:?}", reference.status, truncate(&reference.stdout_str(), 120), o.status, truncate(&o.stdout_str(), 120), truncate(&o.stderr_str(), 160)));
                }
            }
        }
        // second clock value: identical unless the input is clock dependent; then only timestamp-derived text may differ
        st.inc("second_clock_runs");
        let o2 = run_env(job, "Pacific/Kiritimati", "C", &job.cwds[0], 0, now2);
        if !job.clock_dependent {
            if o2 != reference { ctx.violation("output_depends_on_wall_clock", format!("{} {}", job.label, job.args.join(" ")), case.clone(), format!("clock {now}: {:?}; clock {now2}: {:?}", truncate(&reference.stdout_str(), 120), truncate(&o2.stdout_str(), 120))); }
        } else {
            st.inc("clock_dependent_vectors");
            let norm = |s: String, t: u64| -> String {
                let c = cal::civil(t);
                s.replace(&t.to_string(), "<NOW>").replace(&cal::field("compact_datetime", t), "<NOWDT>").replace(&format!("{}.{}.{}", c.year, c.month, c.day), "<NOWDATE>")
            };
            let (x, y) = (norm(reference.stdout_str(), now), norm(o2.stdout_str(), now2));
            if x != y || reference.status != o2.status { ctx.violation("clock_changes_more_than_timestamps", format!("{} {}", job.label, job.args.join(" ")), case.clone(), format!("{x:?} vs {y:?}")); }
            if reference.status == 0 && !reference.stdout_str().contains(&now.to_string()) && !reference.stdout_str().contains(&format!("{}.{}.{}", cal::civil(now).year, cal::civil(now).month, cal::civil(now).day)) && job.label != "stdin" { st.inc("clock_dependent_but_clock_invisible"); }
        }
        st
    }).reduce(Stats::default, Stats::merge);
    // relative -C and cwd-in-repo give the same as absolute -C
    let mut s2 = Stats::default();
    for (name, r) in &repos {
        let dir = r.dir.to_string_lossy().to_string();
        for sub in ["version", "flow"] {
            let abs = zv::run_bin(&[sub, "-C", &dir], None, &[], Some(Path::new("/")));
            let rel = zv::run_bin(&[sub, "-C", name.as_str()], None, &[], Some(&root));
            let rel2 = zv::run_bin(&[sub, "-C", &format!("../{name}")], None, &[], Some(&root.join("sibling")));
            let incwd = zv::run_bin(&[sub], None, &[], Some(&r.dir));
            s2.add("process_runs", 4); s2.inc("cwd_equivalence_cases");
            if rel != abs || rel2 != abs || incwd != abs { ctx.violation("stdout_depends_on_cwd", format!("{sub} on {name}"), json!({"kind":"cwd","repo":name}), format!("abs {:?} rel {:?} rel2 {:?} cwd {:?}", abs.stdout_str(), rel.stdout_str(), rel2.stdout_str(), incwd.stdout_str())); }
        }
    }
    // a start directory reached through a symbolic link, with $PWD holding the logical (link) path, the physical path, a stale
    // path or nothing: a relative `-C ..` is resolved by the operating system (physically); the shell's idea of the current
    // directory is an unrelated environment variable
    {
        let pairs: Vec<(usize, usize)> = (0..repos.len()).flat_map(|i| (0..repos.len()).map(move |j| (i, j))).filter(|(i, j)| i != j).take(if quick { 2 } else { 6 }).collect();
        for (i, j) in pairs {
            let (phys_repo, link_repo) = (&repos[i].1.dir, &repos[j].1.dir);
            let inner = phys_repo.join("zz_inner_dir");
            let link = link_repo.join("zz_link_dir");
            let _ = std::fs::create_dir(&inner);
            let _ = std::fs::remove_file(&link);
            std::os::unix::fs::symlink(&inner, &link).unwrap_or_else(|e| machinery_error(&format!("symlink: {e}")));
            for sub in ["version", "flow"] {
                let abs = zv::run_bin(&[sub, "-C", &phys_repo.to_string_lossy()], None, &[], Some(Path::new("/")));
                let logical = link.to_string_lossy().to_string();
                let physical = inner.to_string_lossy().to_string();
                for (what, pwd) in [("logical", Some(logical.as_str())), ("physical", Some(physical.as_str())), ("stale", Some("/nonexistent/dir")), ("relative", Some(".")), ("unset", None)] {
                    let env: Vec<(&str, &str)> = match pwd { Some(p) => vec![("PWD", p)], None => vec![] };
                    for c in ["..", "../", "./..", "../."] {
                        let o = zv::run_bin(&[sub, "-C", c], None, &env, Some(&link));
                        s2.inc("process_runs"); s2.inc("symlinked_cwd_cases");
                        if o != abs { ctx.violation("stdout_depends_on_cwd", format!("{sub} -C {c} from a symlinked directory with PWD {what}"), json!({"kind":"cwd-symlink","pwd":what}), format!("printed {:?} / {:?}, the physical parent repository gives {:?}", o.stdout_str(), truncate(&o.stderr_str(), 120), abs.stdout_str())); }
                    }
                }
            }
            let _ = std::fs::remove_file(&link);
            let _ = std::fs::remove_dir(&inner);
        }
    }
    // the user's git configuration (~/.gitconfig, here via GIT_CONFIG_GLOBAL) is part of the environment: settings that only
    // change how git *presents* its answers (columns, colours, sorting, pagers, status decorations, log formats, encodings,
    // abbreviation, advice) must not change what zerv reports. Settings that change repository semantics (excludesFile,
    // showUntrackedFiles, fileMode, autocrlf, ignoreCase, worktree) are deliberately not in this alphabet.
    {
        let settings: &[(&str, &str, &str)] = &[("status", "branch", "true"), ("status", "short", "true"), ("status", "showStash", "true"), ("status", "relativePaths", "false"), ("status", "aheadBehind", "true"),
            ("status", "renames", "copies"), ("status", "displayCommentPrefix", "true"), ("status", "submoduleSummary", "true"), ("color", "ui", "always"), ("color", "status", "always"), ("color", "branch", "always"),
            ("color", "pager", "true"), ("column", "ui", "always"), ("column", "tag", "always"), ("column", "branch", "always"), ("column", "status", "always"), ("column", "ui", "always,dense,nodense"),
            ("tag", "sort", "-version:refname"), ("tag", "sort", "creatordate"), ("tag", "sort", "-taggerdate"), ("branch", "sort", "-committerdate"), ("versionsort", "suffix", "-rc"), ("log", "decorate", "full"),
            ("log", "showSignature", "true"), ("log", "date", "iso"), ("log", "date", "relative"), ("log", "abbrevCommit", "true"), ("log", "follow", "true"), ("log", "mailmap", "false"), ("log", "showRoot", "false"),
            ("format", "pretty", "fuller"), ("format", "pretty", "oneline"), ("format", "pretty", "format:%s"), ("core", "abbrev", "4"), ("core", "abbrev", "40"), ("core", "pager", "cat"), ("core", "pager", "false"),
            ("pager", "tag", "true"), ("pager", "branch", "true"), ("pager", "status", "true"), ("pager", "log", "true"), ("pager", "show", "true"), ("core", "quotePath", "false"), ("advice", "statusHints", "true"),
            ("advice", "detachedHead", "true"), ("i18n", "logOutputEncoding", "latin1"), ("i18n", "commitEncoding", "latin1"), ("core", "commentChar", "%"), ("diff", "renames", "copies"), ("diff", "mnemonicPrefix", "true"),
            ("user", "name", "zz"), ("init", "defaultBranch", "trunk"), ("core", "precomposeUnicode", "true"), ("core", "logAllRefUpdates", "always"), ("merge", "ff", "only"), ("rerere", "enabled", "true"), ("gc", "auto", "0"),
            ("help", "autoCorrect", "1"), ("core", "editor", "false"), ("core", "whitespace", "trailing-space"), ("tag", "gpgSign", "true"), ("commit", "gpgSign", "true"), ("gpg", "program", "false"), ("feature", "manyFiles", "true"),
            ("index", "version", "4"), ("core", "untrackedCache", "true"), ("rev-list", "unknownKey", "1"), ("alias", "tag", "!false"), ("alias", "status", "!echo dirty"), ("alias", "rev-list", "log"), ("core", "warnAmbiguousRefs", "false")];
        let cfgdir = root.join("gitconfigs");
        let _ = std::fs::create_dir_all(&cfgdir);
        let mut files: Vec<(String, PathBuf)> = vec![];
        let mut all = String::new();
        for (i, (sec, key, val)) in settings.iter().enumerate() {
            let text = format!("[{sec}]\n\t{key} = {val}\n");
            let f = cfgdir.join(format!("c{i}"));
            std::fs::write(&f, &text).unwrap_or_else(|e| machinery_error(&format!("gitconfig: {e}")));
            files.push((format!("{sec}.{key}={val}"), f));
            if !(*sec == "alias") { all += &text; }
        }
        let fall = cfgdir.join("all"); std::fs::write(&fall, &all).unwrap(); files.push(("all presentation settings together".into(), fall));
        let cfg_jobs: Vec<(String, Vec<String>)> = repos.iter().flat_map(|(name, r)| { let dir = r.dir.to_string_lossy().to_string(); vec![(name.clone(), a(&["version", "-C", &dir, "--output-format", "zerv"])), (name.clone(), a(&["flow", "-C", &dir]))] }).collect();
        let st_cfg = cfg_jobs.par_iter().map(|(name, args)| {
            let mut st = Stats::default();
            let reference = zv::run_bin(args, None, &[], Some(Path::new("/")));
            for (label, f) in &files {
                st.inc("process_runs"); st.inc("git_config_cases");
                let o = zv::run_bin(args, None, &[("GIT_CONFIG_GLOBAL", f.to_str().unwrap())], Some(Path::new("/")));
                if o.stdout != reference.stdout || o.status != reference.status { ctx.violation("stdout_depends_on_user_git_config", format!("{} on {name} [{label}]", args[0]), json!({"kind":"gitconfig","setting":label,"repo":name,"args":args}), format!("isolated: exit {} {:?}; with the setting: exit {} {:?} {:?}", reference.status, truncate(&reference.stdout_str(), 100), o.status, truncate(&o.stdout_str(), 100), truncate(&o.stderr_str(), 100))); }
            }
            st
        }).reduce(Stats::default, Stats::merge);
        s2 = s2.merge(st_cfg);
    }
    // start directory that no longer exists (getcwd fails): with an absolute -C the result must not change
    {
        let run_gone = |args: &[String], stdin: Option<&str>, tag: &str| -> proc::Out {
            let gone = root.join(format!("gone-{tag}"));
            let mut sh_args = vec!["-c".to_string(), "mkdir -p \"$1\" && cd \"$1\" && rmdir \"$1\" && shift && exec \"$@\"".to_string(), "sh".to_string(), gone.display().to_string(), proc::zerv_bin().display().to_string()];
            sh_args.extend(args.iter().cloned());
            let mut env = proc::base_env(); env.push(("PATH".into(), "/usr/local/bin:/usr/bin:/bin".into()));
            env.retain(|(k, _)| k != "PATH" || true);
            proc::run(&proc::Run { program: Path::new("/bin/sh"), args: sh_args, stdin: stdin.map(|s| s.as_bytes().to_vec()), env, cwd: Some(Path::new("/")), timeout: std::time::Duration::from_secs(20) }).unwrap_or_else(|e| machinery_error(&format!("sh: {e}")))
        };
        let mut gone_jobs: Vec<(Vec<String>, Option<String>)> = vec![];
        for (_, r) in &repos { let dir = r.dir.to_string_lossy().to_string(); for sub in ["version", "flow"] { for fmt in ["semver", "zerv"] { gone_jobs.push((a(&[sub, "-C", &dir, "--output-format", fmt]), None)); } } }
        let dir0 = repos[0].1.dir.to_string_lossy().to_string();
        gone_jobs.push((a(&["version", "-C", &dir0, "--source", "none", "--tag-version", "1.2.3"]), None));
        gone_jobs.push((a(&["version", "-C", &dir0, "--source", "stdin"]), Some(doc.clone())));
        gone_jobs.push((a(&["flow", "-C", &dir0, "--source", "none", "--tag-version", "1.2.3", "--bumped-branch", "main", "--distance", "1"]), None));
        for (i, (args, stdin)) in gone_jobs.iter().enumerate() {
            let reference = zv::run_bin(args, stdin.as_deref(), &[], Some(Path::new("/")));
            let o = run_gone(args, stdin.as_deref(), &i.to_string());
            s2.add("process_runs", 2); s2.inc("removed_cwd_cases");
            if o.stdout != reference.stdout || o.status != reference.status { ctx.violation("stdout_depends_on_cwd", format!("{} [start directory removed]", args.join(" ")), json!({"kind":"cwd-gone","args":args}), format!("from /: exit {} {:?}; from a removed directory: exit {} {:?} {:?}", reference.status, truncate(&reference.stdout_str(), 100), o.status, truncate(&o.stdout_str(), 100), truncate(&o.stderr_str(), 120))); }
        }
    }
    // how and when the bytes of stdin arrive: the same document delivered at once, after a silence of 0.7 / 2.5 / 6 s (a slow upstream stage
    // of `zerv ... | zerv ...`), in 1-byte / 64-byte pieces with pauses, with a long pause after the first piece, and with the pipe kept open
    // after the last byte. Output and status must be those of immediate delivery (the time of delivery is not an input).
    {
        use proc::Delivery; use std::time::Duration as D;
        let ms = D::from_millis;
        let deliveries: Vec<(&str, Delivery)> = vec![
            ("silent 0.7 s", Delivery { first_delay: ms(700), ..Default::default() }),
            ("silent 2.5 s", Delivery { first_delay: ms(2500), ..Default::default() }),
            ("silent 6 s", Delivery { first_delay: ms(6000), ..Default::default() }),
            ("1-byte pieces, 2 ms apart", Delivery { chunk: 1, gap: ms(2), ..Default::default() }),
            ("64-byte pieces, 300 ms apart", Delivery { chunk: 64, gap: ms(300), ..Default::default() }),
            ("first byte at once, the rest after 2.5 s", Delivery { head: 1, head_gap: ms(2500), ..Default::default() }),
            ("pipe kept open 2.5 s after the last byte", Delivery { close_delay: ms(2500), ..Default::default() }),
        ];
        let dir0 = repos[0].1.dir.to_string_lossy().to_string();
        let plain = root.join("plain-dir"); let _ = std::fs::create_dir_all(&plain);
        let mut djobs: Vec<(Vec<String>, String, PathBuf)> = vec![];
        for fmt in ["semver", "zerv"] { djobs.push((a(&["version", "--source", "stdin", "--output-format", fmt]), doc.clone(), plain.clone())); }
        // no --source: zerv decides from the presence of stdin content; started inside a repository and outside one
        djobs.push((a(&["version", "--output-format", "semver"]), doc.clone(), PathBuf::from(&dir0)));
        djobs.push((a(&["version", "--output-format", "semver"]), doc.clone(), plain.clone()));
        djobs.push((a(&["version", "-C", &dir0, "--output-format", "pep440"]), doc.clone(), PathBuf::from("/")));
        djobs.push((a(&["flow", "--source", "stdin", "--output-format", "semver"]), doc.clone(), plain.clone()));
        djobs.push((a(&["version", "--source", "stdin", "--output-template", "{{ major }}.{{ bumped_branch }}"]), doc.clone(), plain.clone()));
        // sub-commands that do not use stdin at all
        djobs.push((a(&["check", "1.2.3"]), "9.9.9\n".to_string(), plain.clone()));
        djobs.push((a(&["render", "1.2.3-rc.1", "--output-format", "pep440"]), "9.9.9\n".to_string(), plain.clone()));
        djobs.push((a(&["version", "-C", &dir0, "--source", "git"]), "not a document\n".to_string(), PathBuf::from("/")));
        let work: Vec<(usize, usize)> = (0..djobs.len()).flat_map(|j| (0..deliveries.len()).map(move |d| (j, d))).collect();
        let refs: Vec<proc::Out> = djobs.iter().map(|(args, stdin, cwd)| zv::run_bin(args, Some(stdin), &[], Some(cwd))).collect();
        let pool = rayon::ThreadPoolBuilder::new().num_threads(work.len().min(96)).build().unwrap_or_else(|e| machinery_error(&format!("thread pool: {e}")));
        let st_d = pool.install(|| work.par_iter().map(|&(j, di)| {
            let mut st = Stats::default();
            let (args, stdin, cwd) = &djobs[j];
            let (dname, d) = deliveries[di];
            let o = zv::run_bin_delivery(args, Some(stdin), &[], Some(cwd), &d);
            st.inc("process_runs"); st.inc("stdin_delivery_cases");
            let r = &refs[j];
            if o.stdout != r.stdout || o.status != r.status { ctx.violation("output_depends_on_stdin_delivery", format!("{} [stdin delivery: {dname}]", args.join(" ")), json!({"kind":"stdin-delivery","args":args,"delivery":dname}), format!("delivered at once: exit {} {:?}; {dname}: exit {} {:?} {:?}", r.status, truncate(&r.stdout_str(), 120), o.status, truncate(&o.stdout_str(), 120), truncate(&o.stderr_str(), 160))); }
            st
        }).reduce(Stats::default, Stats::merge));
        s2 = s2.merge(st_d); s2.add("process_runs", refs.len() as u64);
    }
    for (_, r) in repos { r.remove(); }
    let _ = std::fs::remove_dir_all(&root);
    let all = st.merge(s2);
    let mut cov = Coverage::default();
    cov.states = jobs.len() as u64;
    cov.transitions = all.get("process_runs") + all.get("second_clock_runs");
    cov.evaluations = cov.transitions + jobs.len() as u64;
    cov.traces_validated = cov.evaluations;
    cov.distinct_nontrivial = jobs.len() as u64;
    cov.rule = format!("{} argument vectors (presets x clean/ahead/dirty x both formats at timestamps straddling UTC midnight, templates with format_timestamp/hash/hash_int, schema-ron ts() components, current_timestamp, flow branch ids, stdin documents with non-ASCII text, render/check, 3 real git repositories whose HEAD times straddle UTC midnight incl. a dirty one) x the full product TZ{tzs:?} x LC_ALL{lcs:?} x 3 working directories x 4 environment profiles (none; terminal/tooling variables; the variables of a GitHub Actions branch build; the branch / tag / commit / build-number / version-override variables of nine other CI systems and packaging tools - in the quick tier the two CI profiles are crossed with the working directories only) x {repeats} repeats, every run a separate process with the clock pinned by the LD_PRELOAD seam; all (status, stdout, stderr) must equal the (UTC, C) reference; independent expectations from R-CAL and R-SIP where computable; a second clock value must change nothing for clock-independent inputs and only timestamp-derived text otherwise; relative -C / in-repo cwd equal absolute -C. non-trivial = argument vectors", jobs.len());
    cov.exhaustive = true;
    cov.samples = vec![json!(jobs[3].args), json!(jobs[jobs.len() - 1].args), json!({"TZ":"Pacific/Kiritimati","LC_ALL":"tr_TR.UTF-8","cwd":"/","extra_env":1})];
    cov.set("clause_counts", all.to_json());
    cov.assumptions = vec!["independence is shown for the environment dimensions the property names (TZ, locale, cwd, unrelated variables, repetition, process identity); the wall clock is owned by the LD_PRELOAD seam".into(), "R-CAL and R-SIP".into()];
    finish(&ctx, cov);
}
