//! C16 — the sanitiser contract. Exhaustive trie of strings × all sanitiser settings.
use serde_json::json;
use zerv::utils::sanitize::Sanitizer;
use zvharness::refmodel::san;
use zvharness::*;

#[derive(Clone, Debug)]
struct Setting {
    name: String,
    sep: Option<&'static str>,
    lower: bool,
    keep: bool,
    max: Option<usize>,
    /// built by a named constructor rather than Sanitizer::str
    preset: Option<&'static str>,
}

fn settings() -> Vec<Setting> {
    let mut v = vec![];
    for sep in [Some("."), Some("-"), Some("_"), Some("→"), Some("·"), None] {
        for lower in [false, true] {
            for keep in [false, true] {
                for max in [None, Some(0), Some(1), Some(2), Some(3), Some(4), Some(6)] {
                    v.push(Setting {
                        name: format!("sep={sep:?},lower={lower},keep={keep},max={max:?}"),
                        sep, lower, keep, max, preset: None,
                    });
                }
            }
        }
    }
    for (p, lower) in [("semver_str", false), ("pep440_local_str", true), ("key", true)] {
        v.push(Setting { name: format!("preset={p}"), sep: Some("."), lower, keep: false, max: None, preset: Some(p) });
    }
    // multi-character separators, incl. ones that mean something to a regex replacement ($_, $$, $1, ${x}) or to an escape
    // (a separator that itself contains a letter or digit is outside the statement: it could not be idempotent)
    for sep in ["$", "$_", "$$", "${_}", "$-", "$$$", "--", "\\", ".*", "→→"] { for lower in [false, true] { for keep in [false, true] {
        v.push(Setting { name: format!("sep={sep:?},lower={lower},keep={keep},max=None"), sep: Some(sep), lower, keep, max: None, preset: None });
    }}}
    // multi-character separators together with max_length: the sanitised text can be longer than the input, and a cut can
    // land inside a separator
    for sep in ["--", "$_", "::", "-=-", "→→", "...."] { for lower in [false, true] { for keep in [false, true] { for max in [0usize, 1, 2, 3, 4, 5, 6, 7, 9] {
        v.push(Setting { name: format!("sep={sep:?},lower={lower},keep={keep},max={:?}", Some(max)), sep: Some(sep), lower, keep, max: Some(max), preset: None });
    }}}}
    v.push(Setting { name: "preset=uint".into(), sep: None, lower: false, keep: false, max: None, preset: Some("uint") });
    v
}

/// second group of settings, used by the length sweeps: max_length at every value 0..=70 and a few beyond
fn big_settings() -> Vec<Setting> {
    let mut big: Vec<Setting> = vec![];
    for sep in [Some("."), Some("-"), None] { for lower in [false, true] { for keep in [false, true] {
        for max in (0..=70usize).chain([100, 127, 128, 255, 256, 1000]) { big.push(Setting { name: format!("sep={sep:?},lower={lower},keep={keep},max={:?}", Some(max)), sep, lower, keep, max: Some(max), preset: None }); }
    }}}
    big
}

fn build(s: &Setting) -> Sanitizer {
    match s.preset {
        Some("semver_str") => Sanitizer::semver_str(),
        Some("pep440_local_str") => Sanitizer::pep440_local_str(),
        Some("key") => Sanitizer::key(),
        Some("uint") => Sanitizer::uint(),
        _ => Sanitizer::str(s.sep, s.lower, s.keep, s.max),
    }
}

/// Judge one (input, setting). Returns (class, detail) on violation.
fn judge(x: &str, s: &Setting, z: &Sanitizer, st: &mut Stats) -> Option<(String, String)> {
    let out = match catch(|| z.sanitize(x)) {
        Ok(o) => o,
        Err(p) => return Some((format!("panic@{}", p.file()), format!("panic {} at {}", p.message, p.location))),
    };
    st.observe(&(x, &s.name, &out));
    if s.preset == Some("uint") {
        // statement: digits of a purely numeric input without leading zeros, "" for anything else.
        // (white-space padded input is left open: DESIGN A.10)
        if x.trim() != x {
            // padded input: the statement leaves open whether the padding is trimmed first, so a padded number may
            // come out as its digits or as "" - but nothing else, and padded non-numbers (incl. white space only) give ""
            let t = x.trim();
            st.inc("unspecified_cases");
            let ok = out.is_empty() || (!san::uint(t).is_empty() && out == san::uint(t));
            return (!ok).then(|| ("uint_mismatch".to_string(), format!("got {out:?} for padded input; allowed: \"\"{}", if san::uint(t).is_empty() { String::new() } else { format!(" or {:?}", san::uint(t)) })));
        }
        let want = san::uint(x);
        st.inc("clause_uint");
        return (out != want).then(|| ("uint_mismatch".to_string(), format!("got {out:?} want {want:?}")));
    }
    // idempotence (all settings)
    let again = match catch(|| z.sanitize(&out)) {
        Ok(o) => o,
        Err(p) => return Some((format!("panic@{}", p.file()), format!("panic on second pass {} at {}", p.message, p.location))),
    };
    st.inc("clause_idempotence");
    let Some(sep) = s.sep else {
        // separator-less configuration: only I4, I5, no panic
        if let Some(m) = s.max {
            if out.chars().count() > m {
                return Some(("I4_max_length_nosep".into(), format!("out {out:?} longer than {m}")));
            }
        }
        if again != out {
            return Some(("I5_idempotence_nosep".into(), format!("s(x)={out:?} s(s(x))={again:?}")));
        }
        return None;
    };
    if sep.chars().count() > 1 {
        // multi-character separators: exact equality with R-SAN and idempotence; with max_length the invariants on whole separators
        st.inc("clause_multichar_separator");
        let full = san::san(x, sep, s.lower, s.keep);
        if let Some(m) = s.max {
            st.inc("clause_multichar_separator_max_length");
            if out.chars().count() > m { return Some(("I4_max_length".into(), format!("out {out:?} longer than {m}"))); }
            if full.chars().count() <= m { if out != full { return Some(("I6_model_mismatch_fits".into(), format!("got {out:?} want {full:?} (fits max {m})"))); } }
            else if !out.is_empty() {
                // runs of ASCII letters and digits joined by whole separators, nothing else
                for piece in out.split(sep) {
                    if piece.is_empty() || !piece.bytes().all(|b| b.is_ascii_alphanumeric()) { return Some(("I2_partial_or_edge_separator".into(), format!("out {out:?} is not runs joined by {sep:?} (untruncated {full:?})"))); }
                    if !s.keep && piece.len() > 1 && piece.starts_with('0') && piece.bytes().all(|b| b.is_ascii_digit()) { return Some(("I3_leading_zero".into(), format!("out {out:?}"))); }
                }
                if s.keep && !full.starts_with(&out) { return Some(("I6_not_a_truncation".into(), format!("out {out:?}, untruncated {full:?}"))); }
            }
            if again != out { return Some(("I5_idempotence".into(), format!("s(x)={out:?} s(s(x))={again:?}"))); }
            return None;
        }
        if out != full { return Some(("I6_model_mismatch".into(), format!("out {out:?}, contract {full:?}"))); }
        // idempotent only if the separator cannot itself be re-split differently: re-sanitising must give the same text
        if again != out { return Some(("I5_idempotence".into(), format!("s(x)={out:?} s(s(x))={again:?}"))); }
        return None;
    }
    let sepc = sep.chars().next().unwrap();
    if let Some(inv) = san::invariants(&out, sepc, s.keep, s.max) {
        return Some((inv.to_string(), format!("out {out:?}")));
    }
    st.inc("clause_invariants");
    if again != out {
        return Some(("I5_idempotence".into(), format!("s(x)={out:?} s(s(x))={again:?}")));
    }
    let full = san::san(x, sep, s.lower, s.keep);
    match s.max {
        None => {
            st.inc("clause_exact");
            if out != full {
                return Some(("I6_model_mismatch".into(), format!("got {out:?} want {full:?}")));
            }
        }
        Some(m) => {
            if full.chars().count() <= m {
                st.inc("clause_exact");
                if out != full {
                    return Some(("I6_model_mismatch_fits".into(), format!("got {out:?} want {full:?} (fits max {m})")));
                }
            } else {
                st.inc("clause_truncation");
                if !san::is_truncation_of(&out, &full, sepc, s.keep) {
                    return Some(("I7_not_a_truncation".into(), format!("got {out:?}, untruncated reference {full:?}")));
                }
            }
        }
    }
    None
}

/// The template function `sanitize(...)` written for one setting over the template value `var`; None when the setting
/// cannot be expressed there (the key preset has no name in the function, max_length=... with a preset is refused).
fn tera_expr(var: &str, s: &Setting) -> Option<String> {
    let mut args = vec![format!("value={var}")];
    match s.preset {
        Some("key") => return None,
        Some(p) => args.push(format!("preset=\"{p}\"")),
        None => {
            if let Some(sep) = s.sep { if sep.contains('"') { return None; } args.push(format!("separator=\"{sep}\"")); }
            args.push(format!("lowercase={}", s.lower));
            args.push(format!("keep_zeros={}", s.keep));
            if let Some(m) = s.max { args.push(format!("max_length={m}")); }
        }
    }
    Some(format!("sanitize({})", args.join(", ")))
}

const USEP: &str = "\u{1}";

/// Bind the template function to the direct call: for the value reachable as `var` in `z` (whose text form is `text`)
/// every expressible setting, rendered in one template, must give exactly what Sanitizer::sanitize gives on `text`.
fn judge_template(ctx: &Ctx, z: &zerv::version::zerv::Zerv, var: &str, text: &str, kind: &str, sets: &[Setting], built: &[Sanitizer], st: &mut Stats) {
    use zerv::cli::utils::output_formatter::OutputFormatter;
    use zerv::cli::utils::template::Template;
    let idx: Vec<usize> = (0..sets.len()).filter(|&i| tera_expr(var, &sets[i]).is_some()).collect();
    let t = format!("[{}]", idx.iter().map(|&i| format!("{{{{ {} }}}}", tera_expr(var, &sets[i]).unwrap())).collect::<Vec<_>>().join(USEP));
    st.inc("template_renders");
    let key = |i: usize| format!("{kind} {var} = {text:?} [{}]", sets[i].name);
    let case = |i: usize| json!({"kind": "template", "value_kind": kind, "var": var, "text": text, "setting": sets[i].name});
    let out = match catch(|| OutputFormatter::format_output(z, "semver", None, &Some(Template::new(t.clone()))).map_err(|e| e.to_string())) {
        Err(p) => { ctx.violation(&format!("panic@{}", p.file()), key(idx[0]), case(idx[0]), format!("panic {} at {}", p.message, p.location)); return; }
        Ok(Err(e)) => { ctx.violation("template_function_failed", key(idx[0]), case(idx[0]), e); return; }
        Ok(Ok(o)) => o,
    };
    let inner = match out.strip_prefix('[').and_then(|o| o.strip_suffix(']')) { Some(i) => i, None => { ctx.violation("template_function_output_shape", key(idx[0]), case(idx[0]), format!("{out:?}")); return; } };
    let parts: Vec<&str> = inner.split(USEP).collect();
    if parts.len() != idx.len() { ctx.violation("template_function_output_shape", key(idx[0]), case(idx[0]), format!("{} parts for {} calls: {out:?}", parts.len(), idx.len())); return; }
    for (k, &i) in idx.iter().enumerate() {
        st.inc("template_function_calls");
        st.inc("evaluations");
        // the direct call on the same text is judged against R-SAN here as well, so the binding has no blind spot
        if let Some((class, detail)) = judge(text, &sets[i], &built[i], st) { ctx.violation(&class, format!("{text:?} [{}]", sets[i].name), json!({"input": text, "setting": sets[i].name}), detail); }
        let want = match catch(|| built[i].sanitize(text)) { Ok(w) => w, Err(_) => continue };
        if parts[k] != want { ctx.violation("template_function_differs_from_sanitizer", key(i), case(i), format!("sanitize(...) in a template gave {:?}, Sanitizer::sanitize gives {want:?}", parts[k])); }
    }
}

/// (t2) over-specified calls: a preset together with explicit parameters. The function may refuse such a call; whatever it
/// returns instead is still sanitiser output and has to satisfy the contract for the separator / keep_zeros / max_length in
/// force (explicit parameter, else the preset's), and be a fixed point of the function called the same way.
fn overspecified_layer(ctx: &Ctx, sigma: &[&str], max_len: usize) -> Stats {
    use zerv::cli::utils::output_formatter::OutputFormatter;
    use zerv::cli::utils::template::Template;
    use zvharness::refmodel::ren::{RComp, RSchema, RVar, RVars};
    let schema = RSchema { core: vec![RComp::Var(RVar::Major)], extra_core: vec![], build: vec![] };
    let presets = ["semver_str", "semver", "dotted", "pep440_local_str", "pep440", "lower_dotted"];
    // (extra argument text, separator in force, keep_zeros in force, max_length in force)
    let mut extras: Vec<(String, Option<char>, Option<bool>, Option<usize>)> = vec![];
    for m in [0usize, 1, 2, 3, 4, 5, 8] { extras.push((format!("max_length={m}"), None, None, Some(m))); }
    extras.push(("separator=\"-\"".into(), Some('-'), None, None));
    extras.push(("separator=\"-\", max_length=3".into(), Some('-'), None, Some(3)));
    extras.push(("keep_zeros=true".into(), None, Some(true), None));
    extras.push(("keep_zeros=false, max_length=4".into(), None, Some(false), Some(4)));
    extras.push(("lowercase=true".into(), None, None, None));
    extras.push(("lowercase=false, max_length=2".into(), None, None, Some(2)));
    let render = |z: &zerv::version::zerv::Zerv, t: &str| catch(|| OutputFormatter::format_output(z, "semver", None, &Some(Template::new(t.to_string()))).map_err(|e| e.to_string()));
    let judge_text = |x: &str, st: &mut Stats| {
        let v = RVars { major: Some(1), bumped_branch: Some(x.to_string()), ..Default::default() };
        let Ok(z) = bind::zerv(&schema, &v) else { return };
        for p in presets { for (extra, sep, keep, max) in &extras {
            st.inc("overspecified_calls");
            st.inc("evaluations");
            let call = format!("sanitize(value=bumped_branch, preset=\"{p}\", {extra})");
            let key = format!("{x:?} [{call}]");
            let case = json!({"kind": "template", "value_kind": "overspecified", "text": x, "call": call});
            match render(&z, &format!("[{{{{ {call} }}}}]")) {
                Err(pn) => ctx.violation(&format!("panic@{}", pn.file()), key, case, pn.message),
                Ok(Err(_)) => st.inc("overspecified_refused"),
                Ok(Ok(o)) => {
                    st.inc("overspecified_answered");
                    let Some(out) = o.strip_prefix('[').and_then(|o| o.strip_suffix(']')) else { ctx.violation("template_function_output_shape", key, case, o); continue };
                    if let Some(inv) = san::invariants(out, sep.unwrap_or('.'), keep.unwrap_or(false), *max) { ctx.violation(inv, key, case, format!("sanitize(...) returned {out:?}")); continue; }
                    // fixed point of the same call
                    let v2 = RVars { major: Some(1), bumped_branch: Some(out.to_string()), ..Default::default() };
                    if let Ok(z2) = bind::zerv(&schema, &v2) { if let Ok(Ok(o2)) = render(&z2, &format!("[{{{{ {call} }}}}]")) { if o2 != o { ctx.violation("I5_idempotence", key, case, format!("s(x)={o:?} s(s(x))={o2:?}")); } } }
                }
            }
        }}
    };
    let mut st = for_each_string(sigma, max_len, |x, _n, st| judge_text(x, st));
    for x in ["ab/cd", "x/00y", "007abc", "Feature/0042_x", "a.-.b", "0.00.000", "ab-", "-ab", "a--b.c", "release/1.2.3-rc.1"] { judge_text(x, &mut st); }
    st
}

fn template_layer(ctx: &Ctx, sets: &[Setting], built: &[Sanitizer], sigma: &[&str], max_len: usize) -> Stats {
    use zvharness::refmodel::ren::{RComp, RSchema, RVar, RVars};
    let schema = RSchema { core: vec![RComp::Var(RVar::Major)], extra_core: vec![], build: vec![] };
    // (1) text values: every string of the trie as the branch name
    let mut st = for_each_string(sigma, max_len, |x, _n, st| {
        st.inc("template_text_values");
        let v = RVars { major: Some(1), bumped_branch: Some(x.to_string()), custom: json!({"s": x}), ..Default::default() };
        let z = match bind::zerv(&schema, &v) { Ok(z) => z, Err(_) => return };
        judge_template(ctx, &z, "bumped_branch", x, "text", sets, built, st);
        if x.len() % 3 == 0 { judge_template(ctx, &z, "custom.s", x, "custom-text", sets, built, st); }
    });
    // (2) values that reach the function as numbers or booleans: variables, custom JSON leaves and template literals;
    // the function works on their decimal / textual form
    let nums: [u64; 14] = [0, 7, 10, 12, 100, 1000, 1234, 123456, 20240131, 4294967295, 4294967296, 9007199254740993, 9223372036854775807, u64::MAX];
    for n in nums {
        let text = n.to_string();
        let v = RVars { major: Some(n), distance: Some(n), bumped_timestamp: Some(n), dirty: Some(n % 2 == 0), custom: json!({"n": n, "neg": -(n.min(1 << 62) as i64), "f": (n.min(1 << 20) as f64) + 0.5, "b": n % 2 == 0}), ..Default::default() };
        let z = match bind::zerv(&schema, &v) { Ok(z) => z, Err(e) => machinery_error(&format!("cannot build object: {e}")) };
        for var in ["distance", "major", "bumped_timestamp", "custom.n"] { judge_template(ctx, &z, var, &text, "number", sets, built, &mut st); }
        if n <= i64::MAX as u64 { judge_template(ctx, &z, &text, &text, "number-literal", sets, built, &mut st); }
        judge_template(ctx, &z, "custom.neg", &(-(n.min(1 << 62) as i64)).to_string(), "negative-number", sets, built, &mut st);
        judge_template(ctx, &z, "custom.f", &json!((n.min(1 << 20) as f64) + 0.5).to_string(), "fraction", sets, built, &mut st);
        judge_template(ctx, &z, "custom.b", &(n % 2 == 0).to_string(), "boolean", sets, built, &mut st);
        judge_template(ctx, &z, "dirty", &(n % 2 == 0).to_string(), "boolean", sets, built, &mut st);
    }
    st
}

fn main() {
    let ctx = Ctx::from_args("C16", "model_checking");
    let sets = settings();
    let built: Vec<Sanitizer> = sets.iter().map(build).collect();

    if let Some(case) = ctx.replay_case() {
        if case["kind"] == "template" {
            // the template layer is small: re-run it; the recorded class shows up again if the violation is still there
            let _ = template_layer(&ctx, &sets, &built, &["a", "Z", "0", "1", ".", "-", "_", "é", "٣"], 3);
            let _ = overspecified_layer(&ctx, &["a", "Z", "0", "1", ".", "-", "_", "é", "٣"], 3);
            finish(&ctx, Coverage::default());
        }
        let x = case["input"].as_str().unwrap().to_string();
        let name = case["setting"].as_str().unwrap();
        let all_sets: Vec<Setting> = sets.iter().cloned().chain(big_settings()).collect();
        let set = all_sets.iter().find(|s| s.name == name).unwrap_or_else(|| machinery_error("unknown setting"));
        let mut st = Stats::default();
        if let Some((class, detail)) = judge(&x, set, &build(set), &mut st) {
            ctx.violation(&class, format!("{x:?} [{name}]"), case.clone(), detail);
        }
        finish(&ctx, Coverage::default());
    }

    let sigma9: Vec<&str> = vec!["a", "Z", "0", "1", ".", "-", "_", "é", "٣"];
    let sigma12: Vec<&str> = vec!["a", "Z", "0", "1", ".", "-", "_", "é", "٣", "\u{212A}", "İ", "€"];
    let (l9, l12) = if ctx.quick() { (5, 3) } else { (7, 5) };

    let explore = |alpha: &[&str], max_len: usize| -> Stats {
        for_each_string(alpha, max_len, |x, _n, st| {
            st.inc("strings");
            for (s, z) in sets.iter().zip(built.iter()) {
                st.inc("evaluations");
                if let Some((class, detail)) = judge(x, s, z, st) {
                    st.inc("violating_evaluations");
                    ctx.violation(&class, format!("{x:?} [{}]", s.name),
                        json!({"input": x, "setting": s.name}), detail);
                }
            }
            if x.chars().any(|c| c.is_ascii_alphanumeric()) && x.chars().any(|c| !c.is_ascii_alphanumeric()) {
                st.inc("nontrivial_strings");
            }
        })
    };
    let s9 = explore(&sigma9, l9);
    let s12 = explore(&sigma12, l12);
    // integer sanitiser on its own alphabet (sign characters, white space, non-ASCII digit) and on
    // long digit strings around the u32/u64/u128 boundaries (with and without leading zeros)
    let ui = sets.iter().position(|s| s.preset == Some("uint")).unwrap();
    let sigma_uint: Vec<&str> = vec!["0", "1", "9", "+", "-", " ", "\t", "a", ".", "٣"];
    let su = for_each_string(&sigma_uint, if ctx.quick() { 5 } else { 7 }, |x, _n, st| {
        st.inc("strings");
        st.inc("evaluations");
        st.inc("uint_space");
        if let Some((class, detail)) = judge(x, &sets[ui], &built[ui], st) {
            ctx.violation(&class, format!("{x:?} [{}]", sets[ui].name), json!({"input": x, "setting": sets[ui].name}), detail);
        }
    });
    let mut sb = Stats::default();
    for base in ["4294967295", "4294967296", "18446744073709551615", "18446744073709551616", "99999999999999999999",
        "340282366920938463463374607431768211455", "340282366920938463463374607431768211456", "1000000000000000000000000000000000000000000"] {
        for pre in ["", "0", "000", "+", "-", " "] {
            for suf in ["", "0", "a", " "] {
                let x = format!("{pre}{base}{suf}");
                for i in 0..sets.len() {
                    sb.inc("evaluations");
                    sb.inc("boundary_numerals");
                    if let Some((class, detail)) = judge(&x, &sets[i], &built[i], &mut sb) {
                        ctx.violation(&class, format!("{x:?} [{}]", sets[i].name), json!({"input": x, "setting": sets[i].name}), detail);
                    }
                }
                sb.inc("strings");
            }
        }
    }
    let s12 = s12.merge(su).merge(sb);
    // determinism replay: re-run a slice, digests must agree
    let d1 = explore(&sigma9, 3);
    let d2 = explore(&sigma9, 3);
    if d1.digest != d2.digest {
        machinery_error("determinism replay diverged");
    }
    // (L) length sweeps: repeated units of every length 0..=200 (thorough 600) under every setting, and under a second
    // group of settings whose max_length takes every value 0..=70 and a few beyond
    let s_len = {
        let big = big_settings();
        let big_built: Vec<Sanitizer> = big.iter().map(build).collect();
        let units = ["a", "0", "a.", ".a", "-", "a0.", "0.", "é", "aZ-", "00.", "1", "Z"];
        let nmax = if ctx.quick() { 200usize } else { 600 };
        use rayon::prelude::*;
        units.par_iter().map(|u| {
            let mut st = Stats::default();
            for n in 0..=nmax {
                let x = u.repeat(n);
                st.inc("strings"); st.inc("length_sweep_strings");
                for (set, blt) in sets.iter().zip(built.iter()).chain(big.iter().zip(big_built.iter())) {
                    st.inc("evaluations");
                    if let Some((class, detail)) = judge(&x, set, blt, &mut st) { ctx.violation(&class, format!("{:?} x {n} [{}]", u, set.name), json!({"input": x, "setting": set.name}), detail); }
                }
            }
            st
        }).reduce(Stats::default, Stats::merge)
    };
    // (t) the template function sanitize(...) on text, number and boolean values
    let stpl = template_layer(&ctx, &sets, &built, &sigma9, if ctx.quick() { 3 } else { 4 });
    let sover = overspecified_layer(&ctx, &sigma9, 3);
    let all = s9.clone().merge(s12.clone()).merge(stpl).merge(sover).merge(s_len);
    let mut cov = Coverage::default();
    cov.states = all.get("strings");
    cov.transitions = all.get("strings").saturating_sub(2);
    cov.evaluations = all.get("evaluations");
    cov.traces_validated = all.get("evaluations");
    cov.distinct_nontrivial = all.get("nontrivial_strings");
    cov.rule = format!("every string over Sigma9={sigma9:?} up to length {l9} and over Sigma12={sigma12:?} up to length {l12} (trie, exhaustive), each under {} sanitiser settings; (L) 12 repeated units at every length 0..=200 (thorough 600) under every setting and under max_length 0..=70, 100, 127, 128, 255, 256, 1000; (t) the template function sanitize(...) bound to the direct call: every string up to length 3 (thorough 4) as a text value, 14 numbers (0 .. 2^64-1) reaching it as variable / custom JSON number / template literal, negative, fractional and boolean values x every expressible setting; a string is non-trivial when it mixes ASCII alphanumerics with other characters (separators / non-ASCII), counted per alphabet", sets.len());
    cov.exhaustive = true;
    cov.samples = vec![
        json!({"input": "a.00Z", "setting": sets[4].name}),
        json!({"input": "é-01_٣", "setting": "preset=semver_str"}),
        json!({"input": "\u{212A}0İ", "setting": "preset=pep440_local_str"}),
    ];
    cov.set("clause_counts", all.to_json());
    cov.set("settings", sets.len() as u64);
    cov.set("bounds", json!({"sigma9_len": l9, "sigma12_len": l12}));
    cov.set("determinism_replays", d1.get("evaluations"));
    cov.assumptions = vec![
        "reference model R-SAN (harness/src/refmodel/san.rs) is the contract".into(),
        "characters outside the 12-symbol alphabet and strings longer than the bound are not explored".into(),
        "cut point under max_length, white-space-padded integer input and the separator-less configuration are only checked for invariants (DESIGN A.10)".into(),
    ];
    finish(&ctx, cov);
}
