//! C17 — timestamp patterns and CalVer components are the UTC calendar fields.
use rayon::prelude::*;
use serde_json::json;
use zerv::version::zerv::utils::timestamp::resolve_timestamp;
use zvharness::refmodel::{cal, semver as rsv};
use zvharness::zv::{self, Res};
use zvharness::*;

fn judge_pattern(ctx: &Ctx, p: &str, t: u64, st: &mut Stats) {
    st.inc("pattern_evaluations");
    let want = cal::field(p, t);
    match catch(|| resolve_timestamp(p, t)) {
        Ok(Ok(got)) => {
            st.observe(&(p, t, &got));
            if got != want {
                ctx.violation(&format!("pattern_{p}_mismatch"), format!("{p} @ {t}"), json!({"kind":"pattern","pattern":p,"t":t}), format!("resolved {got:?}, UTC calendar field is {want:?}"));
            }
        }
        Ok(Err(e)) => ctx.violation("pattern_rejected", format!("{p} @ {t}"), json!({"kind":"pattern","pattern":p,"t":t}), format!("error {e}")),
        Err(pn) => ctx.violation(&format!("panic@{}", pn.file()), format!("{p} @ {t}"), json!({"kind":"pattern","pattern":p,"t":t}), pn.message),
    }
}

fn strip(d: &str) -> String {
    let s = d.trim_start_matches('0');
    if s.is_empty() { "0".into() } else { s.into() }
}

/// CalVer presets: the SemVer core must be year.month.day (UTC) of the bumped timestamp.
fn judge_calver(ctx: &Ctx, preset: &str, t: u64, fmt: &str, st: &mut Stats) { judge_calver_state(ctx, preset, t, fmt, "0.0.7", &[], st) }

/// ... in every version state: `tag` (its patch number is the fourth release number) and state flags (dirty, distance)
fn judge_calver_state(ctx: &Ctx, preset: &str, t: u64, fmt: &str, tag: &str, flags: &[&str], st: &mut Stats) {
    st.inc("calver_evaluations");
    let ts = t.to_string();
    let mut args = vec!["version", "--source", "none", "--schema", preset, "--bumped-timestamp", &ts, "--tag-version", tag, "--output-format", fmt];
    args.extend(flags);
    let patch = rsv::parse(tag).map(|p| p.core[2].clone()).unwrap_or_default();
    let case = || json!({"kind":"calver","preset":preset,"t":t,"format":fmt,"tag":tag,"flags":flags});
    let key = || if tag == "0.0.7" && flags.is_empty() { format!("{preset} @ {t} [{fmt}]") } else { format!("{preset} @ {t} [{fmt}] tag {tag} {}", flags.join(" ")) };
    let c = cal::civil(t);
    // a dirty state replaces the timestamp by the (pinned) wall clock by design
    let c = if flags.contains(&"--dirty") { cal::civil(ctx.pinned_now()) } else { c };
    match zv::run_cli(&args, None) {
        Ok(Res::Ok(out)) => {
            st.observe(&(preset, t, &out));
            let ok = if fmt == "semver" {
                rsv::parse(&out).map(|p| p.core == [c.year.to_string(), c.month.to_string(), c.day.to_string()]).unwrap_or(false)
            } else {
                out.split_once('!').map(|x| x.1).unwrap_or(&out).starts_with(&format!("{}.{}.{}.{patch}", c.year, c.month, c.day))
            };
            if !ok {
                ctx.violation("calver_date_mismatch", key(), case(), format!("printed {out:?}, UTC date is {}-{}-{}", c.year, c.month, c.day));
            }
        }
        Ok(other) => ctx.violation("calver_failed", key(), case(), format!("{other:?}")),
        Err(p) => ctx.violation(&format!("panic@{}", p.file()), key(), case(), p.message),
    }
}

/// a schema naming the pattern is accepted and the component contributes its value (as build id,
/// where the SemVer sanitiser strips leading zeros)
fn judge_schema_pattern(ctx: &Ctx, p: &str, t: u64, section: &str, st: &mut Stats) {
    st.inc("schema_pattern_evaluations");
    let ts = t.to_string();
    let ron = match section {
        "build" => format!("(core:[var(Major),var(Minor),var(Patch)],extra_core:[],build:[var(ts(\"{p}\"))])"),
        "extra_core" => format!("(core:[var(Major),var(Minor),var(Patch)],extra_core:[var(ts(\"{p}\"))],build:[])"),
        _ => format!("(core:[var(Major),var(Minor),var(Patch),var(ts(\"{p}\"))],extra_core:[],build:[])"),
    };
    let args = ["version", "--source", "none", "--schema-ron", &ron, "--bumped-timestamp", &ts, "--tag-version", "1.2.3"];
    let want_val = strip(&cal::field(p, t));
    let want = if section == "build" { format!("1.2.3+{want_val}") } else { format!("1.2.3-{want_val}") };
    let case = || json!({"kind":"schema","pattern":p,"t":t,"section":section});
    match zv::run_cli(&args, None) {
        Ok(Res::Ok(out)) => {
            if out != want {
                ctx.violation("schema_pattern_value", format!("ts({p}) in {section} @ {t}"), case(), format!("printed {out:?}, expected {want:?}"));
            }
        }
        Ok(other) => ctx.violation("schema_pattern_rejected", format!("ts({p}) in {section}"), case(), format!("{other:?}")),
        Err(pn) => ctx.violation(&format!("panic@{}", pn.file()), format!("ts({p}) in {section}"), case(), pn.message),
    }
}

/// bumped_timestamp wins over last_timestamp; last_timestamp is the fallback; neither => no date
fn judge_precedence(ctx: &Ctx, bumped: Option<u64>, last: Option<u64>, st: &mut Stats) {
    st.inc("precedence_evaluations");
    let f = |o: Option<u64>| o.map(|v| format!("Some({v})")).unwrap_or("None".into());
    let doc = format!("(schema:(core:[var(ts(\"YYYY\")),var(ts(\"MM\")),var(ts(\"DD\")),var(Patch)],extra_core:[],build:[]),vars:(major:Some(0),minor:Some(0),patch:Some(7),bumped_timestamp:{},last_timestamp:{},custom:()))", f(bumped), f(last));
    let args = ["version", "--source", "stdin"];
    let case = || json!({"kind":"precedence","bumped":bumped,"last":last});
    let key = || format!("bumped={bumped:?} last={last:?}");
    let want = match bumped.or(last) {
        Some(t) => { let c = cal::civil(t); format!("{}.{}.{}-7", c.year, c.month, c.day) }
        None => "7.0.0".to_string(),
    };
    match zv::run_cli(&args, Some(&doc)) {
        Ok(Res::Ok(out)) => {
            if out != want { ctx.violation("timestamp_source_precedence", key(), case(), format!("printed {out:?}, expected {want:?}")); }
        }
        Ok(other) => ctx.violation("precedence_failed", key(), case(), format!("{other:?}")),
        Err(p) => ctx.violation(&format!("panic@{}", p.file()), key(), case(), p.message),
    }
}

fn main() {
    // make a dependence on the local time zone observable in-process (the statement says UTC)
    unsafe { std::env::set_var("TZ", "JST-9") };
    let ctx = Ctx::from_args("C17", "model_checking");
    if let Some(case) = ctx.replay_case() {
        let mut st = Stats::default();
        let t = case["t"].as_u64().unwrap_or(0);
        match case["kind"].as_str() {
            Some("pattern") => judge_pattern(&ctx, case["pattern"].as_str().unwrap(), t, &mut st),
            Some("calver") => {
                let flags: Vec<String> = case["flags"].as_array().map(|v| v.iter().filter_map(|x| x.as_str().map(String::from)).collect()).unwrap_or_default();
                let flags: Vec<&str> = flags.iter().map(|x| x.as_str()).collect();
                judge_calver_state(&ctx, case["preset"].as_str().unwrap(), t, case["format"].as_str().unwrap_or("semver"), case["tag"].as_str().unwrap_or("0.0.7"), &flags, &mut st)
            }
            Some("schema") => judge_schema_pattern(&ctx, case["pattern"].as_str().unwrap(), t, case["section"].as_str().unwrap(), &mut st),
            Some("precedence") => judge_precedence(&ctx, case["bumped"].as_u64(), case["last"].as_u64(), &mut st),
            _ => machinery_error("bad replay kind"),
        }
        finish(&ctx, Coverage::default());
    }
    let quick = ctx.quick();
    // days 1970-01-01 .. 2199-12-31
    let last_day: u64 = {
        // find the day index whose civil date is 2199-12-31
        let mut d = 84000u64;
        loop { let c = cal::civil(d * 86400); if c.year == 2199 && c.month == 12 && c.day == 31 { break d; } d += 1; if d > 85000 { machinery_error("calendar self-test failed"); } }
    };
    // R-CAL self-test against fixed known instants (guards the model, not zerv)
    for (t, want) in [(0u64, "19700101000000"), (951782400, "20000229000000"), (4107542399, "21000228235959"), (1709247600, "20240229230000"), (7258118399, "21991231235959")] {
        if cal::field("compact_datetime", t) != want { machinery_error(&format!("R-CAL self-test failed at {t}")); }
    }
    let secs: Vec<u64> = if quick { vec![0, 86399] } else { (0..24).map(|h| h * 3600).chain([86399, 3599, 43261]).collect() };
    let s1 = (0..=last_day).into_par_iter().map(|d| {
        let mut st = Stats::default();
        st.inc("days");
        for s in &secs {
            for p in cal::PATTERNS { judge_pattern(&ctx, p, d * 86400 + s, &mut st); }
        }
        st
    }).reduce(Stats::default, Stats::merge);
    // the far future: every 97th day (thorough: every 7th) from 2200-01-01 to 9999-12-31, first and last second, plus the instants
    // around 2^31, 2^32, 2^33 and i64::MAX / 10^9 seconds (the nanosecond range of a 64-bit clock ends on 2262-04-11)
    let far_last: u64 = 2_932_896; // day index of 9999-12-31
    if cal::field("compact_datetime", far_last * 86400 + 86399) != "99991231235959" { machinery_error("R-CAL self-test failed at 9999-12-31"); }
    let stride = if quick { 97 } else { 7 };
    let far_days: Vec<u64> = ((last_day + 1)..=far_last).step_by(stride).chain([far_last]).collect();
    let s1b = far_days.par_iter().map(|&d| {
        let mut st = Stats::default();
        st.inc("far_future_days");
        for s in [0u64, 86399] { for p in cal::PATTERNS { judge_pattern(&ctx, p, d * 86400 + s, &mut st); } }
        st
    }).reduce(Stats::default, Stats::merge);
    let mut s1c = Stats::default();
    for t in [2147483647u64, 2147483648, 4294967295, 4294967296, 8589934592, 9223372035, 9223372036, 9223372037, 9223372038, 10000000000, 32503680000, 99999999999, 253402300799] {
        for p in cal::PATTERNS { judge_pattern(&ctx, p, t, &mut s1c); }
        judge_calver(&ctx, "calver-base", t, "semver", &mut s1c);
    }
    let s1 = s1.merge(s1b).merge(s1c);
    // every second of boundary days
    let boundary_days: Vec<u64> = [(2000, 2, 28), (2000, 2, 29), (2000, 3, 1), (2100, 2, 28), (2100, 3, 1), (1999, 12, 31), (2000, 1, 1), (2024, 12, 29), (2024, 12, 30), (2018, 12, 31), (2019, 1, 1), (1970, 1, 1)]
        .iter().map(|&(y, m, d)| (0..=last_day).find(|&x| { let c = cal::civil(x * 86400); c.year == y && c.month == m && c.day == d }).unwrap()).collect();
    let s2 = boundary_days.par_iter().map(|&d| {
        let mut st = Stats::default();
        let step = if quick { 7 } else { 1 };
        let mut s = 0;
        while s < 86400 { for p in cal::PATTERNS { judge_pattern(&ctx, p, d * 86400 + s, &mut st); } s += step; }
        st.inc("boundary_days");
        st
    }).reduce(Stats::default, Stats::merge);

    // calver presets through the real pipeline
    let cal_days: Vec<u64> = (0..=last_day).filter(|&d| {
        if !quick { return true; }
        let c = cal::civil(d * 86400); let n = cal::civil((d + 1) * 86400);
        c.day == 1 || n.day == 1 || (c.month == 2 && c.day == 28)
    }).collect();
    let s3 = cal_days.par_iter().map(|&d| {
        let mut st = Stats::default();
        for (i, preset) in zv::CALVER_PRESETS.iter().enumerate() {
            for s in [0u64, 86399] {
                // every preset at both ends of the day in semver; pep440 on a rotating preset
                judge_calver(&ctx, preset, d * 86400 + s, "semver", &mut st);
                if (d as usize + i) % 11 == 0 { judge_calver(&ctx, preset, d * 86400 + s, "pep440", &mut st); }
            }
        }
        st
    }).reduce(Stats::default, Stats::merge);

    // ... and in every version state (final / pre-release / post / pre+post / pre+post+dev / epoch tag x clean, ahead, dirty):
    // the smart presets pick their tier from that state, the date must be there in each
    let s3 = {
        let mut st = s3;
        let tags = ["1.2.3", "1.2.3-rc.1", "1.2.3-post.4", "1.2.3-rc.1.post.4", "1.2.3-alpha.0.post.0", "1.2.3-rc.1.post.4.dev.5", "1.2.3-dev.5", "1.2.3-epoch.2.beta.1.post.3"];
        let states: [&[&str]; 6] = [&[], &["--distance", "3"], &["--dirty"], &["--distance", "3", "--dirty"], &["--clean"], &["--distance", "0", "--no-dirty"]];
        for preset in zv::CALVER_PRESETS.iter() { for tag in tags { for flags in states { for t in [1709251199u64, 1735689600, 951782400] { for fmt in ["semver", "pep440"] {
            st.inc("calver_state_evaluations");
            judge_calver_state(&ctx, preset, t, fmt, tag, flags, &mut st);
        }}}}}
        st
    };

    // each documented name in a schema, in each section, at representative instants
    let mut s4 = Stats::default();
    for p in cal::PATTERNS {
        for section in ["core", "extra_core", "build"] {
            for t in [0u64, 1, 951782400, 1709247600, 1710511845, 4107542399, 7258118399, 1230768000 + 86400 * 4] {
                judge_schema_pattern(&ctx, p, t, section, &mut s4);
            }
        }
    }
    // timestamp source precedence
    for b in [None, Some(0u64), Some(1709247600)] { for l in [None, Some(0u64), Some(86400 * 365), Some(4107542399)] { judge_precedence(&ctx, b, l, &mut s4); } }

    // real git: CalVer prints the UTC date of the *commit* time of HEAD (committer date; the author date differs by 500
    // days and carries a +0900 zone), also when HEAD is detached at the tag
    let s6 = {
        use zvharness::gitx::{self, DateMode, Head, Repo, Shape, Tag};
        for (k, v) in gitx::git_env() { unsafe { std::env::set_var(k, v) }; }
        let root = gitx::scratch_root();
        let _ = std::fs::create_dir_all(&root);
        let instants: Vec<u64> = vec![86400 * 2, 951782400, 951868799, 1230767999, 1230768000, 1709251199, 1709251200, 1735516800, 1767225599, 4107542399, 4107542400, 7258118399];
        let shape = Shape { parents: vec![vec![], vec![0]], branches: [("main".to_string(), 1)].into_iter().collect(), cur: "main".into(), ops: vec!["commit".into()] };
        let _ = DateMode::Increasing;
        let st = instants.par_iter().enumerate().map(|(ti, &t)| {
            let mut st = Stats::default();
            let t0 = t - 86400 - 3600; // the tagged commit: previous day, different hour
            let mut repo = Repo::create(&root, &format!("cal{ti}"), &shape, &[t0 as i64, t as i64]);
            repo.set_tags(&[Tag { name: "v0.0.7".into(), target: 0, annotated: ti % 2 == 0 }]);
            for (head, ht) in [(Head::Branch("main".into()), t), (Head::Detached(0), t0)] {
                repo.set_head(&head);
                let dir = repo.dir.to_string_lossy().to_string();
                let c = cal::civil(ht);
                for preset in zv::CALVER_PRESETS {
                    st.inc("git_calver_evaluations");
                    let args = ["version", "-C", &dir, "--schema", preset, "--output-format", "semver"];
                    let key = format!("git {preset} head {head:?} commit time {ht}");
                    match zv::run_cli(&args, None) {
                        Ok(Res::Ok(out)) => { let ok = rsv::parse(&out).map(|p| p.core == [c.year.to_string(), c.month.to_string(), c.day.to_string()]).unwrap_or(false); if !ok { ctx.violation("git_calver_date_mismatch", key, json!({"kind":"git-calver","t":ht,"preset":preset}), format!("printed {out:?}, UTC date of the commit time is {}-{}-{}", c.year, c.month, c.day)); } }
                        other => ctx.violation("calver_failed", key, json!({"kind":"git-calver","t":ht}), format!("{other:?}")),
                    }
                }
                // --clean (distance 0, not dirty) changes neither timestamp: the date is still the commit time of HEAD
                {
                    let c = cal::civil(ht);
                    for (extra, label) in [(vec!["--clean"], "--clean"), (vec!["--no-dirty"], "--no-dirty"), (vec!["--distance", "0"], "--distance 0"), (vec!["--bumped-branch", "x"], "--bumped-branch x")] { for preset in ["calver-base", "calver"] {
                        st.inc("git_calver_evaluations");
                        let mut args = vec!["version", "-C", &dir, "--schema", preset, "--output-format", "semver"]; args.extend(extra.iter());
                        match zv::run_cli(&args, None) {
                            Ok(Res::Ok(out)) => { let ok = rsv::parse(&out).map(|p| p.core == [c.year.to_string(), c.month.to_string(), c.day.to_string()]).unwrap_or(false); if !ok { ctx.violation("git_calver_date_mismatch", format!("git {preset} {label} head {head:?} commit time {ht}"), json!({"kind":"git-calver","t":ht,"preset":preset,"flag":label}), format!("printed {out:?}, UTC date of the commit time is {}-{}-{}", c.year, c.month, c.day)); } }
                            other => ctx.violation("calver_failed", format!("git {preset} {label} @ {ht}"), json!({"kind":"git-calver","t":ht}), format!("{other:?}")),
                        }
                    }}
                }
                // an explicit --bumped-timestamp T2 is the commit time for every pattern, wherever HEAD stands (on the tag or ahead of
                // it), alone, with the state flags, and when given to a second run that reads the first run's object from stdin
                {
                    for t2 in [1710511845u64, 86399] {
                        let c2 = cal::civil(t2);
                        let t2s = t2.to_string();
                        let want_core = [c2.year.to_string(), c2.month.to_string(), c2.day.to_string()];
                        let judge_out = |r: Result<Res, PanicInfo>, label: String, st: &mut Stats| {
                            st.inc("git_calver_evaluations"); st.inc("explicit_timestamp_on_git_runs");
                            match r {
                                Ok(Res::Ok(out)) => { let ok = rsv::parse(&out).map(|p| p.core == want_core).unwrap_or(false); if !ok { ctx.violation("git_explicit_timestamp_ignored", label, json!({"kind":"git-calver","t":ht,"t2":t2}), format!("printed {out:?}, --bumped-timestamp {t2} is {}-{}-{} UTC", c2.year, c2.month, c2.day)); } }
                                other => ctx.violation("calver_failed", label, json!({"kind":"git-calver","t":ht}), format!("{other:?}")),
                            }
                        };
                        for extra in [vec![], vec!["--clean"], vec!["--no-dirty"], vec!["--distance", "2"], vec!["--bumped-commit-hash", "gabc1234"], vec!["--dirty"]] { for preset in ["calver-base", "calver", "calver-base-prerelease-post-dev-context"] {
                            let mut args = vec!["version", "-C", &dir, "--schema", preset, "--output-format", "semver", "--bumped-timestamp", &t2s]; args.extend(extra.iter());
                            // a dirty tree takes the wall clock by design (C12-I): not an explicit-timestamp case
                            if extra == vec!["--dirty"] { continue; }
                            judge_out(zv::run_cli(&args, None), format!("git {preset} --bumped-timestamp {t2} {} head {head:?} commit time {ht}", extra.join(" ")), &mut st);
                        }}
                        if let Ok(Res::Ok(doc)) = zv::run_cli(&["version", "-C", &dir, "--output-format", "zerv"], None) {
                            judge_out(zv::run_cli(&["version", "--source", "stdin", "--schema", "calver-base", "--output-format", "semver", "--bumped-timestamp", &t2s], Some(&doc)), format!("git object on stdin, then --bumped-timestamp {t2}, head {head:?} commit time {ht}"), &mut st);
                        }
                        if let Ok(Res::Ok(doc)) = zv::run_cli(&["version", "-C", &dir, "--output-format", "zerv", "--bumped-timestamp", &t2s], None) {
                            judge_out(zv::run_cli(&["version", "--source", "stdin", "--schema", "calver-base", "--output-format", "semver"], Some(&doc)), format!("--bumped-timestamp {t2} on git, object piped to a second run, head {head:?} commit time {ht}"), &mut st);
                        }
                    }
                }
                // without the bump context the date falls back to the *tagged commit's* commit time (t0), not to the time an
                // annotated tag object was written (40 days later in these repositories)
                // ... whatever the tag is called: names that are themselves calendar dates (the day after the tagged commit, the
                // same day, far in the future), that contain the commit time as a number, or that carry a pre-release
                if matches!(head, Head::Branch(_)) {
                    let c0 = cal::civil(t0);
                    let next = cal::civil(t0 + 86_400);
                    let names: Vec<String> = vec!["v0.0.7".into(), format!("v{}.{}.{}", next.year, next.month, next.day), format!("{}.{:02}.{:02}", next.year, next.month, next.day), format!("v{}.{}.{}", c0.year, c0.month, c0.day),
                        "v2099.12.31".into(), "v9999.12.31".into(), format!("v{t0}.0.0"), format!("v{}.{}.{}-rc.1", next.year, next.month, next.day), format!("v{}{:02}{:02}.0.0", next.year, next.month, next.day), "v1970.1.1".into()];
                    for (ni, tag_name) in names.iter().enumerate() {
                    repo.set_tags(&[Tag { name: tag_name.clone(), target: 0, annotated: (ti + ni) % 2 == 0 }]);
                    for preset in ["calver-base", "calver"] { for fmt in ["semver", "pep440"] {
                        st.inc("git_calver_evaluations");
                        let args = ["version", "-C", &dir, "--schema", preset, "--no-bump-context", "--output-format", fmt];
                        match zv::run_cli(&args, None) {
                            Ok(Res::Ok(out)) => { let want = format!("{}.{}.{}", c0.year, c0.month, c0.day); if !out.starts_with(&want) { ctx.violation("git_calver_tag_time_fallback_mismatch", format!("git {preset} --no-bump-context [{fmt}] tag {tag_name} tag commit time {t0}"), json!({"kind":"git-calver-fallback","t":t0,"preset":preset}), format!("printed {out:?}, the tagged commit's UTC date is {want}")); } }
                            other => ctx.violation("calver_failed", format!("git {preset} --no-bump-context @ {t0}"), json!({"kind":"git-calver-fallback","t":t0}), format!("{other:?}")),
                        }
                    }}
                    }
                    repo.set_tags(&[Tag { name: "v0.0.7".into(), target: 0, annotated: ti % 2 == 0 }]);
                }
                for p in cal::PATTERNS {
                    st.inc("git_pattern_evaluations");
                    let ron = format!("(core:[var(Major),var(Minor),var(Patch)],extra_core:[],build:[str(\"t\"),var(ts(\"{p}\"))])");
                    let args = ["version", "-C", &dir, "--schema-ron", &ron, "--output-format", "semver"];
                    let want = format!("0.0.7+t.{}", strip(&cal::field(p, ht)));
                    match zv::run_cli(&args, None) {
                        Ok(Res::Ok(out)) => if out != want { ctx.violation("git_pattern_mismatch", format!("git ts({p}) head {head:?} commit time {ht}"), json!({"kind":"git-pattern","t":ht,"pattern":p}), format!("printed {out:?}, expected {want:?}")); },
                        other => ctx.violation("calver_failed", format!("git ts({p}) @ {ht}"), json!({"kind":"git-pattern","t":ht}), format!("{other:?}")),
                    }
                }
            }
            repo.remove();
            st
        }).reduce(Stats::default, Stats::merge);
        let _ = std::fs::remove_dir_all(&root);
        st
    };

    // process conformance: a slice of calver runs through the real binary under two different TZ
    let mut s5 = Stats::default();
    for (i, preset) in zv::CALVER_PRESETS.iter().enumerate() {
        for t in [0u64, 951868799, 1709247600 + i as u64 * 86400 * 31] {
            let ts = t.to_string();
            let args = ["version", "--source", "none", "--schema", preset, "--bumped-timestamp", &ts, "--tag-version", "0.0.7"];
            let inproc = zv::run_cli(&args, None);
            // ... and under the environment profiles of C14 (terminal variables incl. SOURCE_DATE_EPOCH, CI systems): the
            // date is the commit's, whatever else the environment says about dates
            for prof in 1..zvharness::envp::PROFILES {
                let env = zvharness::envp::profile_env(prof);
                for extra in [&[][..], &["--output-template", "{{ bumped_timestamp }}/{{ format_timestamp(value=bumped_timestamp, format=\"compact_datetime\") }}"][..], &["--no-bump-context", "--output-format", "pep440"][..]] {
                    let a2: Vec<&str> = args.iter().copied().chain(extra.iter().copied()).collect();
                    let want = zv::run_cli(&a2, None);
                    let o = zv::run_bin(&a2, None, &env, None);
                    s5.inc("process_conformance_cases"); s5.inc("environment_profile_runs");
                    if let Err(e) = zv::conforms(&want, &o) { ctx.violation("calver_depends_on_environment", format!("{preset} @ {t} profile {prof} {}", extra.join(" ")), json!({"kind":"calver","preset":preset,"t":t,"format":"semver"}), e); }
                }
            }
            for tz in ["UTC", "JST-9", "PST8"] {
                let o = zv::run_bin(&args, None, &[("TZ", tz)], None);
                s5.inc("process_conformance_cases");
                if let Err(e) = zv::conforms(&inproc, &o) {
                    ctx.violation("binary_differs_from_inprocess", format!("{preset} @ {t} TZ={tz}"), json!({"kind":"calver","preset":preset,"t":t,"format":"semver"}), e);
                }
            }
        }
    }
    // determinism
    let d = |()| { let mut st = Stats::default(); for t in 0..2000u64 { for p in cal::PATTERNS { judge_pattern(&ctx, p, t * 40000, &mut st); } } st.digest };
    if d(()) != d(()) { machinery_error("determinism replay diverged"); }

    let all = s1.clone().merge(s2).merge(s3).merge(s4).merge(s5.clone()).merge(s6);
    let mut cov = Coverage::default();
    cov.states = all.get("pattern_evaluations") / 16 + all.get("calver_evaluations") + all.get("schema_pattern_evaluations") + all.get("precedence_evaluations") + all.get("git_calver_evaluations") + all.get("git_pattern_evaluations");
    cov.transitions = cov.states;
    cov.evaluations = all.get("pattern_evaluations") + all.get("calver_evaluations") + all.get("schema_pattern_evaluations") + all.get("precedence_evaluations") + all.get("git_calver_evaluations") + all.get("git_pattern_evaluations");
    cov.traces_validated = cov.evaluations;
    cov.distinct_nontrivial = s1.get("days") * secs.len() as u64 * 16;
    cov.rule = format!("resolve_timestamp on every day 1970-01-01..2199-12-31 ({} days) at seconds-of-day {secs:?} x 16 patterns, every 97th (thorough 7th) day 2200-01-01..9999-12-31 and 13 instants around 2^31 / 2^32 / 2^33 / i64::MAX ns / year 9999, plus every {} second of 12 boundary days (leap days 2000/2100, year ends, week-53 years); the 11 calver presets through the in-process `zerv version --source none --bumped-timestamp` pipeline on {} days x first/last second, and in 8 version states of the tag (final, pre-release, post, pre+post, pre+post+dev, dev, epoch) x 6 state flag sets (clean, ahead, dirty, both, --clean, --distance 0 --no-dirty) x 3 instants x both formats; each pattern by name in a --schema-ron in each section; bumped/last timestamp precedence table via stdin RON; real git repositories at 12 boundary instants (commit time = committer date, author date 500 days off with a +0900 zone; HEAD on the branch and detached at the tag) x 11 calver presets x 16 patterns. a slice through the real binary under three TZ values and under the three non-empty environment profiles of C14 (SOURCE_DATE_EPOCH, CI variables). The harness runs with TZ=JST-9 so that any local-time dependence is visible. non-trivial = (day, second, pattern) triples of the daily sweep", last_day + 1, if quick { "7th" } else { "single" }, cal_days.len());
    cov.exhaustive = true;
    cov.samples = vec![json!({"pattern":"0W","t":951782400u64,"expected":cal::field("0W", 951782400)}), json!({"preset":"calver-base","t":4107542399u64}), json!({"schema":"ts(\"compact_datetime\") in build","t":1709247600u64})];
    cov.set("clause_counts", all.to_json());
    cov.set("process_conformance_cases", s5.get("process_conformance_cases"));
    cov.assumptions = vec!["reference calendar R-CAL (days-from-civil, harness/src/refmodel/cal.rs) with a fixed-instant self-test".into(), "instants between the explored seconds of a day are covered only on the 12 boundary days".into(), "fixed-width forms are observable only at resolve_timestamp (the SemVer/PEP 440 sanitisers strip leading zeros by design)".into()];
    finish(&ctx, cov);
}
