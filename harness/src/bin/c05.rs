//! C05 — override, bump and reset semantics follow the precedence order.
use std::str::FromStr;

use rayon::prelude::*;
use serde_json::json;
use zerv::version::Zerv;
use zvharness::refmodel::bump::{self, Field, Op, Outcome, Section, State};
use zvharness::refmodel::ren::RComp;
use zvharness::zv::{self, Res};
use zvharness::*;

#[derive(Clone)]
struct Start {
    name: &'static str,
    args: Vec<String>,
    stdin: Option<String>,
}

fn a(v: &[&str]) -> Vec<String> { v.iter().map(|s| s.to_string()).collect() }

fn starts() -> Vec<Start> {
    let big = format!("(schema:(core:[var(Major),var(Minor),var(Patch)],extra_core:[var(Epoch),var(PreRelease),var(Post),var(Dev)],build:[]),vars:(major:Some({}),minor:Some(1),patch:Some(4294967295),post:Some(18446744073709551615),bumped_branch:Some(\"br\"),custom:()))", u64::MAX - 1);
    vec![
        Start { name: "1.2.3", args: a(&["--source", "none", "--tag-version", "1.2.3"]), stdin: None },
        Start { name: "1.2.3-rc.4", args: a(&["--source", "none", "--tag-version", "1.2.3-rc.4"]), stdin: None },
        Start { name: "1!1.2.3a1.post2.dev3", args: a(&["--source", "none", "--input-format", "pep440", "--tag-version", "1!1.2.3a1.post2.dev3"]), stdin: None },
        Start { name: "0.0.0", args: a(&["--source", "none", "--tag-version", "0.0.0"]), stdin: None },
        Start { name: "1.2.3-alpha.1.post.2+b", args: a(&["--source", "none", "--tag-version", "1.2.3-alpha.1.post.2+b", "--bumped-branch", "main"]), stdin: None },
        Start { name: "stdin-u64max", args: a(&["--source", "stdin"]), stdin: Some(big) },
        // a source that carries an epoch, a pre-release, post and dev of its own (a --tag-version override must replace all of it)
        Start { name: "stdin-epoch", args: a(&["--source", "stdin"]), stdin: Some("(schema:(core:[var(Major),var(Minor),var(Patch)],extra_core:[var(Epoch),var(PreRelease),var(Post),var(Dev)],build:[]),vars:(epoch:Some(3),major:Some(1),minor:Some(2),patch:Some(3),pre_release:Some((label:Beta,number:Some(4))),post:Some(5),dev:Some(6),bumped_branch:Some(\"br\"),custom:{}))".to_string()) },
        // a pre-release at number 0 with post and dev behind it: an operation that "changes nothing" at its own level (label
        // bump to the same label, bump by 0, override to the present value) must still reset what lies below
        // a pre-release label without a number (beta, not the default alpha): operations on the number keep the label
        Start { name: "1.2.3-beta", args: a(&["--source", "none", "--tag-version", "1.2.3-beta"]), stdin: None },
        Start { name: "1.2.3-beta.0.post.2.dev.1", args: a(&["--source", "none", "--tag-version", "1.2.3-beta.0.post.2.dev.1"]), stdin: None },
    ]
}

fn schemas() -> Vec<(&'static str, Vec<String>)> {
    vec![
        ("standard-base-prerelease-post-dev", a(&["--schema", "standard-base-prerelease-post-dev"])),
        ("ron-literals", a(&["--schema-ron", "(core:[var(Major),var(Minor),var(Patch),uint(5),str(\"x\")],extra_core:[var(Epoch),var(PreRelease),uint(7),var(Post),var(Dev),str(\"e\")],build:[str(\"b\"),uint(9),var(BumpedBranch),var(ts(\"YYYY\"))])"])),
        ("calver-base", a(&["--schema", "calver-base"])),
        // secondary variables in reverse order, no Major, literals between variables: index -> field mapping must follow the schema
        ("ron-reordered", a(&["--schema-ron", "(core:[uint(1),var(Minor),str(\"s\"),var(Patch)],extra_core:[var(Dev),uint(0),var(Post),var(PreRelease),var(Epoch)],build:[uint(2)])"])),
    ]
}

fn parse_state(ron: &str) -> Result<State, String> {
    let z = Zerv::from_str(ron).map_err(|e| format!("cannot read back zerv RON: {e}"))?;
    Ok(State { schema: bind::rschema(&z.schema), vars: bind::rvars(&z.vars) })
}

fn run(start: &Start, schema: &[String], ops_argv: &[String]) -> Result<Res, PanicInfo> {
    let mut args = vec!["version".to_string()];
    args.extend(start.args.iter().cloned());
    args.extend(schema.iter().cloned());
    args.extend(ops_argv.iter().cloned());
    args.extend(a(&["--output-format", "zerv"]));
    zv::run_cli(&args, start.stdin.as_deref())
}

thread_local! { static TAG_OVERRIDE_OK: std::cell::Cell<bool> = const { std::cell::Cell::new(false) }; }

fn alphabet_for(env: &Env, full: bool) -> Vec<Op> {
    TAG_OVERRIDE_OK.with(|c| c.set(env.start.stdin.is_some()));
    let v = alphabet(&env.init, full);
    TAG_OVERRIDE_OK.with(|c| c.set(false));
    v
}

fn alphabet(st: &State, full: bool) -> Vec<Op> {
    let mut v = vec![];
    // the stdin starts carry their own version: there a --tag-version override is one more operation (the other starts
    // already pass --tag-version, and clap refuses the flag twice)
    if TAG_OVERRIDE_OK.with(|c| c.get()) { v.push(Op::TagVersion("9.8.7")); if full { v.push(Op::TagVersion("4.5.6-rc.2")); } }
    for f in [Field::Epoch, Field::Major, Field::Minor, Field::Patch, Field::PreNum, Field::Post, Field::Dev] {
        v.push(Op::Override(f.clone(), 0));
        v.push(Op::Override(f.clone(), 3));
        v.push(Op::Bump(f.clone(), 1));
        if full || matches!(f, Field::Major | Field::PreNum | Field::Post) { v.push(Op::Bump(f.clone(), 2)); }
        if full || matches!(f, Field::Minor | Field::Post) { v.push(Op::Bump(f.clone(), 0)); }
    }
    v.push(Op::OverrideLabel("alpha"));
    v.push(Op::OverrideLabel("rc"));
    v.push(Op::BumpLabel("beta"));
    if full { v.push(Op::BumpLabel("alpha")); v.push(Op::BumpLabel("rc")); }
    v.extend([Op::Distance(4), Op::Dirty, Op::NoDirty, Op::Clean, Op::NoBumpContext]);
    for (sec, comps) in [(Section::Core, &st.schema.core), (Section::ExtraCore, &st.schema.extra_core), (Section::Build, &st.schema.build)] {
        let len = comps.len();
        for (i, c) in comps.iter().enumerate() {
            let val = if matches!(c, RComp::Str(_)) { "z" } else { "4" };
            v.push(Op::SecOverride(sec.clone(), i.to_string(), val.into()));
            v.push(Op::SecBump(sec.clone(), i.to_string(), None));
            // the value zero: an override to 0 and a bump by 0 (a pure reset of the lower levels) are ordinary operations
            if !matches!(c, RComp::Str(_)) && (full || i % 2 == 1) { v.push(Op::SecOverride(sec.clone(), i.to_string(), "0".into())); }
            // text with the punctuation that option parsers like to split on: the value of a spec is everything after the first '='
            if matches!(c, RComp::Str(_)) && !comps[..i].iter().any(|p| matches!(p, RComp::Str(_))) {
                v.push(Op::SecOverride(sec.clone(), i.to_string(), "a,b".into()));
                if full { v.push(Op::SecOverride(sec.clone(), i.to_string(), "p q;r:s,t".into())); }
            }
        }
        if len > 0 {
            let lastval = if matches!(comps[len - 1], RComp::Str(_)) { "y" } else { "6" };
            v.push(Op::SecOverride(sec.clone(), "-1".into(), lastval.into()));
            v.push(Op::SecBump(sec.clone(), "~1".into(), None));
            v.push(Op::SecOverride(sec.clone(), format!("~{len}"), "8".into()));
            v.push(Op::SecBump(sec.clone(), "0".into(), Some("2".into())));
            v.push(Op::SecBump(sec.clone(), "~1".into(), Some("0".into())));
            if len > 1 { v.push(Op::SecBump(sec.clone(), "1".into(), Some("0".into()))); }
            if full { v.push(Op::SecBump(sec.clone(), format!("-{len}"), Some("3".into()))); }
        }
    }
    v
}

fn subsets(n: usize, k: usize) -> Vec<Vec<usize>> {
    let mut out = vec![vec![]];
    fn go(n: usize, k: usize, start: usize, cur: &mut Vec<usize>, out: &mut Vec<Vec<usize>>) {
        if cur.len() == k { return; }
        for i in start..n { cur.push(i); out.push(cur.clone()); go(n, k, i + 1, cur, out); cur.pop(); }
    }
    go(n, k, 0, &mut vec![], &mut out);
    out
}

fn perms(v: &[usize]) -> Vec<Vec<usize>> {
    if v.len() <= 1 { return vec![v.to_vec()]; }
    let mut out = vec![];
    for i in 0..v.len() {
        let mut rest = v.to_vec();
        let x = rest.remove(i);
        for mut p in perms(&rest) { p.insert(0, x); out.push(p); }
    }
    out
}

fn masked_eq(got: &State, want: &State, un: &bump::Unspecified) -> Option<String> {
    if got.schema != want.schema { return Some(format!("schema differs: got {:?}, model {:?}", got.schema, want.schema)); }
    let mut g = got.vars.clone();
    let mut w = want.vars.clone();
    if un.pre_label { if let (Some(gp), Some(wp)) = (g.pre, w.pre) { g.pre = Some(("?", gp.1)); w.pre = Some(("?", wp.1)); } }
    if un.pre_number { if let (Some(gp), Some(wp)) = (g.pre, w.pre) { g.pre = Some((gp.0, None)); w.pre = Some((wp.0, None)); } }
    if g != w { return Some(format!("vars differ: got {:?}, model {:?}", g, w)); }
    None
}

struct Env { start: Start, schema_name: &'static str, schema_args: Vec<String>, init: State, now: u64 }

fn judge(ctx: &Ctx, env: &Env, ops: &[Op], order: &[usize], reference: Option<&Result<Res, PanicInfo>>, st: &mut Stats) -> Result<Res, PanicInfo> {
    st.inc("runs");
    let argv: Vec<String> = order.iter().flat_map(|&i| bump::argv(&ops[i])).collect();
    let r = run(&env.start, &env.schema_args, &argv);
    let key = format!("{} / {} / {}", env.start.name, env.schema_name, argv.join(" "));
    let case = json!({"kind":"ops","start":env.start.name,"schema":env.schema_name,"argv":argv});
    st.observe(&(&key, r.as_ref().ok().map(|x| x.is_ok())));
    if let Some(first) = reference {
        st.inc("permutation_checks");
        let same = match (first, &r) { (Ok(x), Ok(y)) => x.ok() == y.ok() && x.is_ok() == y.is_ok(), (Err(_), Err(_)) => true, _ => false };
        if !same { ctx.violation("result_depends_on_flag_order", key.clone(), case.clone(), format!("first order gave {:?}, this order {:?}", first.as_ref().map(|r| truncate(&format!("{r:?}"), 200)), r.as_ref().map(|r| truncate(&format!("{r:?}"), 200)))); }
        return r;
    }
    let model = bump::apply(&env.init, ops, env.now);
    match (&r, &model) {
        (Err(p), _) => ctx.violation(&format!("panic@{}", p.file()), key, case, format!("{} at {}", p.message, p.location)),
        (Ok(Res::Ok(out)), Outcome::Ok(want, un)) => {
            st.inc("model_ok");
            match parse_state(out) {
                Err(e) => ctx.violation("unreadable_output", key, case, e),
                Ok(got) => if let Some(d) = masked_eq(&got, want, un) { ctx.violation("result_differs_from_precedence_model", key, case, d); },
            }
        }
        (Ok(Res::Ok(out)), Outcome::Rejected(why)) => {
            // a value beyond the model's 32-bit range is a representation limit, not an invalid target: an implementation
            // with wider numbers may apply it - but then exactly (the value must stand in the resulting object)
            let wide_value_applied_exactly = why.contains("out of range") && argv.iter().filter_map(|a| a.rsplit('=').next()).filter(|v| v.len() >= 10 && v.bytes().all(|b| b.is_ascii_digit())).all(|v| out.contains(v));
            if wide_value_applied_exactly { st.inc("wide_value_applied_exactly"); } else { ctx.violation("invalid_operation_accepted", key, case, format!("model rejects ({why}) but zerv printed a result")); }
        }
        (Ok(_), Outcome::Ok(..)) => ctx.violation("valid_operation_rejected", key, case, format!("zerv: {:?}", r.as_ref().ok())),
        (Ok(_), Outcome::Rejected(_)) => { st.inc("model_rejected"); }
    }
    r
}

fn main() {
    let ctx = Ctx::from_args("C05", "model_checking");
    let now = ctx.pinned_now();
    let quick = ctx.quick();
    let mut envs = vec![];
    for s in starts() { for (sn, sa) in schemas() {
        let r = run(&s, &sa, &[]);
        let init = match &r { Ok(Res::Ok(o)) => parse_state(o).unwrap_or_else(|e| machinery_error(&e)), other => machinery_error(&format!("start state {} / {sn} failed: {other:?}", s.name)) };
        envs.push(Env { start: s.clone(), schema_name: sn, schema_args: sa, init, now });
    }}
    if let Some(case) = ctx.replay_case() {
        // replay: run the recorded argv and compare with the first-order result of the same op set is not possible
        // without the op list, so the replay re-explores subsets of size <= 2 of the matching environment
        let env = envs.iter().find(|e| Some(e.start.name) == case["start"].as_str() && Some(e.schema_name) == case["schema"].as_str()).unwrap_or_else(|| machinery_error("unknown environment"));
        let alpha = alphabet_for(env, true);
        let want: Vec<String> = case["argv"].as_array().map(|v| v.iter().map(|x| x.as_str().unwrap().to_string()).collect()).unwrap_or_default();
        let mut st = Stats::default();
        for sub in subsets(alpha.len(), 4) {
            let ops: Vec<Op> = sub.iter().map(|&i| alpha[i].clone()).collect();
            let mut av: Vec<String> = ops.iter().flat_map(bump::argv).collect();
            let mut w = want.clone(); av.sort(); w.sort();
            if av == w { let order: Vec<usize> = (0..ops.len()).collect(); judge(&ctx, env, &ops, &order, None, &mut st).ok(); break; }
        }
        finish(&ctx, Coverage::default());
    }
    // main exploration: all subsets up to k, all permutations up to size pk
    let mut total = Stats::default();
    let mut alpha_sizes = vec![];
    for env in &envs {
        let alpha = alphabet_for(env, !quick);
        alpha_sizes.push(alpha.len());
        // the literal-heavy schema has the largest alphabet: one size smaller there
        let k = match (quick, env.schema_name) { (true, "ron-literals") | (true, "ron-reordered") => 2, (true, _) => 3, (false, _) => 3 };
        let pk = if quick { 2 } else { 3 };
        let subs = subsets(alpha.len(), k);
        let st = subs.par_iter().map(|sub| {
            let mut st = Stats::default();
            st.inc("subsets");
            let ops: Vec<Op> = sub.iter().map(|&i| alpha[i].clone()).collect();
            let order: Vec<usize> = (0..ops.len()).collect();
            let first = judge(&ctx, env, &ops, &order, None, &mut st);
            if ops.len() >= 2 {
                if ops.len() <= pk {
                    for p in perms(&order).into_iter().skip(1) { let _ = judge(&ctx, env, &ops, &p, Some(&first), &mut st); }
                } else {
                    let rev: Vec<usize> = order.iter().rev().cloned().collect();
                    let _ = judge(&ctx, env, &ops, &rev, Some(&first), &mut st);
                }
            }
            st
        }).reduce(Stats::default, Stats::merge);
        total = total.merge(st);
    }
    // repetition: the same section operation given twice in one invocation, and two spellings of one index (0 / -len / ~len)
    let mut s_rep = Stats::default();
    for env in &envs {
        let alpha = alphabet_for(env, !quick);
        let secs: Vec<&Op> = alpha.iter().filter(|o| matches!(o, Op::SecOverride(..) | Op::SecBump(..))).collect();
        for (i, a) in secs.iter().enumerate() { for b in secs.iter().skip(i) {
            let same_target = match (a, b) { (Op::SecOverride(s1, i1, _), Op::SecOverride(s2, i2, _)) | (Op::SecBump(s1, i1, _), Op::SecBump(s2, i2, _)) | (Op::SecOverride(s1, i1, _), Op::SecBump(s2, i2, _)) | (Op::SecBump(s1, i1, _), Op::SecOverride(s2, i2, _)) => s1 == s2 && bump::resolve_index(&env.init.schema, s1, i1) == bump::resolve_index(&env.init.schema, s2, i2) && bump::resolve_index(&env.init.schema, s1, i1).is_some(), _ => false };
            if !same_target { continue; }
            s_rep.inc("repetition_cases");
            let ops = vec![(*a).clone(), (*b).clone()];
            let first = judge(&ctx, env, &ops, &[0, 1], None, &mut s_rep);
            let _ = judge(&ctx, env, &ops, &[1, 0], Some(&first), &mut s_rep);
        }}
    }
    let total = total.merge(s_rep);
    // invalid targets (each must be rejected without output) and boundary amounts
    let mut s2 = Stats::default();
    for env in &envs {
        for (sec, len) in [(Section::Core, env.init.schema.core.len()), (Section::ExtraCore, env.init.schema.extra_core.len()), (Section::Build, env.init.schema.build.len())] {
            let bad_idx = vec![len.to_string(), (len + 1).to_string(), format!("-{}", len + 1), "~0".to_string(), format!("~{}", len + 1), "x".to_string(), "".to_string(), "1.5".to_string(), "٣".to_string()];
            for i in &bad_idx {
                for ops in [vec![Op::SecOverride(sec.clone(), i.clone(), "4".into())], vec![Op::SecBump(sec.clone(), i.clone(), None)], vec![Op::SecBump(sec.clone(), i.clone(), Some("2".into()))]] {
                    s2.inc("invalid_target_cases");
                    let _ = judge(&ctx, env, &ops, &[0], None, &mut s2);
                }
            }
            if len > 0 {
                // duplicate index in different spellings, non-numeric / negative / overflowing values
                let last = (len - 1).to_string();
                for ops in [
                    vec![Op::SecOverride(sec.clone(), last.clone(), "4".into()), Op::SecOverride(sec.clone(), "-1".into(), "5".into())],
                    vec![Op::SecBump(sec.clone(), last.clone(), None), Op::SecBump(sec.clone(), "~1".into(), None)],
                    vec![Op::SecOverride(sec.clone(), "0".into(), "abc".into())],
                    vec![Op::SecBump(sec.clone(), "0".into(), Some("abc".into()))],
                    vec![Op::SecOverride(sec.clone(), "0".into(), "-1".into())],
                    vec![Op::SecBump(sec.clone(), "0".into(), Some("-2".into()))],
                    vec![Op::SecOverride(sec.clone(), "0".into(), "4294967296".into())],
                    vec![Op::SecBump(sec.clone(), "0".into(), Some("4294967295".into()))],
                    vec![Op::SecOverride(sec.clone(), "0".into(), "4294967295".into()), Op::SecBump(sec.clone(), "0".into(), Some("4294967295".into()))],
                ] {
                    s2.inc("invalid_target_cases");
                    let order: Vec<usize> = (0..ops.len()).collect();
                    let _ = judge(&ctx, env, &ops, &order, None, &mut s2);
                }
            }
        }
        for f in [Field::Epoch, Field::Major, Field::Minor, Field::Patch, Field::PreNum, Field::Post, Field::Dev] {
            for ops in [vec![Op::Bump(f.clone(), u32::MAX)], vec![Op::Override(f.clone(), u32::MAX), Op::Bump(f.clone(), u32::MAX)], vec![Op::Bump(f.clone(), 0)]] {
                s2.inc("boundary_amount_cases");
                let order: Vec<usize> = (0..ops.len()).collect();
                let _ = judge(&ctx, env, &ops, &order, None, &mut s2);
            }
        }
    }
    // dense numeric grid: every grid value (numpool) as override value, as bump amount, as override followed by a bump of 1 and
    // as a bump on top of an override of 7, for each of the seven numeric fields, and as index-addressed value / amount on
    // every numeric component of each section; Distance likewise. A threshold inside the range separates two grid neighbours.
    let mut s_grid = Stats::default();
    {
        let g32 = numpool::grid_u32();
        let gall = numpool::grid_upto(u64::MAX as u128);
        let genvs: Vec<&Env> = if quick { envs.iter().filter(|e| ["1.2.3-rc.4", "1!1.2.3a1.post2.dev3", "stdin-epoch"].contains(&e.start.name) && e.schema_name != "calver-base").collect() } else { envs.iter().collect() };
        for env in genvs {
            let mut cases: Vec<Vec<Op>> = vec![];
            for f in [Field::Epoch, Field::Major, Field::Minor, Field::Patch, Field::PreNum, Field::Post, Field::Dev] {
                for &g in &g32 {
                    cases.push(vec![Op::Override(f.clone(), g)]);
                    cases.push(vec![Op::Bump(f.clone(), g)]);
                    cases.push(vec![Op::Override(f.clone(), g), Op::Bump(f.clone(), 1)]);
                    cases.push(vec![Op::Override(f.clone(), 7), Op::Bump(f.clone(), g)]);
                }
            }
            for &g in &g32 { cases.push(vec![Op::Distance(g)]); }
            for (sec, comps) in [(Section::Core, &env.init.schema.core), (Section::ExtraCore, &env.init.schema.extra_core), (Section::Build, &env.init.schema.build)] {
                for (i, c) in comps.iter().enumerate() {
                    if matches!(c, RComp::Str(_)) { continue; }
                    for g in &gall {
                        cases.push(vec![Op::SecOverride(sec.clone(), i.to_string(), g.clone())]);
                        cases.push(vec![Op::SecBump(sec.clone(), i.to_string(), Some(g.clone()))]);
                    }
                }
            }
            let st = cases.par_iter().map(|ops| { let mut st = Stats::default(); st.inc("grid_cases"); let order: Vec<usize> = (0..ops.len()).collect(); let _ = judge(&ctx, env, ops, &order, None, &mut st); st }).reduce(Stats::default, Stats::merge);
            s_grid = s_grid.merge(st);
        }
    }
    let s2 = s2.merge(s_grid);
    // long sections: schemas whose three sections hold L components each (L around 64, 128 and 256), every pair of index-addressed
    // operations (override/override, bump/bump, override + bump) on positions around 0, 32, 64 and the end of one section - a
    // bookkeeping structure of fixed width (a bit mask, a small array) aliases two positions only in such a schema
    let mut s_long = Stats::default();
    {
        let lens: Vec<usize> = if quick { vec![64, 65, 66, 129, 257] } else { vec![33, 64, 65, 66, 70, 128, 129, 130, 256, 257, 513] };
        let start = Start { name: "1.2.3-rc.4", args: a(&["--source", "none", "--tag-version", "1.2.3-rc.4"]), stdin: None };
        for l in lens {
            let fill = |lit: &str, n: usize| -> String { std::iter::repeat(lit).take(n).collect::<Vec<_>>().join(",") };
            let ron = format!("(core:[var(Major),{},var(Minor),var(Patch)],extra_core:[var(PreRelease),{},var(Post)],build:[{}])", fill("str(\"p\")", l - 3), fill("uint(0)", l - 2), fill("str(\"b\")", l));
            let sa = a(&["--schema-ron", &ron]);
            let init = match run(&start, &sa, &[]) { Ok(Res::Ok(o)) => parse_state(&o).unwrap_or_else(|e| machinery_error(&e)), other => machinery_error(&format!("long schema L={l} failed: {}", truncate(&format!("{other:?}"), 300))) };
            let env = Env { start: start.clone(), schema_name: Box::leak(format!("long-sections-{l}").into_boxed_str()), schema_args: sa, init, now };
            let pos: Vec<usize> = { let mut p: Vec<usize> = vec![0, 1, 2, 31, 32, 33, 62, 63, 64, 65, 127, 128, 129, 255, 256, l.saturating_sub(2), l - 1].into_iter().filter(|x| *x < l).collect(); p.sort(); p.dedup(); p };
            let mut cases: Vec<Vec<Op>> = vec![];
            for (sec, comps) in [(Section::Core, &env.init.schema.core), (Section::ExtraCore, &env.init.schema.extra_core), (Section::Build, &env.init.schema.build)] {
                let val = |i: usize| if matches!(comps[i], RComp::Str(_)) { "z".to_string() } else { "4".to_string() };
                for (x, &i) in pos.iter().enumerate() { for &j in pos.iter().skip(x + 1) {
                    cases.push(vec![Op::SecOverride(sec.clone(), i.to_string(), val(i)), Op::SecOverride(sec.clone(), j.to_string(), val(j))]);
                    cases.push(vec![Op::SecBump(sec.clone(), i.to_string(), Some(val(i))), Op::SecBump(sec.clone(), format!("-{}", l - j), Some(val(j)))]);
                    cases.push(vec![Op::SecOverride(sec.clone(), format!("~{}", l - i), val(i)), Op::SecBump(sec.clone(), j.to_string(), Some(val(j)))]);
                }}
                for &i in &pos { cases.push(vec![Op::SecOverride(sec.clone(), i.to_string(), val(i))]); cases.push(vec![Op::SecBump(sec.clone(), i.to_string(), None)]); }
            }
            let st = cases.par_iter().map(|ops| { let mut st = Stats::default(); st.inc("long_section_cases"); let order: Vec<usize> = (0..ops.len()).collect(); let first = judge(&ctx, &env, ops, &order, None, &mut st); if ops.len() == 2 { let _ = judge(&ctx, &env, ops, &[1, 0], Some(&first), &mut st); } st }).reduce(Stats::default, Stats::merge);
            s_long = s_long.merge(st);
            // many operations in one call: K index-addressed operations on K - 1 distinct numeric literals of the extra-core section
            // (one position carries an override *and* a bump), K around 16, 32, 48 and 64, the flags written in five orders -
            // bookkeeping that sorts, buckets or batches the operations behaves differently only above some count
            {
                let ks: Vec<usize> = [15usize, 16, 17, 31, 32, 33, 34, 40, 48, 63, 64, 65].into_iter().filter(|k| *k + 2 < l).collect();
                let many: Vec<(Vec<Op>, usize)> = ks.iter().flat_map(|&k| {
                    // positions 1 .. l-2 of extra_core are uint(0) literals
                    let shared = [1usize, k / 2, k - 1];
                    shared.into_iter().map(move |sh| {
                        let mut ops: Vec<Op> = vec![];
                        for q in 0..(k - 1) {
                            let idx = 1 + q;
                            if q == sh - 1 { ops.push(Op::SecOverride(Section::ExtraCore, idx.to_string(), "5".into())); ops.push(Op::SecBump(Section::ExtraCore, idx.to_string(), Some("2".into()))); }
                            else if q % 3 == 0 { ops.push(Op::SecOverride(Section::ExtraCore, idx.to_string(), (q + 7).to_string())); }
                            else { ops.push(Op::SecBump(Section::ExtraCore, idx.to_string(), Some((q % 5 + 1).to_string()))); }
                        }
                        (ops, k)
                    })
                }).collect();
                let st = many.par_iter().map(|(ops, _k)| {
                    let mut st = Stats::default();
                    let n = ops.len();
                    let id: Vec<usize> = (0..n).collect();
                    st.inc("long_section_cases"); st.inc("many_operation_cases");
                    let first = judge(&ctx, &env, ops, &id, None, &mut st);
                    let rev: Vec<usize> = (0..n).rev().collect();
                    let rot = |r: usize| -> Vec<usize> { (0..n).map(|i| (i + r) % n).collect() };
                    // bumps first then overrides, and the reverse
                    let (mut b, mut o): (Vec<usize>, Vec<usize>) = (vec![], vec![]);
                    for (i, op) in ops.iter().enumerate() { if matches!(op, Op::SecBump(..)) { b.push(i) } else { o.push(i) } }
                    let bo: Vec<usize> = b.iter().chain(o.iter()).copied().collect();
                    let ob: Vec<usize> = o.iter().chain(b.iter().rev()).copied().collect();
                    for order in [rev, rot(1), rot(n / 3), rot(n / 2), bo, ob] { st.inc("many_operation_cases"); let _ = judge(&ctx, &env, ops, &order, Some(&first), &mut st); }
                    st
                }).reduce(Stats::default, Stats::merge);
                s_long = s_long.merge(st);
            }
        }
    }
    let s2 = s2.merge(s_long);
    // a value written as a template is the value it renders to: `--bump-minor '{{ major }}'` equals `--bump-minor=<major>` where <major> is the
    // major the version has once the tag-version override (if any) is applied - for every start, with and without `--tag-version`, for overrides and
    // bumps by name and by index, reading major / minor / patch. Differential between two runs of the real pipeline (the literal run itself is
    // judged against R-BUMP by the layers above).
    let mut s_tpl = Stats::default();
    for env in envs.iter().filter(|e| e.schema_name != "calver-base") {
        for tag in [None, Some(("9.8.7", [9u64, 8, 7])), Some(("4.5.6-rc.2", [4, 5, 6]))] {
            if tag.is_some() && env.start.stdin.is_none() && env.start.args.iter().any(|x| x == "--tag-version") { continue; }
            let core = match tag { Some((_, c)) => c, None => [env.init.vars.major.unwrap_or(0), env.init.vars.minor.unwrap_or(0), env.init.vars.patch.unwrap_or(0)] };
            for (vi, var) in ["major", "minor", "patch"].iter().enumerate() {
                if core[vi] > 1000 { continue; }
                for flag in ["--bump-minor", "--bump-patch", "--bump-major", "--patch", "--minor", "--post", "--bump-post", "--bump-core=1", "--core=2", "--bump-core=~1"] {
                    let mk = |val: &str| { let mut v: Vec<String> = tag.map(|(t, _)| a(&["--tag-version", t])).unwrap_or_default(); v.push(format!("{flag}={val}")); v };
                    let lit = run(&env.start, &env.schema_args, &mk(&core[vi].to_string()));
                    let tpl = run(&env.start, &env.schema_args, &mk(&format!("{{{{ {var} }}}}")));
                    s_tpl.inc("templated_value_cases"); s_tpl.add("runs", 2);
                    let same = match (&lit, &tpl) { (Ok(Res::Ok(x)), Ok(Res::Ok(y))) => x == y, (Ok(Res::Ok(_)), _) | (_, Ok(Res::Ok(_))) => false, _ => true };
                    if !same { ctx.violation("templated_value_differs_from_literal", format!("{} / {} / {}{flag}='{{{{ {var} }}}}'", env.start.name, env.schema_name, tag.map(|(t, _)| format!("--tag-version {t} ")).unwrap_or_default()), json!({"kind":"template-vs-literal","start":env.start.name,"schema":env.schema_name,"flag":flag,"var":var,"tag":tag.map(|t| t.0)}), format!("with the literal {}: {:?}; with the template: {:?}", core[vi], lit.as_ref().map(|r| truncate(&format!("{r:?}"), 200)), tpl.as_ref().map(|r| truncate(&format!("{r:?}"), 200)))); }
                }
            }
        }
    }
    // chaining through --source stdin: B applied to the zerv-format output of A
    let mut s3 = Stats::default();
    for env in envs.iter().filter(|e| e.schema_name != "calver-base" || !quick) {
        let alpha = alphabet_for(env, false);
        let firsts = subsets(alpha.len(), 1);
        let seconds = subsets(alpha.len(), if quick { 1 } else { 2 });
        let st = firsts.par_iter().map(|fa| {
            let mut st = Stats::default();
            let ops_a: Vec<Op> = fa.iter().map(|&i| alpha[i].clone()).collect();
            let argv_a: Vec<String> = ops_a.iter().flat_map(bump::argv).collect();
            let Ok(Res::Ok(doc)) = run(&env.start, &env.schema_args, &argv_a) else { return st };
            let Outcome::Ok(mid, un_a) = bump::apply(&env.init, &ops_a, env.now) else { return st };
            let Ok(mid_real) = parse_state(&doc) else { return st };
            if masked_eq(&mid_real, &mid, &un_a).is_some() { return st; } // already reported by the main exploration
            for sb in &seconds {
                st.inc("chain_runs");
                let ops_b: Vec<Op> = sb.iter().map(|&i| alpha[i].clone()).collect();
                let argv_b: Vec<String> = ops_b.iter().flat_map(bump::argv).collect();
                let mut args = a(&["version", "--source", "stdin"]);
                args.extend(argv_b.iter().cloned());
                args.extend(a(&["--output-format", "zerv"]));
                let r = zv::run_cli(&args, Some(&doc));
                // the model continues from the state zerv itself reached (differential: start elsewhere than the initial state)
                let model = bump::apply(&mid_real, &ops_b, env.now);
                let key = format!("{} / {} / [{}] then [{}]", env.start.name, env.schema_name, argv_a.join(" "), argv_b.join(" "));
                let case = json!({"kind":"chain","start":env.start.name,"schema":env.schema_name,"first":argv_a,"second":argv_b});
                match (&r, &model) {
                    (Err(p), _) => ctx.violation(&format!("panic@{}", p.file()), key, case, format!("{} at {}", p.message, p.location)),
                    (Ok(Res::Ok(out)), Outcome::Ok(want, un)) => match parse_state(out) { Err(e) => ctx.violation("unreadable_output", key, case, e), Ok(got) => if let Some(d) = masked_eq(&got, want, un) { ctx.violation("chained_result_differs_from_model", key, case, d); } },
                    (Ok(Res::Ok(_)), Outcome::Rejected(why)) => ctx.violation("invalid_operation_accepted", key, case, format!("model rejects ({why})")),
                    (Ok(_), Outcome::Ok(..)) => ctx.violation("valid_operation_rejected", key, case, format!("{:?}", r.as_ref().ok())),
                    _ => {}
                }
            }
            st
        }).reduce(Stats::default, Stats::merge);
        s3 = s3.merge(st);
    }
    // process conformance slice
    let mut s4 = Stats::default();
    {
        let env = &envs[1];
        let alpha = alphabet_for(env, false);
        let subs = subsets(alpha.len(), 2);
        let slice: Vec<&Vec<usize>> = subs.iter().step_by((subs.len() / 120).max(1)).collect();
        let bad: Vec<(String, String)> = slice.par_iter().filter_map(|sub| {
            let argv: Vec<String> = sub.iter().flat_map(|&i| bump::argv(&alpha[i])).collect();
            let mut args = vec!["version".to_string()];
            args.extend(env.start.args.iter().cloned()); args.extend(env.schema_args.iter().cloned()); args.extend(argv.iter().cloned()); args.extend(a(&["--output-format", "zerv"]));
            let r = zv::run_cli(&args, None);
            let o = zv::run_bin(&args, None, &[], None);
            zv::conforms(&r, &o).err().map(|e| (argv.join(" "), e))
        }).collect();
        s4.add("process_conformance_cases", slice.len() as u64);
        for (k, e) in bad { ctx.violation("binary_differs_from_inprocess", k, json!({"kind":"proc"}), e); }
    }
    let all = total.merge(s2).merge(s3).merge(s_tpl).merge(s4.clone());
    let mut cov = Coverage::default();
    cov.states = all.get("subsets") + all.get("long_section_cases") + all.get("grid_cases") + all.get("invalid_target_cases") + all.get("boundary_amount_cases") + all.get("chain_runs");
    cov.transitions = all.get("runs") + all.get("chain_runs");
    cov.evaluations = cov.transitions;
    cov.traces_validated = cov.transitions;
    cov.distinct_nontrivial = all.get("model_ok");
    cov.rule = format!("flag-instance alphabets of sizes {alpha_sizes:?} per (start version x schema) environment ({} environments: 9 start versions incl. a number-less beta pre-release x 4 schemas): every subset up to size 3 (2 for the literal-heavy schema in quick) run through the real clap parser + run_version_pipeline with --output-format zerv and compared (schema + vars) with R-BUMP; permutations: all orders for subsets up to size {} and the reversed order above; repetition: every pair of section operations (override/override, bump/bump, override/bump; same or different spelling) that denote one component, in both orders; invalid targets and boundary amounts enumerated per section; chaining: every single op, then every op set of size <= {} via --source stdin, model continued from the intermediate state. dense numeric grid (0..=300, neighbourhoods of 2^8..2^64 and 10^2..10^20) as override value / bump amount / override+bump for each of the 7 numeric fields, as --distance, and as index-addressed value / amount on every numeric component ({} grid cases); sections of 64 .. 257 components with every pair of index-addressed operations on positions around 0, 32, 64, 128, 256 and the end ({} cases). non-trivial = runs where the model predicts success and the full state is compared", envs.len(), if quick { 2 } else { 3 }, if quick { 1 } else { 2 }, all.get("grid_cases"), all.get("long_section_cases"));
    cov.exhaustive = true;
    cov.samples = vec![json!({"start":"1.2.3-rc.4","schema":"standard-base-prerelease-post-dev","argv":["--bump-major","--patch","3","--bump-extra-core=~1"]}), json!({"start":"stdin-u64max","schema":"ron-literals","argv":["--bump-major=2"]}), json!({"chain":["--bump-minor"],"then":["--core=0=4"]})];
    cov.set("clause_counts", all.to_json());
    cov.set("process_conformance_cases", s4.get("process_conformance_cases"));
    cov.assumptions = vec!["R-BUMP (harness/src/refmodel/bump.rs) transcribes the C05 statement; the invented label for a number-only pre-release and the number kept on a label-only override are masked (DESIGN A.10)".into(), "results are read back with zerv's own RON parser (losslessness is C12's subject)".into(), "wall clock pinned".into()];
    finish(&ctx, cov);
}
