//! C10 — SemVer comparison is SemVer 2.0.0 precedence; a total order consistent with equality.
use std::cmp::Ordering;
use std::str::FromStr;

use rayon::prelude::*;
use serde_json::json;
use zerv::vcs::git_utils::GitUtils;
use zerv::version::{SemVer, VersionObject};
use zvharness::refmodel::semver as rsv;
use zvharness::*;

struct V {
    text: String,
    z: SemVer,
    r: rsv::Parsed,
}

fn lists(alpha: &[&str], max: usize) -> Vec<Vec<String>> {
    let mut out: Vec<Vec<String>> = vec![vec![]];
    let mut lvl: Vec<Vec<String>> = vec![vec![]];
    for _ in 0..max {
        let mut next = vec![];
        for l in &lvl {
            for a in alpha {
                let mut n = l.clone();
                n.push(a.to_string());
                next.push(n);
            }
        }
        out.extend(next.iter().cloned());
        lvl = next;
    }
    out
}

fn universe(nums: &[&str], ids: &[&str], max_list: usize, builds: &[&str]) -> Vec<V> {
    let mut texts = vec![];
    for a in nums {
        for b in nums {
            for c in nums {
                for pre in lists(ids, max_list) {
                    for bld in builds {
                        let mut t = format!("{a}.{b}.{c}");
                        if !pre.is_empty() {
                            t.push('-');
                            t.push_str(&pre.join("."));
                        }
                        if !bld.is_empty() {
                            t.push('+');
                            t.push_str(bld);
                        }
                        texts.push(t);
                    }
                }
            }
        }
    }
    texts
        .into_iter()
        .filter_map(|t| {
            // a valid version that the real parser refuses is a verdict about zerv, not a machinery problem
            let z = match SemVer::from_str(&t) { Ok(z) => z, Err(e) => { REJECTED.lock().unwrap().push((t.clone(), e.to_string())); return None; } };
            let r = rsv::parse(&t).unwrap_or_else(|| machinery_error(&format!("universe member {t:?} rejected by the model")));
            Some(V { text: t, z, r })
        })
        .collect()
}

/// versions from a list of texts (same rejection rule as `universe`)
fn from_texts(texts: Vec<String>) -> Vec<V> {
    texts.into_iter().filter_map(|t| {
        let z = match SemVer::from_str(&t) { Ok(z) => z, Err(e) => { REJECTED.lock().unwrap().push((t.clone(), e.to_string())); return None; } };
        let r = rsv::parse(&t).unwrap_or_else(|| machinery_error(&format!("universe member {t:?} rejected by the model")));
        Some(V { text: t, z, r })
    }).collect()
}

fn rev(o: Ordering) -> Ordering {
    o.reverse()
}

/// all ordered pairs: agreement with the reference, antisymmetry, eq <=> Equal
fn check_pairs(ctx: &Ctx, u: &[V]) -> Stats {
    (0..u.len())
        .into_par_iter()
        .map(|i| {
            let mut st = Stats::default();
            let a = &u[i];
            for b in u.iter() {
                st.inc("pairs");
                let got = match catch(|| (a.z.cmp(&b.z), a.z == b.z, a.z.partial_cmp(&b.z), a.z < b.z)) {
                    Ok(g) => g,
                    Err(p) => {
                        ctx.violation(&format!("panic@{}", p.file()), format!("{} ? {}", a.text, b.text), json!({"kind":"pair","a":a.text,"b":b.text}), p.message);
                        continue;
                    }
                };
                let want = rsv::cmp(&a.r, &b.r);
                st.observe(&(i, &b.text, got.0 as i8));
                match want {
                    Ordering::Less => st.inc("want_less"),
                    Ordering::Equal => st.inc("want_equal"),
                    Ordering::Greater => st.inc("want_greater"),
                }
                let case = || json!({"kind":"pair","a":a.text,"b":b.text});
                if got.0 != want {
                    ctx.violation("precedence_mismatch", format!("{} ? {}", a.text, b.text), case(), format!("cmp gives {:?}, SemVer 2.0.0 precedence is {:?}", got.0, want));
                }
                if got.1 != (got.0 == Ordering::Equal) {
                    ctx.violation("eq_inconsistent_with_cmp", format!("{} ? {}", a.text, b.text), case(), format!("== is {} but cmp is {:?}", got.1, got.0));
                }
                if got.2 != Some(got.0) || got.3 != (got.0 == Ordering::Less) {
                    ctx.violation("partial_cmp_inconsistent", format!("{} ? {}", a.text, b.text), case(), format!("partial_cmp {:?}, < {}, cmp {:?}", got.2, got.3, got.0));
                }
                let back = b.z.cmp(&a.z);
                if back != rev(got.0) {
                    ctx.violation("not_antisymmetric", format!("{} ? {}", a.text, b.text), case(), format!("cmp(a,b)={:?} cmp(b,a)={:?}", got.0, back));
                }
            }
            st
        })
        .reduce(Stats::default, Stats::merge)
}

/// all ordered triples: transitivity stated directly on the implementation (no reference involved)
fn check_triples(ctx: &Ctx, u: &[&V]) -> Stats {
    let n = u.len();
    // precompute the comparison matrix with the real comparator
    let m: Vec<Vec<Ordering>> = u.par_iter().map(|a| u.iter().map(|b| a.z.cmp(&b.z)).collect()).collect();
    (0..n)
        .into_par_iter()
        .map(|i| {
            let mut st = Stats::default();
            for j in 0..n {
                let ab = m[i][j];
                for k in 0..n {
                    st.inc("triples");
                    let bc = m[j][k];
                    let ac = m[i][k];
                    // a<=b and b<=c => a<=c ; with strictness if either is strict
                    let bad = (ab != Ordering::Greater && bc != Ordering::Greater)
                        && (ac == Ordering::Greater || ((ab == Ordering::Less || bc == Ordering::Less) && ac != Ordering::Less));
                    if bad {
                        ctx.violation("not_transitive", format!("{} , {} , {}", u[i].text, u[j].text, u[k].text),
                            json!({"kind":"triple","a":u[i].text,"b":u[j].text,"c":u[k].text}), format!("ab={ab:?} bc={bc:?} ac={ac:?}"));
                    }
                }
            }
            st
        })
        .reduce(Stats::default, Stats::merge)
}

/// find_max_version_tag on every subset of size 1..=3 (in every order) returns a maximal element
fn check_max_tag(ctx: &Ctx, u: &[&V]) -> Stats {
    let n = u.len();
    (0..n)
        .into_par_iter()
        .map(|i| {
            let mut st = Stats::default();
            for j in 0..n {
                for k in 0..n {
                    let mut idx = vec![i];
                    if j != i { idx.push(j); }
                    if k != i && k != j { idx.push(k); }
                    let tags: Vec<(String, VersionObject)> = idx.iter().map(|&x| (u[x].text.clone(), VersionObject::SemVer(u[x].z.clone()))).collect();
                    st.inc("max_tag_sets");
                    let got = match catch(|| GitUtils::find_max_version_tag(&tags)) {
                        Ok(Ok(Some(t))) => t,
                        other => {
                            ctx.violation("max_tag_failed", format!("{:?}", idx.iter().map(|&x| &u[x].text).collect::<Vec<_>>()),
                                json!({"kind":"maxtag","tags":idx.iter().map(|&x| u[x].text.clone()).collect::<Vec<_>>()}), format!("{other:?}"));
                            continue;
                        }
                    };
                    let Some(g) = idx.iter().find(|&&x| u[x].text == got) else {
                        ctx.violation("max_tag_not_a_member", got.clone(), json!({"kind":"maxtag","tags":idx.iter().map(|&x| u[x].text.clone()).collect::<Vec<_>>()}), "returned tag is not in the set".into());
                        continue;
                    };
                    if idx.iter().any(|&x| rsv::cmp(&u[x].r, &u[*g].r) == Ordering::Greater) {
                        ctx.violation("max_tag_not_maximal", format!("{:?}", idx.iter().map(|&x| &u[x].text).collect::<Vec<_>>()),
                            json!({"kind":"maxtag","tags":idx.iter().map(|&x| u[x].text.clone()).collect::<Vec<_>>()}), format!("returned {got}"));
                    }
                }
            }
            st
        })
        .reduce(Stats::default, Stats::merge)
}

/// one list of tags (in the given order) through find_max_version_tag: the result is a member and no member ranks above it
fn judge_tag_list(ctx: &Ctx, texts: &[String], st: &mut Stats) {
    st.inc("long_tag_lists");
    let parsed: Vec<(String, SemVer, rsv::Parsed)> = texts.iter().map(|t| (t.clone(), SemVer::from_str(t).unwrap_or_else(|e| machinery_error(&format!("list member {t}: {e}"))), rsv::parse(t).unwrap())).collect();
    let tags: Vec<(String, VersionObject)> = parsed.iter().map(|(t, z, _)| (t.clone(), VersionObject::SemVer(z.clone()))).collect();
    let key = format!("{} tags: {} ... {}", texts.len(), texts[..texts.len().min(3)].join(" "), texts[texts.len().saturating_sub(3)..].join(" "));
    let case = json!({"kind":"maxtag","tags":texts});
    match catch(|| GitUtils::find_max_version_tag(&tags)) {
        Ok(Ok(Some(t))) => match parsed.iter().find(|(x, _, _)| *x == t) {
            None => ctx.violation("max_tag_not_a_member", key, case, format!("returned {t:?}")),
            Some((_, _, r)) => if let Some((b, _, _)) = parsed.iter().find(|(_, _, o)| rsv::cmp(o, r) == Ordering::Greater) { ctx.violation("max_tag_not_maximal", key, case, format!("returned {t}, but {b} ranks above it")); },
        },
        Ok(other) => ctx.violation("max_tag_failed", key, case, format!("{other:?}")),
        Err(p) => ctx.violation(&format!("panic@{}", p.file()), key, case, p.message),
    }
}

static REJECTED: std::sync::Mutex<Vec<(String, String)>> = std::sync::Mutex::new(Vec::new());

fn main() {
    let ctx = Ctx::from_args("C10", "model_checking");
    if let Some(case) = ctx.replay_case() {
        let mk = |t: &str| { let t = t.to_string(); V { z: SemVer::from_str(&t).unwrap(), r: rsv::parse(&t).unwrap(), text: t } };
        match case["kind"].as_str() {
            Some("pair") => { let u = vec![mk(case["a"].as_str().unwrap()), mk(case["b"].as_str().unwrap())]; check_pairs(&ctx, &u); }
            Some("triple") => { let u = vec![mk(case["a"].as_str().unwrap()), mk(case["b"].as_str().unwrap()), mk(case["c"].as_str().unwrap())]; check_triples(&ctx, &u.iter().collect::<Vec<_>>()); }
            Some("maxtag") => { let u: Vec<V> = case["tags"].as_array().unwrap().iter().map(|t| mk(t.as_str().unwrap())).collect(); check_max_tag(&ctx, &u.iter().collect::<Vec<_>>()); }
            _ => machinery_error("bad replay kind"),
        }
        finish(&ctx, Coverage::default());
    }
    let quick = ctx.quick();
    // main universe (build-free): pairs against the reference
    let nums: &[&str] = if quick { &["0", "1", "10"] } else { &["0", "1", "2", "10"] };
    let ids: &[&str] = if quick { &["0", "2", "10", "A", "a", "a0", "B"] } else { &["0", "2", "10", "A", "a", "a0", "B", "-"] };
    let u_main = universe(nums, ids, 3, &[""]);
    let s_main = check_pairs(&ctx, &u_main);
    // universe with build metadata (eq must ignore build) and wide numbers
    let u_build = universe(&["0", "1", "10"], &["0", "10", "a", "B"], 2, &["", "x", "1", "0.a"]);
    let s_build = check_pairs(&ctx, &u_build);
    let u_wide = universe(&["0", "9", "10", "4294967296", "9999999999999999999", "18446744073709551615"], &["9", "10", "18446744073709551615", "a", "-", "1000000000000000000", "9000000000000000000", "10000000000000000000", "9999999999999999999",
        // numeric identifiers that no longer fit u64 (kept as digit text by the parser): still numeric, still below every alphanumeric one
        "18446744073709551616", "99999999999999999999", "100000000000000000000000",
        // alphanumeric identifiers that start with a digit run above u64 (time-stamp + hash ids): letters make them alphanumeric
        "99999999999999999999a", "18446744073709551616-x", "1844674407370955161a", "20240315123045123456-g1a2b3c4"], if quick { 1 } else { 2 }, &[""]);
    let s_wide = check_pairs(&ctx, &u_wide);
    // hyphenated identifiers: one alphanumeric identifier each in SemVer 2.0.0, never a separator
    let u_hyph = universe(&["0", "1"], &["rc", "rc-2", "rc-10", "2", "10", "1-0", "-", "rc-", "-1", "a-b", "0-0", "01a", "00x", "007f3a2", "00-1", "0a"], 2, &[""]);
    let s_hyph = check_pairs(&ctx, &u_hyph);
    // words: identifiers that mean something to some tool (zerv's own labels, PEP 440 / Maven / npm phase names, in three cases,
    // alone and glued to a number) - to SemVer they are plain alphanumeric identifiers in ASCII order
    let u_words = universe(&["0", "1"], &["alpha", "beta", "rc", "dev", "post", "epoch", "a", "b", "c", "pre", "preview", "snapshot", "final", "next", "canary", "nightly", "ALPHA", "Beta", "RC", "DEV", "Post", "SNAPSHOT",
        "alpha1", "rc1", "rc10", "dev0", "post1", "0", "1", "z", "A", "Z"], 2, &[""]);
    let s_words = check_pairs(&ctx, &u_words);

    // dense numeric sweeps: every value 0..=K in one position at a time (core numbers, a numeric identifier in first and
    // second place, the number glued to a label, where the order is textual): all ordered pairs per position
    let k = if quick { 1200usize } else { 5000 };
    let mut s_sweep = Stats::default();
    let mut sweep_states = 0u64;
    for shape in ["{N}.0.0", "1.{N}.0", "1.0.{N}", "1.0.0-{N}", "1.0.0-a.{N}", "1.0.0-rc{N}", "1.0.0-{N}a", "{N}.{N}.{N}-{N}.{N}"] {
        let u = from_texts((0..=k).map(|n| shape.replace("{N}", &n.to_string())).collect());
        sweep_states += u.len() as u64;
        s_sweep = s_sweep.merge(check_pairs(&ctx, &u));
    }
    // carry universes: for every value g of the dense grid (numpool), all ordered pairs of {1,2} x {0,1,g} x {0,1,g} core triples x
    // pre-release {none, rc.1, rc.g, g}: a comparison on a packed / truncated / summed key confuses X.Y.g with X.(Y+1).0 at one g
    let s_carry = {
        let grid = numpool::grid();
        let per: Vec<Stats> = grid.par_iter().map(|g| {
            let mut texts = vec![];
            // core numbers above u64 are beyond the parser's range (a representation limit): there g appears as identifier only
            let gc = if rsv::fits_u64(g) { g.as_str() } else { "1" };
            for a in ["1", "2"] { for b in ["0", "1", gc] { for c in ["0", "1", gc] { for pre in ["", "-rc.1", "-rc.{g}", "-{g}"] {
                texts.push(format!("{a}.{b}.{c}{}", pre.replace("{g}", g)));
            }}}}
            texts.sort(); texts.dedup();
            let u = from_texts(texts);
            let mut st = check_pairs(&ctx, &u);
            st.add("carry_universe_versions", u.len() as u64);
            st
        }).collect();
        per.into_iter().fold(Stats::default(), Stats::merge)
    };
    sweep_states += s_carry.get("carry_universe_versions");
    // long tag lists: n tags on one commit for every n in 1..=70 and around 100, 128, 256, 512, 1000, 1024, 4096: distinct lower
    // fillers plus two top candidates of equal core (a pre-release and its final release, or two pre-releases), the greater
    // one first / in the middle / last
    let s_long = {
        let mut ns: Vec<usize> = (1..=70).collect();
        ns.extend([99, 100, 101, 127, 128, 129, 255, 256, 257, 511, 512, 513, 999, 1000, 1001, 1023, 1024, 1025]);
        if !quick { ns.extend([4095, 4096, 4097, 10000]); }
        let jobs: Vec<(usize, usize, usize)> = ns.iter().flat_map(|&n| (0..3).flat_map(move |pos| (0..3).map(move |pair| (n, pos, pair)))).collect();
        jobs.par_iter().map(|&(n, pos, pair)| {
            let mut st = Stats::default();
            let (top, second) = [("9.0.0", "9.0.0-rc.1"), ("9.0.0-rc.10", "9.0.0-rc.9"), ("v9.1.0", "v9.0.99")][pair];
            let mut l: Vec<String> = (0..n.saturating_sub(2)).map(|i| format!("0.{}.{}", i / 50, i % 50 + 1)).collect();
            if n >= 2 { l.push(second.to_string()); }
            let at = match pos { 0 => 0, 1 => l.len() / 2, _ => l.len() };
            l.insert(at, top.to_string());
            judge_tag_list(&ctx, &l, &mut st);
            l.reverse();
            judge_tag_list(&ctx, &l, &mut st);
            st
        }).reduce(Stats::default, Stats::merge)
    };
    // sub-universes for triples and max-tag: a strided selection of u_build (keeps build variants and equal-precedence members)
    let tri_n = if quick { 160 } else { 600 };
    let stride = (u_build.len() / tri_n).max(1);
    let sub: Vec<&V> = u_build.iter().step_by(stride).take(tri_n).chain(u_wide.iter().step_by(7).take(40)).collect();
    let s_tri = check_triples(&ctx, &sub);
    let mt_n = if quick { 40 } else { 90 };
    let stride = (u_build.len() / mt_n).max(1);
    let sub2: Vec<&V> = u_build.iter().step_by(stride).take(mt_n).collect();
    let s_mt = check_max_tag(&ctx, &sub2);

    // the greatest tag among *names* as git lists them: valid SemVer tags mixed with names that are not SemVer, in every
    // order, through the real tag filter (filter_only_valid_tags with the explicit semver format) and find_max_version_tag
    let s_names = {
        let pool = ["v1.0.0", "v1.10.0", "v1.2.0", "1.0.0-rc.10", "nightly", "v1", "1.0.0rc11", "v2.0.0-alpha", "latest-1.0", "v1.10.0+b"];
        let mut lists: Vec<Vec<&str>> = vec![];
        fn go<'a>(pool: &[&'a str], cur: &mut Vec<&'a str>, out: &mut Vec<Vec<&'a str>>, max: usize) { if !cur.is_empty() { out.push(cur.clone()); } if cur.len() == max { return; } for p in pool { if !cur.contains(p) { cur.push(p); go(pool, cur, out, max); cur.pop(); } } }
        go(&pool, &mut vec![], &mut lists, if quick { 3 } else { 4 });
        lists.par_iter().map(|names| {
            let mut st = Stats::default();
            st.inc("max_tag_name_lists");
            let owned: Vec<String> = names.iter().map(|s| s.to_string()).collect();
            let valid: Vec<&str> = names.iter().copied().filter(|n| rsv::accepts(n)).collect();
            let got = catch(|| { let v = GitUtils::filter_only_valid_tags(&owned, "semver"); GitUtils::find_max_version_tag(&v) });
            let key = format!("{names:?}");
            let case = json!({"kind":"maxtag-names","tags":names});
            match got {
                Err(p) => ctx.violation(&format!("panic@{}", p.file()), key, case, p.message),
                Ok(Err(e)) => ctx.violation("max_tag_failed", key, case, e.to_string()),
                Ok(Ok(None)) => if !valid.is_empty() { ctx.violation("max_tag_missing", key, case, format!("no tag returned although {valid:?} are valid SemVer")); },
                Ok(Ok(Some(t))) => {
                    if !valid.contains(&t.as_str()) { ctx.violation("max_tag_not_a_member", key, case, format!("returned {t:?}")); }
                    else { let tp = rsv::parse(&t).unwrap(); if valid.iter().any(|v| rsv::cmp(&rsv::parse(v).unwrap(), &tp) == Ordering::Greater) { ctx.violation("max_tag_not_maximal", key, case, format!("returned {t}, valid tags {valid:?}")); } }
                }
            }
            st
        }).reduce(Stats::default, Stats::merge)
    };

    // real-git layer: the tags of one commit in a repository whose other ref namespaces hold the same names (a branch called like a tag,
    // a remote called like a tag, a remote-tracking branch called like a tag, a branch `tags/<tag>`) - git then prints such a tag as
    // `tags/<name>` wherever a *short* ref name is asked for. The base tag zerv reports must be the greatest tag of the commit under R-SV.
    let s_git = {
        use zvharness::gitx::{self, DateMode, Head, Repo, Shape, Tag};
        use zvharness::zv::{self, Res};
        let sets: Vec<Vec<&str>> = vec![vec!["v1.4.0-rc.2", "v1.4.0"], vec!["v1.4.0", "v1.4.1-alpha", "v1.4.1-alpha.1"], vec!["v2.0.0", "v10.0.0", "v9.9.9"], vec!["v1.0.0+build", "v1.0.0-0"], vec!["1.4.0", "v1.3.9"], vec!["v1.0.0-rc.10", "v1.0.0-rc.9", "v1.0.0-rc.9.1"]];
        let kinds = ["none", "branch", "branch tags/", "remote", "remote-tracking"];
        let root = gitx::scratch_root().join("c10");
        let work: Vec<(usize, usize, usize)> = sets.iter().enumerate().flat_map(|(si, set)| (0..kinds.len()).flat_map(move |k| (0..if k == 0 { 1 } else { set.len() }).map(move |t| (si, k, t)))).collect();
        let st = work.par_iter().map(|&(si, k, t)| {
            let mut st = Stats::default();
            let set = &sets[si];
            let mut branches: std::collections::BTreeMap<String, usize> = [("main".to_string(), 1usize)].into_iter().collect();
            match k { 1 => { branches.insert(set[t].to_string(), 0); } 2 => { branches.insert(format!("tags/{}", set[t]), 0); } _ => {} }
            let shape = Shape { parents: vec![vec![], vec![0]], branches, cur: "main".into(), ops: vec!["commit".into()] };
            let mut repo = Repo::create(&root, &format!("g{si}-{k}-{t}"), &shape, &gitx::dates(2, DateMode::Increasing));
            let tags: Vec<Tag> = set.iter().enumerate().map(|(i, n)| Tag { name: n.to_string(), target: 1, annotated: (i + si) % 2 == 0 }).collect();
            repo.set_tags(&tags);
            match k {
                3 => { gitx::git(&repo.dir, &["update-ref", &format!("refs/remotes/{}/HEAD", set[t]), &repo.shas[0]], None); }
                4 => { gitx::git(&repo.dir, &["update-ref", &format!("refs/remotes/origin/{}", set[t]), &repo.shas[0]], None); }
                _ => {}
            }
            repo.set_head(&Head::Branch("main".into()));
            let dir = repo.dir.to_string_lossy().to_string();
            let want = set.iter().max_by(|a, b| rsv::cmp(&rsv::parse(a).unwrap(), &rsv::parse(b).unwrap())).unwrap().to_string();
            let key = format!("tags {set:?} on HEAD, ref collision {} {:?}", kinds[k], if k == 0 { "" } else { set[t] });
            let case = json!({"kind":"git-max","tags":set,"collision":kinds[k],"name":set[t]});
            for input in ["semver", "auto"] {
                st.inc("git_max_tag_runs");
                match zv::run_cli(&["version", "-C", &dir, "--input-format", input, "--output-format", "zerv"], None) {
                    Err(p) => ctx.violation(&format!("panic@{}", p.file()), key.clone(), case.clone(), p.message.clone()),
                    Ok(Res::Ok(o)) => {
                        let got = zerv::version::Zerv::from_str(&o).ok().and_then(|z| z.vars.last_tag_version.clone()).unwrap_or_default();
                        if got != want { ctx.violation("git_base_tag_not_greatest", format!("{key} [input-format {input}]"), case.clone(), format!("zerv reports {got:?}, the greatest tag of the commit is {want:?}")); }
                    }
                    Ok(other) => ctx.violation("git_base_tag_not_greatest", format!("{key} [input-format {input}]"), case.clone(), format!("{other:?}; the greatest tag of the commit is {want:?}")),
                }
            }
            repo.remove();
            st
        }).reduce(Stats::default, Stats::merge);
        let _ = std::fs::remove_dir_all(gitx::scratch_root());
        st
    };

    // determinism replay on the build universe
    if check_pairs(&ctx, &u_build).digest != s_build.digest { machinery_error("determinism replay diverged"); }

    let all = s_main.clone().merge(s_build.clone()).merge(s_wide.clone()).merge(s_hyph).merge(s_words).merge(s_tri.clone()).merge(s_mt.clone()).merge(s_names).merge(s_sweep).merge(s_carry).merge(s_long).merge(s_git);
    for (t, e) in REJECTED.lock().unwrap().iter() { ctx.violation("universe_member_rejected", format!("{t:?}"), json!({"kind":"member","text":t}), format!("the real parser rejects this spelling of a valid version: {e}")); }
    let mut cov = Coverage::default();
    cov.states = (u_main.len() + u_build.len() + u_wide.len() + u_hyph.len()) as u64 + sweep_states;
    cov.transitions = all.get("pairs");
    cov.evaluations = all.get("pairs") + all.get("triples") + all.get("max_tag_sets") + all.get("git_max_tag_runs");
    cov.traces_validated = cov.evaluations;
    cov.distinct_nontrivial = all.get("want_less") + all.get("want_greater");
    cov.rule = format!("versions are built as strings and parsed by the real parser; universe U1 = core numbers {nums:?}^3 x pre-release lists of length <=3 over {ids:?} ({} versions, all ordered pairs vs the reference comparator); U2 adds build metadata variants ({}), U3 wide numbers up to u64::MAX in the core and up to 24 digits in identifiers ({}); U4 hyphenated identifiers (rc-2, rc-10, 1-0, -, ...) in lists of length <=2 ({}); U5 dense sweeps: every number 0..={k} in each of 8 positions (core numbers, numeric identifier first / second, glued to a label before and after), all ordered pairs per position; all ordered triples of a {}-element sub-universe (transitivity, no reference); find_max_version_tag on all ordered selections of <=3 tags from {} versions, and through the real tag filter on all ordered selections of <=3 (thorough 4) names from a pool of 10 that mixes SemVer tags with non-SemVer names. non-trivial = ordered pairs whose precedence differs (not Equal)", u_main.len(), u_build.len(), u_wide.len(), u_hyph.len(), sub.len(), sub2.len());
    cov.exhaustive = true;
    cov.samples = vec![json!({"a": u_main[u_main.len()/3].text, "b": u_main[u_main.len()/2].text}), json!({"a": u_build[5].text, "b": u_build[6].text}), json!({"a": u_wide[u_wide.len()-1].text, "b": u_wide[u_wide.len()/2].text})];
    cov.set("clause_counts", all.to_json());
    cov.set("git_layer", json!("6 tag sets on one commit (lightweight / annotated alternating) x ref-namespace collisions {none, branch, branch tags/<tag>, remote <tag>/HEAD, remote-tracking origin/<tag>} for each tag of the set x input formats semver / auto, in real git repositories: the reported base tag is the R-SV greatest"));
    cov.assumptions = vec!["reference comparator R-SV (SemVer 2.0.0 §11 on decimal strings)".into(), "numbers and identifiers outside the stated universes are not explored".into()];
    finish(&ctx, cov);
}
