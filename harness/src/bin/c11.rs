//! C11 — PEP 440 comparison is a spelling-independent total order on the key stated in the property.
use std::cmp::Ordering;
use std::str::FromStr;

use rayon::prelude::*;
use serde_json::json;
use zerv::vcs::git_utils::GitUtils;
use zerv::version::{PEP440, VersionObject};
use zvharness::refmodel::pep440 as rp;
use zvharness::*;

struct V {
    text: String,
    /// index of the abstract version this is a spelling of
    vid: usize,
    z: PEP440,
    r: rp::Parsed,
}

#[derive(Clone)]
struct Fields {
    epoch: u32,
    release: Vec<u32>,
    pre: Option<(&'static str, u32)>,
    post: Option<u32>,
    dev: Option<u32>,
    local: Option<&'static str>,
}

fn spellings(f: &Fields) -> Vec<String> {
    let rel = |pad: bool| f.release.iter().map(|n| if pad { format!("0{n}") } else { n.to_string() }).collect::<Vec<_>>().join(".");
    let mut out = vec![];
    // 1 normal form
    {
        let mut s = String::new();
        if f.epoch != 0 { s += &format!("{}!", f.epoch); }
        s += &rel(false);
        if let Some((l, n)) = f.pre { s += &format!("{l}{n}"); }
        if let Some(n) = f.post { s += &format!(".post{n}"); }
        if let Some(n) = f.dev { s += &format!(".dev{n}"); }
        if let Some(l) = f.local { s += &format!("+{l}"); }
        out.push(s);
    }
    // 2 upper case, long labels, - and _ separators
    {
        let mut s = String::new();
        if f.epoch != 0 { s += &format!("{}!", f.epoch); }
        s += &rel(false);
        if let Some((l, n)) = f.pre {
            let long = match l { "a" => "ALPHA", "b" => "Beta", _ => "PREVIEW" };
            s += &format!("-{long}_{n}");
        }
        if let Some(n) = f.post { s += &format!("_REV-{n}"); }
        if let Some(n) = f.dev { s += &format!("-DEV_{n}"); }
        if let Some(l) = f.local { s += &format!("+{}", l.to_uppercase().replace('.', "-")); }
        out.push(s);
    }
    // 3 leading zeros and v prefix
    {
        let mut s = String::from("v");
        if f.epoch != 0 { s += &format!("0{}!", f.epoch); }
        s += &rel(true);
        if let Some((l, n)) = f.pre { let l2 = if l == "rc" { "c" } else { l }; s += &format!(".{l2}.00{n}"); }
        if let Some(n) = f.post { s += &format!(".r0{n}"); }
        if let Some(n) = f.dev { s += &format!("dev0{n}"); }
        if let Some(l) = f.local {
            let parts: Vec<String> = l.split('.').map(|p| if p.bytes().all(|b| b.is_ascii_digit()) { format!("00{p}") } else { p.to_string() }).collect();
            s += &format!("+{}", parts.join("_"));
        }
        out.push(s);
    }
    // 4 extra trailing zero release numbers
    {
        let mut s = String::from("V");
        if f.epoch != 0 { s += &format!("{}!", f.epoch); }
        s += &rel(false);
        s += ".0.0";
        if let Some((l, n)) = f.pre { let l2 = if l == "rc" { "pre" } else { l }; s += &format!("{l2}{n}"); }
        if let Some(n) = f.post { s += &format!("-{n}"); }
        if let Some(n) = f.dev { s += &format!(".dev{n}"); }
        if let Some(l) = f.local { s += &format!("+{l}"); }
        out.push(s);
    }
    // 5 explicit epoch 0, implicit numbers where the value is 0
    {
        let mut s = format!("{}!", f.epoch);
        s += &rel(false);
        s += ".0";
        if let Some((l, n)) = f.pre { s += l; if n != 0 { s += &n.to_string(); } }
        if let Some(n) = f.post { s += ".post"; if n != 0 { s += &n.to_string(); } }
        if let Some(n) = f.dev { s += ".dev"; if n != 0 { s += &n.to_string(); } }
        if let Some(l) = f.local { s += &format!("+{l}"); }
        out.push(s);
    }
    out
}

/// values at the top of the u32 range: a key packed into one integer (phase * MAX + number and the like) collides here
fn boundary_universe() -> (Vec<V>, usize) {
    const M: u32 = u32::MAX;
    build_universe(&[0, M], &[vec![1], vec![M], vec![1, M], vec![1, 0], vec![1, M, 1], vec![1, 2147483648, 2147483648], vec![1, 0, 0, M]], &[None, Some(("a", 0)), Some(("a", M)), Some(("b", 0)), Some(("b", M)), Some(("rc", 0)), Some(("rc", M))],
        &[None, Some(0), Some(M)], &[None, Some(0), Some(M)], &[None, Some("4294967295"), Some("4294967296"), Some("9999999999"), Some("10000000000"), Some("1z"), Some("a")])
}

/// long alphabetic local parts that share a long prefix (a comparison through a fixed-size buffer or a hash would tie them)
fn long_local_universe() -> (Vec<V>, usize) {
    use std::sync::OnceLock;
    static NAMES: OnceLock<Vec<&'static str>> = OnceLock::new();
    let names = NAMES.get_or_init(|| {
        let mut v: Vec<&'static str> = vec![];
        for n in [31usize, 63, 64, 65, 127, 128, 255, 300] { for tail in ["", "a", "b", "a.1", "b.0"] {
            let s: &'static str = Box::leak(format!("{}{}", "a".repeat(n), tail).into_boxed_str()); v.push(s);
        }}
        v
    });
    let locals: Vec<Option<&'static str>> = std::iter::once(None).chain(names.iter().map(|s| Some(*s))).collect();
    build_universe(&[0], &[vec![1, 0]], &[None, Some(("rc", 1))], &[None], &[None], &locals)
}

/// releases of every length 1..=20 (and 33, 65), all zero behind the first number or with a non-zero last number: trailing
/// zeros are padding at every length, a non-zero number counts at every position
fn release_length_universe() -> (Vec<V>, usize) {
    let mut releases: Vec<Vec<u32>> = vec![];
    for len in (1..=20usize).chain([33, 65]) {
        let mut z = vec![0u32; len]; z[0] = 1; releases.push(z.clone());
        if len > 1 { z[len - 1] = 1; releases.push(z.clone()); z[len - 1] = 2; releases.push(z); }
    }
    build_universe(&[0], &releases, &[None, Some(("rc", 1))], &[None, Some(5)], &[None], &[None])
}

/// local parts shaped like commit ids and other long identifiers, for every common-prefix length 1..=40: the part itself,
/// and the part continued by one of two different characters (prefix-is-lower and "differs only at position L")
fn prefix_local_universe() -> (Vec<V>, usize) {
    use std::sync::OnceLock;
    static NAMES: OnceLock<Vec<&'static str>> = OnceLock::new();
    let names = NAMES.get_or_init(|| {
        let mut v: Vec<&'static str> = vec![];
        for base in ["g54c499aa1b2c3d4e5f60718293a4b5c6d7e8f90a", "54c499aa1b2c3d4e5f60718293a4b5c6d7e8f90ab", "nightlybuildfromthereleasebranchofproject"] {
            for l in 1..=40usize { for tail in ["", "a", "b"] {
                let s: &'static str = Box::leak(format!("{}{}", &base[..l], tail).into_boxed_str());
                if !s.bytes().all(|b| b.is_ascii_digit()) && !v.contains(&s) { v.push(s); }
            }}
        }
        v
    });
    let locals: Vec<Option<&'static str>> = std::iter::once(None).chain(names.iter().map(|s| Some(*s))).collect();
    build_universe(&[0], &[vec![1, 0]], &[None], &[None], &[None], &locals)
}

/// Local parts that look like a label with a number glued to it (platform and distribution tags: cp39 / cp310, el9 / el10, ubuntu9, rc1, post2):
/// letter stems of 1..6 letters x digit tails of different widths, with leading zeros, followed by a letter - alphabetic parts order as text.
fn stem_number_local_universe() -> (Vec<V>, usize) {
    use std::sync::OnceLock;
    static NAMES: OnceLock<Vec<&'static str>> = OnceLock::new();
    let names = NAMES.get_or_init(|| {
        let mut v: Vec<&'static str> = vec![];
        for stem in ["a", "aa", "cp", "el", "rc", "post", "ubuntu", "v"] { for tail in ["", "1", "9", "10", "09", "010", "1a", "9z", "39", "310", "100", "99", "4294967296"] {
            for shape in 0..3 { let s = match shape { 0 => format!("{stem}{tail}"), 1 => format!("{stem}{tail}.1"), _ => format!("1.{stem}{tail}") };
                let s: &'static str = Box::leak(s.into_boxed_str()); if !v.contains(&s) { v.push(s); } }
        }}
        v
    });
    let locals: Vec<Option<&'static str>> = std::iter::once(None).chain(names.iter().map(|s| Some(*s))).collect();
    build_universe(&[0], &[vec![1, 0]], &[None], &[None], &[None], &locals)
}

fn universe(quick: bool) -> (Vec<V>, usize) {
    let epochs = [0u32, 1];
    let releases: Vec<Vec<u32>> = if quick { vec![vec![1], vec![1, 0, 1], vec![1, 1], vec![2]] } else { vec![vec![1], vec![1, 0, 1], vec![1, 1], vec![2], vec![1, 0, 0, 1], vec![0], vec![10]] };
    let pres: Vec<Option<(&'static str, u32)>> = vec![None, Some(("a", 0)), Some(("a", 1)), Some(("b", 0)), Some(("rc", 1)), Some(("rc", 10))];
    let posts = [None, Some(0u32), Some(1)];
    let devs = [None, Some(0u32), Some(1)];
    let locals: Vec<Option<&'static str>> = if quick { vec![None, Some("1"), Some("9"), Some("10"), Some("a"), Some("1.a"), Some("a.9"), Some("a.10")] } else { vec![None, Some("1"), Some("2"), Some("9"), Some("10"), Some("a"), Some("b"), Some("1.a"), Some("a.1"), Some("a.a"), Some("a.9"), Some("a.10"), Some("a1"), Some("a.1.0")] };
    build_universe(&epochs, &releases, &pres, &posts, &devs, &locals)
}

fn build_universe(epochs: &[u32], releases: &[Vec<u32>], pres: &[Option<(&'static str, u32)>], posts: &[Option<u32>], devs: &[Option<u32>], locals: &[Option<&'static str>]) -> (Vec<V>, usize) {
    let mut out = vec![];
    let mut vid = 0;
    for &e in epochs { for r in releases { for p in pres { for &po in posts { for &d in devs { for l in locals {
        let f = Fields { epoch: e, release: r.clone(), pre: *p, post: po, dev: d, local: *l };
        let sp = spellings(&f);
        let r0 = rp::parse(&sp[0]).unwrap_or_else(|| machinery_error(&format!("model rejects {:?}", sp[0])));
        for t in sp {
            let r = rp::parse(&t).unwrap_or_else(|| machinery_error(&format!("model rejects spelling {t:?}")));
            if rp::cmp_c11(&r, &r0) != Ordering::Equal || false && r.normal() != {
                // spelling 4/5 add trailing zeros, so normal forms may differ only in release padding
                r.normal()
            } { machinery_error(&format!("generator bug: spelling {t:?} is not the same version as {:?}", r0.normal())); }
            // a spelling of a valid version that the real parser refuses is a verdict about zerv, not a machinery problem
            let z = match PEP440::from_str(&t) { Ok(z) => z, Err(e) => { REJECTED.lock().unwrap().push((t.clone(), e.to_string())); continue; } };
            out.push(V { text: t, vid, z, r });
        }
        vid += 1;
    }}}}}}
    (out, vid)
}

fn check_pairs(ctx: &Ctx, u: &[V]) -> Stats {
    (0..u.len()).into_par_iter().map(|i| {
        let mut st = Stats::default();
        let a = &u[i];
        for b in u.iter() {
            st.inc("pairs");
            let got = match catch(|| (a.z.cmp(&b.z), a.z == b.z, a.z.partial_cmp(&b.z), a.z < b.z)) {
                Ok(g) => g,
                Err(p) => { ctx.violation(&format!("panic@{}", p.file()), format!("{} ? {}", a.text, b.text), json!({"kind":"pair","a":a.text,"b":b.text}), p.message); continue; }
            };
            let want = rp::cmp_c11(&a.r, &b.r);
            st.observe(&(i, &b.text, got.0 as i8));
            let case = || json!({"kind":"pair","a":a.text,"b":b.text});
            let key = || format!("{} ? {}", a.text, b.text);
            if a.vid == b.vid {
                st.inc("same_version_spelling_pairs");
                if got.0 != Ordering::Equal || !got.1 {
                    ctx.violation("spellings_not_equal", key(), case(), format!("two spellings of one version: cmp {:?}, == {}", got.0, got.1));
                    continue;
                }
            }
            if want != Ordering::Equal { st.inc("want_unequal"); }
            if got.0 != want {
                ctx.violation("order_mismatch", key(), case(), format!("cmp gives {:?}, the C11 key gives {:?}", got.0, want));
            }
            if got.1 != (got.0 == Ordering::Equal) {
                ctx.violation("eq_inconsistent_with_cmp", key(), case(), format!("== is {} but cmp is {:?}", got.1, got.0));
            }
            if got.2 != Some(got.0) || got.3 != (got.0 == Ordering::Less) {
                ctx.violation("partial_cmp_inconsistent", key(), case(), format!("partial_cmp {:?}, < {}, cmp {:?}", got.2, got.3, got.0));
            }
            let back = b.z.cmp(&a.z);
            if back != got.0.reverse() {
                ctx.violation("not_antisymmetric", key(), case(), format!("cmp(a,b)={:?} cmp(b,a)={:?}", got.0, back));
            }
        }
        st
    }).reduce(Stats::default, Stats::merge)
}

fn check_triples(ctx: &Ctx, u: &[&V]) -> Stats {
    let n = u.len();
    let m: Vec<Vec<Ordering>> = u.par_iter().map(|a| u.iter().map(|b| a.z.cmp(&b.z)).collect()).collect();
    (0..n).into_par_iter().map(|i| {
        let mut st = Stats::default();
        for j in 0..n { for k in 0..n {
            st.inc("triples");
            let (ab, bc, ac) = (m[i][j], m[j][k], m[i][k]);
            let bad = (ab != Ordering::Greater && bc != Ordering::Greater)
                && (ac == Ordering::Greater || ((ab == Ordering::Less || bc == Ordering::Less) && ac != Ordering::Less));
            if bad {
                ctx.violation("not_transitive", format!("{} , {} , {}", u[i].text, u[j].text, u[k].text),
                    json!({"kind":"triple","a":u[i].text,"b":u[j].text,"c":u[k].text}), format!("ab={ab:?} bc={bc:?} ac={ac:?}"));
            }
        }}
        st
    }).reduce(Stats::default, Stats::merge)
}

fn check_max_tag(ctx: &Ctx, u: &[&V]) -> Stats {
    let n = u.len();
    (0..n).into_par_iter().map(|i| {
        let mut st = Stats::default();
        for j in 0..n { for k in 0..n {
            let mut idx = vec![i];
            if j != i { idx.push(j); }
            if k != i && k != j { idx.push(k); }
            let tags: Vec<(String, VersionObject)> = idx.iter().map(|&x| (u[x].text.clone(), VersionObject::PEP440(u[x].z.clone()))).collect();
            st.inc("max_tag_sets");
            let names = || idx.iter().map(|&x| u[x].text.clone()).collect::<Vec<_>>();
            let got = match catch(|| GitUtils::find_max_version_tag(&tags)) {
                Ok(Ok(Some(t))) => t,
                other => { ctx.violation("max_tag_failed", format!("{:?}", names()), json!({"kind":"maxtag","tags":names()}), format!("{other:?}")); continue; }
            };
            let Some(g) = idx.iter().find(|&&x| u[x].text == got) else {
                ctx.violation("max_tag_not_a_member", got.clone(), json!({"kind":"maxtag","tags":names()}), "returned tag is not in the set".into()); continue;
            };
            if idx.iter().any(|&x| rp::cmp_c11(&u[x].r, &u[*g].r) == Ordering::Greater) {
                ctx.violation("max_tag_not_maximal", format!("{:?}", names()), json!({"kind":"maxtag","tags":names()}), format!("returned {got}"));
            }
        }}
        st
    }).reduce(Stats::default, Stats::merge)
}

/// one list of tags (in the given order) through find_max_version_tag: the result is a member and no member ranks above it
fn judge_tag_list(ctx: &Ctx, texts: &[String], st: &mut Stats) {
    st.inc("long_tag_lists");
    let parsed: Vec<(String, PEP440, rp::Parsed)> = texts.iter().map(|t| (t.clone(), PEP440::from_str(t).unwrap_or_else(|e| machinery_error(&format!("list member {t}: {e}"))), rp::parse(t).unwrap())).collect();
    let tags: Vec<(String, VersionObject)> = parsed.iter().map(|(t, z, _)| (t.clone(), VersionObject::PEP440(z.clone()))).collect();
    let key = format!("{} tags: {} ... {}", texts.len(), texts[..texts.len().min(3)].join(" "), texts[texts.len().saturating_sub(3)..].join(" "));
    let case = json!({"kind":"maxtag","tags":texts});
    match catch(|| GitUtils::find_max_version_tag(&tags)) {
        Ok(Ok(Some(t))) => match parsed.iter().find(|(x, _, _)| *x == t) {
            None => ctx.violation("max_tag_not_a_member", key, case, format!("returned {t:?}")),
            Some((_, _, r)) => if let Some((b, _, _)) = parsed.iter().find(|(_, _, o)| rp::cmp_c11(o, r) == Ordering::Greater) { ctx.violation("max_tag_not_maximal", key, case, format!("returned {t}, but {b} ranks above it")); },
        },
        Ok(other) => ctx.violation("max_tag_failed", key, case, format!("{other:?}")),
        Err(p) => ctx.violation(&format!("panic@{}", p.file()), key, case, p.message),
    }
}

static REJECTED: std::sync::Mutex<Vec<(String, String)>> = std::sync::Mutex::new(Vec::new());

fn main() {
    let ctx = Ctx::from_args("C11", "model_checking");
    if let Some(case) = ctx.replay_case() {
        let mk = |t: &str, vid: usize| { let t = t.to_string(); V { z: PEP440::from_str(&t).unwrap(), r: rp::parse(&t).unwrap(), text: t, vid } };
        match case["kind"].as_str() {
            Some("pair") => {
                let (a, b) = (mk(case["a"].as_str().unwrap(), 0), mk(case["b"].as_str().unwrap(), 1));
                let same = rp::cmp_c11(&a.r, &b.r) == Ordering::Equal && a.r.local == b.r.local;
                let u = vec![a, V { vid: if same { 0 } else { 1 }, ..b }];
                check_pairs(&ctx, &u);
            }
            Some("triple") => { let u = vec![mk(case["a"].as_str().unwrap(), 0), mk(case["b"].as_str().unwrap(), 1), mk(case["c"].as_str().unwrap(), 2)]; check_triples(&ctx, &u.iter().collect::<Vec<_>>()); }
            Some("maxtag") => { let u: Vec<V> = case["tags"].as_array().unwrap().iter().enumerate().map(|(i, t)| mk(t.as_str().unwrap(), i)).collect(); check_max_tag(&ctx, &u.iter().collect::<Vec<_>>()); }
            _ => machinery_error("bad replay kind"),
        }
        finish(&ctx, Coverage::default());
    }
    let (u, n_versions) = universe(ctx.quick());
    let s_pairs = check_pairs(&ctx, &u);
    let (ub, nb_versions) = boundary_universe();
    let s_bound = check_pairs(&ctx, &ub);
    let s_pairs = s_pairs.merge(s_bound);
    let (ul, nl_versions) = long_local_universe();
    let s_pairs = s_pairs.merge(check_pairs(&ctx, &ul));
    let (ur, nr_versions) = release_length_universe();
    let s_pairs = s_pairs.merge(check_pairs(&ctx, &ur));
    let (up, np_versions) = prefix_local_universe();
    let s_pairs = s_pairs.merge(check_pairs(&ctx, &up));
    let (us, ns_versions) = stem_number_local_universe();
    let s_pairs = s_pairs.merge(check_pairs(&ctx, &us));
    // (all triples of the plain stem+number parts: a cycle needs three of them)
    let us_plain: Vec<&V> = us.iter().filter(|v| !v.text.contains("+1.") && !v.text.ends_with(".1")).collect();
    let s_pairs = s_pairs.merge(check_triples(&ctx, &us_plain));
    // dense numeric sweeps: every value 0..=K in one field at a time, all ordered pairs per field
    let k = if ctx.quick() { 1000usize } else { 4000 };
    let mut s_pairs = s_pairs;
    let mut sweep_states = 0u64;
    for shape in ["{N}!1.0", "{N}.0", "1.{N}", "1.0.{N}", "1.0a{N}", "1.0rc{N}", "1.0.post{N}", "1.0.dev{N}", "1.0+{N}", "1.0+a.{N}", "1.0+{N}a", "{N}!{N}.{N}b{N}.post{N}.dev{N}+{N}"] {
        let u: Vec<V> = (0..=k).filter_map(|n| {
            let t = shape.replace("{N}", &n.to_string());
            let r = rp::parse(&t).unwrap_or_else(|| machinery_error(&format!("model rejects {t:?}")));
            match PEP440::from_str(&t) { Ok(z) => Some(V { z, r, text: t, vid: n }), Err(e) => { REJECTED.lock().unwrap().push((t.clone(), e.to_string())); None } }
        }).collect();
        sweep_states += u.len() as u64;
        s_pairs = s_pairs.merge(check_pairs(&ctx, &u));
    }
    // carry universes: for every value g of the dense grid (numpool) that fits the 32-bit fields, all ordered pairs of
    // epoch {0,1} x release {1, 1.0, 1.g, 1.g.0, 1.0.g, 2} x pre {-, a0, a<g>} x post {-, 0, g} x dev {-, g}: a comparison on a packed,
    // truncated or summed key confuses two members at one g
    {
        let grid = numpool::grid_u32();
        let per: Vec<Stats> = grid.par_iter().map(|&g| {
            let mut texts = vec![];
            for e in ["", "1!"] { for r in ["1", "1.0", "1.{g}", "1.{g}.0", "1.0.{g}", "2"] { for pre in ["", "a0", "a{g}"] { for post in ["", ".post0", ".post{g}"] { for dev in ["", ".dev{g}"] {
                texts.push(format!("{e}{r}{pre}{post}{dev}").replace("{g}", &g.to_string()));
            }}}}}
            texts.sort(); texts.dedup();
            let u: Vec<V> = texts.into_iter().enumerate().filter_map(|(i, t)| {
                let r = rp::parse(&t).unwrap_or_else(|| machinery_error(&format!("model rejects {t:?}")));
                match PEP440::from_str(&t) { Ok(z) => Some(V { z, r, text: t, vid: usize::MAX - i }), Err(e) => { REJECTED.lock().unwrap().push((t.clone(), e.to_string())); None } }
            }).collect();
            let mut st = check_pairs(&ctx, &u);
            st.add("carry_universe_versions", u.len() as u64);
            st
        }).collect();
        for st in per { sweep_states += st.get("carry_universe_versions"); s_pairs = s_pairs.merge(st); }
    }
    // long tag lists: n tags on one commit for every n in 1..=70 and around 100, 128, 256, 512, 1000, 1024: distinct lower fillers
    // plus two top candidates that spell one release with different numbers of trailing zeros and differ in a later field, the
    // greater one first / in the middle / last, the list in both directions
    let s_long = {
        let mut ns: Vec<usize> = (1..=70).collect();
        ns.extend([99, 100, 101, 127, 128, 129, 255, 256, 257, 511, 512, 513, 999, 1000, 1001, 1023, 1024, 1025]);
        if !ctx.quick() { ns.extend([4095, 4096, 4097, 10000]); }
        let jobs: Vec<(usize, usize, usize)> = ns.iter().flat_map(|&n| (0..3).flat_map(move |pos| (0..5).map(move |pair| (n, pos, pair)))).collect();
        jobs.par_iter().map(|&(n, pos, pair)| {
            let mut st = Stats::default();
            let (top, second) = [("9.0.post1", "9.0.0"), ("9.0", "9.0.0a1"), ("1!3.post2", "1!3.0.post1"), ("9.1", "9.0.99"), ("9.0.0+b", "9.0+a")][pair];
            let mut l: Vec<String> = (0..n.saturating_sub(2)).map(|i| format!("0.{}.{}", i / 50, i % 50 + 1)).collect();
            if n >= 2 { l.push(second.to_string()); }
            let at = match pos { 0 => 0, 1 => l.len() / 2, _ => l.len() };
            l.insert(at, top.to_string());
            judge_tag_list(&ctx, &l, &mut st);
            l.reverse();
            judge_tag_list(&ctx, &l, &mut st);
            st
        }).reduce(Stats::default, Stats::merge)
    };
    // near-aliases: tag names that fall together under a careless canonicalisation (case, `v`, `-` / `_` / `.` taken as one
    // separator, zeros dropped) although they denote different versions - `1.0-1` is 1.0.post1, `1.0.1` is not; every pair and
    // every triple of one family on one commit, in every order
    let s_alias = {
        let mut fams: Vec<Vec<String>> = vec![];
        for base in ["1.0", "2.3", "1!1.0", "V1.0", "v2.03"] { for n in ["1", "2", "04", "10"] {
            let mut fam: Vec<String> = vec![base.to_string()];
            for sep in ["", ".", "-", "_"] { for word in ["", "post", "rev", "r", "a", "rc", "c", "dev", "POST", "Alpha", "pre"] {
                fam.push(format!("{base}{sep}{word}{n}"));
                if !word.is_empty() { fam.push(format!("{base}{sep}{word}{sep}{n}")); fam.push(format!("{base}{sep}{word}")); }
                fam.push(format!("{base}{sep}{word}{n}.dev1"));
            }}
            fam.sort(); fam.dedup();
            fam.retain(|t| rp::parse(t).is_some() && PEP440::from_str(t).is_ok());
            fams.push(fam);
        }}
        fams.par_iter().map(|fam| {
            let mut st = Stats::default();
            st.add("near_alias_texts", fam.len() as u64);
            for a in fam { for b in fam { if a != b { st.inc("near_alias_lists"); judge_tag_list(&ctx, &[a.clone(), b.clone()], &mut st); } } }
            let small: Vec<&String> = fam.iter().step_by(5).collect();
            for a in &small { for b in &small { for c in &small { if a != b && b != c && a != c { st.inc("near_alias_lists"); judge_tag_list(&ctx, &[(*a).clone(), (*b).clone(), (*c).clone()], &mut st); } } } }
            st
        }).reduce(Stats::default, Stats::merge)
    };
    let tri_n = if ctx.quick() { 150 } else { 400 };
    let stride = (u.len() / tri_n).max(1);
    // stride chosen odd relative to 5 spellings so that all spellings occur
    let stride = if stride % 5 == 0 { stride + 1 } else { stride };
    let sub: Vec<&V> = u.iter().step_by(stride).take(tri_n).collect();
    let s_tri = check_triples(&ctx, &sub);
    let mt_n = if ctx.quick() { 40 } else { 80 };
    let stride2 = { let s = (u.len() / mt_n).max(1); if s % 5 == 0 { s + 1 } else { s } };
    let sub2: Vec<&V> = u.iter().step_by(stride2).take(mt_n).collect();
    let s_mt = check_max_tag(&ctx, &sub2);
    // determinism: replay the pair matrix of the first 1500 members
    let head = &u[..u.len().min(1500)];
    if check_pairs(&ctx, head).digest != check_pairs(&ctx, head).digest { machinery_error("determinism replay diverged"); }

    let all = s_pairs.clone().merge(s_tri).merge(s_mt).merge(s_long).merge(s_alias);
    for (t, e) in REJECTED.lock().unwrap().iter() { ctx.violation("universe_member_rejected", format!("{t:?}"), json!({"kind":"member","text":t}), format!("the real parser rejects this spelling of a valid version: {e}")); }
    let mut cov = Coverage::default();
    cov.states = (u.len() + ub.len() + ul.len() + ur.len() + up.len()) as u64 + sweep_states;
    cov.set("release_length_versions", nr_versions as u64);
    cov.transitions = all.get("pairs");
    cov.evaluations = all.get("pairs") + all.get("triples") + all.get("max_tag_sets");
    cov.traces_validated = cov.evaluations;
    cov.distinct_nontrivial = s_pairs.get("want_unequal") + s_pairs.get("same_version_spelling_pairs");
    cov.set("stem_number_local_universe", json!(format!("{ns_versions} versions whose local part is a letter stem (a, aa, cp, el, rc, post, ubuntu, v) with a digit tail of varying width / leading zeros / a trailing letter, alone and beside a numeric part: all ordered pairs, all triples of the plain parts")));
    cov.rule = format!("{n_versions} abstract versions (epoch x release x pre x post x dev x local field universe), each written in 5 spellings (normal; upper case + long labels + -/_ separators; leading zeros + v; trailing .0.0 release + alternative labels + -N post; explicit epoch + .0 + implicit zero numbers) and parsed by the real parser = {} objects; ALL ordered pairs of objects vs the C11 key, spellings of one version must be ==; a second universe of {nb_versions} versions whose epoch / release / pre / post / dev numbers sit at 0 and 2^32-1 (all ordered pairs of its spellings as well); a third universe of {nl_versions} versions whose local parts are 31..300 characters long and share their prefix; a fourth universe of {nr_versions} versions whose release has 1..20, 33 and 65 numbers (all zero behind the first, or with a non-zero last number); a fifth universe of {np_versions} versions whose local part is a commit-id-like or word-like identifier cut at every length 1..=40 and continued by one of two characters; dense sweeps of every number 0..=1000 (thorough 4000) in each of 12 positions (epoch, release numbers, pre / post / dev numbers, numeric and alphanumeric local parts), all ordered pairs per position; all triples of a {}-element sub-universe; find_max_version_tag on all ordered selections of <=3 of {} objects. non-trivial = pairs that differ under the key or are distinct spellings of one version", u.len(), sub.len(), sub2.len());
    cov.exhaustive = true;
    cov.samples = vec![json!({"a": u[7].text, "b": u[u.len()/2+3].text}), json!({"a": u[u.len()-1].text, "b": u[u.len()-4].text}), json!({"a": u[11].text, "b": u[13].text})];
    cov.set("clause_counts", all.to_json());
    cov.assumptions = vec!["the order is the key stated in property C11 (dev-only releases sort after pre-releases), not packaging's".into(), "field values outside the stated universe are not explored".into()];
    finish(&ctx, cov);
}
