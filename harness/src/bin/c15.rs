//! C15 — template variables agree with the rendered version; functions keep their contracts.
use rayon::prelude::*;
use serde_json::json;
use zerv::cli::utils::OutputFormatter;
use zerv::cli::utils::template::Template;
use zerv::version::Zerv;
use zvharness::refmodel::ren::{self, RComp, RSchema, RVar, RVars};
use zvharness::refmodel::{cal, flow, san};
use zvharness::zv::{self, Res};
use zvharness::*;

const SEP: char = '\u{1e}';

fn render(z: &Zerv, template: &str) -> Result<Result<String, String>, PanicInfo> {
    catch(|| OutputFormatter::format_output(z, "semver", None, &Some(Template::new(template.to_string()))).map_err(|e| e.to_string()))
}

fn fmt(z: &Zerv, f: &str) -> Result<Result<String, String>, PanicInfo> {
    catch(|| OutputFormatter::format_output(z, f, None, &None).map_err(|e| e.to_string()))
}

fn seqs(alpha: &[RComp], max: usize, valid: &dyn Fn(&[RComp]) -> bool) -> Vec<Vec<RComp>> {
    let mut out: Vec<Vec<RComp>> = vec![vec![]];
    let mut lvl: Vec<Vec<RComp>> = vec![vec![]];
    for _ in 0..max {
        let mut next = vec![];
        for l in &lvl { for a in alpha { let mut n = l.clone(); n.push(a.clone()); if valid(&n) { next.push(n); } } }
        out.extend(next.iter().cloned());
        lvl = next;
    }
    out
}
fn core_valid(s: &[RComp]) -> bool {
    let mut last = -1i32;
    for c in s { let r = match c { RComp::Var(RVar::Major) => 0, RComp::Var(RVar::Minor) => 1, RComp::Var(RVar::Patch) => 2, _ => continue }; if r <= last { return false; } last = r; }
    true
}
fn extra_valid(s: &[RComp]) -> bool {
    for v in [RVar::Epoch, RVar::PreRelease, RVar::Post, RVar::Dev] { if s.iter().filter(|c| **c == RComp::Var(v.clone())).count() > 1 { return false; } }
    true
}

fn assignments() -> Vec<(&'static str, RVars)> {
    vec![
        ("all_set", RVars { major: Some(1), minor: Some(2), patch: Some(3), epoch: Some(2), pre: Some(("rc", Some(4))), post: Some(5), dev: Some(6), distance: Some(7), dirty: Some(true),
            bumped_branch: Some("feature/x".into()), bumped_commit_hash: Some("g1a2b3c4d5e6f".into()), bumped_timestamp: Some(1709247600), last_branch: Some("main".into()),
            last_commit_hash: Some("g0000000aaaa".into()), last_timestamp: Some(1700000000), custom: json!({"k": "v1"}) }),
        ("all_unset", RVars { custom: json!({}), ..Default::default() }),
        ("post_dev_no_label", RVars { major: Some(1), minor: Some(2), patch: Some(3), post: Some(4), dev: Some(5), custom: json!({"k": 1}), ..Default::default() }),
        ("zeros", RVars { major: Some(0), minor: Some(0), patch: Some(0), epoch: Some(0), pre: Some(("beta", Some(0))), post: Some(0), dev: Some(0), distance: Some(0), dirty: Some(false), bumped_branch: Some("0".into()), custom: json!({"k": 0}), ..Default::default() }),
        ("label_only", RVars { major: Some(10), pre: Some(("alpha", None)), dev: Some(9), bumped_branch: Some("Feat/0042_x".into()), bumped_commit_hash: Some("ABC".into()), custom: json!({"k": "Ab.01-x"}), ..Default::default() }),
        ("epoch_post", RVars { major: Some(4294967295), minor: Some(1), epoch: Some(7), post: Some(1), custom: json!({"k": {"a": 1}}), ..Default::default() }),
        // numbers PEP 440's 32-bit fields cannot hold: --output-format pep440 refuses them; the template variable must not print another number
        // custom keys named exactly like the template's own variables, with those variables unset and set: a custom value never stands in for a variable
        ("custom_named_like_variables_unset", RVars { major: Some(1), custom: json!({"major": 9, "minor": 4, "patch": 6, "epoch": 9, "post": 7, "dev": 8, "distance": 5, "dirty": true, "bumped_branch": "x", "bumped_commit_hash": "gabcdef0123", "bumped_timestamp": 1, "last_commit_hash": "gdef", "last_timestamp": 2, "last_branch": "lb", "semver": "9.9.9", "pep440": "9.9.9", "custom": "c", "pre_release": {"label": "rc", "number": 3}, "semver_obj": {"docker": "d"}, "current_timestamp": 3}), ..Default::default() }),
        ("custom_named_like_variables_set", RVars { major: Some(1), minor: Some(2), patch: Some(3), epoch: Some(2), pre: Some(("rc", Some(4))), post: Some(5), dev: Some(6), distance: Some(7), dirty: Some(true), bumped_branch: Some("feature/x".into()), bumped_commit_hash: Some("g1a2b3c4d5e6f".into()), bumped_timestamp: Some(1709247600),
            last_commit_hash: Some("g0000000aaaa".into()), last_timestamp: Some(1700000000), custom: json!({"major": 9, "post": 77, "dev": 88, "epoch": 99, "distance": 55, "dirty": false, "bumped_branch": "y", "semver": "9.9.9", "pep440": "9.9.9", "pre_release": {"label": "alpha", "number": 30}}), ..Default::default() }),
        ("wide_secondary", RVars { major: Some(1), minor: Some(0), patch: Some(0), epoch: Some(4294967296), pre: Some(("rc", Some(4294967296))), post: Some(4294967297), dev: Some(18446744073709551615), custom: json!({"k": 1}), ..Default::default() }),
    ]
}

/// {{semver}}/{{pep440}} equal the formatters; parts recompose; docker form
fn judge_object(ctx: &Ctx, s: &RSchema, name: &str, v: &RVars, st: &mut Stats) {
    let Ok(z) = bind::zerv(s, v) else { return };
    st.inc("objects");
    let key = format!("{:?} | {:?} | {:?} [{name}]", s.core, s.extra_core, s.build);
    let case = json!({"kind":"object","schema":format!("{s:?}"),"vars":name});
    let t = format!("[{{{{ semver }}}}{SEP}{{{{ pep440 }}}}{SEP}{{{{ semver_obj.base_part }}}}{SEP}{{{{ semver_obj.pre_release_part }}}}{SEP}{{{{ semver_obj.build_part }}}}{SEP}{{{{ semver_obj.docker }}}}{SEP}{{{{ pep440_obj.base_part }}}}{SEP}{{{{ pep440_obj.pre_release_part }}}}{SEP}{{{{ pep440_obj.build_part }}}}]");
    let out = match render(&z, &t) {
        Err(p) => { ctx.violation(&format!("panic@{}", p.file()), key, case, p.message); return; }
        Ok(Err(e)) => { ctx.violation("version_template_failed", key, case, e); return; }
        Ok(Ok(o)) => o,
    };
    st.observe(&out);
    let inner = out.strip_prefix('[').and_then(|x| x.strip_suffix(']')).unwrap_or(&out);
    let f: Vec<&str> = inner.split(SEP).collect();
    if f.len() != 9 { ctx.violation("version_template_shape", key, case, format!("{out:?}")); return; }
    let (sv, pv) = (fmt(&z, "semver"), fmt(&z, "pep440"));
    if let Ok(Ok(sv)) = &sv {
        st.inc("clause_semver_equal");
        if f[0] != sv { ctx.violation("semver_variable_differs_from_format", key.clone(), case.clone(), format!("{{{{semver}}}}={:?} but --output-format semver prints {sv:?}", f[0])); }
        let mut re = f[2].to_string();
        if !f[3].is_empty() { re.push('-'); re.push_str(f[3]); }
        if !f[4].is_empty() { re.push('+'); re.push_str(f[4]); }
        if re != *sv { ctx.violation("semver_parts_do_not_recompose", key.clone(), case.clone(), format!("base {:?} pre {:?} build {:?} vs {sv:?}", f[2], f[3], f[4])); }
        if f[5] != sv.replace('+', "-") { ctx.violation("docker_form_mismatch", key.clone(), case.clone(), format!("docker {:?} vs semver {sv:?}", f[5])); }
    }
    if let Ok(Err(_)) = &pv {
        // the formatter refuses the object (a number does not fit the format): the variable is refused as well (empty) or spells
        // the documented placement with every number exact - never a version with another number in it
        st.inc("clause_pep440_refused_by_formatter");
        let exact = ren::pep440(s, v);
        if !f[1].is_empty() && f[1] != exact { ctx.violation("pep440_variable_alters_unrepresentable_number", key.clone(), case.clone(), format!("{{{{pep440}}}}={:?} although --output-format pep440 refuses the object; exact placement would be {exact:?}", f[1])); }
    }
    if let Ok(Ok(pv)) = &pv {
        st.inc("clause_pep440_equal");
        if f[1] != pv { ctx.violation("pep440_variable_differs_from_format", key.clone(), case.clone(), format!("{{{{pep440}}}}={:?} but --output-format pep440 prints {pv:?}", f[1])); }
        let mut re = format!("{}{}", f[6], f[7]);
        if !f[8].is_empty() { re.push('+'); re.push_str(f[8]); }
        if re != *pv { ctx.violation("pep440_parts_do_not_recompose", key.clone(), case.clone(), format!("base {:?} pre {:?} build {:?} vs {pv:?}", f[6], f[7], f[8])); }
    }
}

fn opt<T: ToString>(o: &Option<T>) -> String { o.as_ref().map(|x| x.to_string()).unwrap_or_default() }

/// scalar variables equal the Zerv variables (on trimmed values)
fn judge_scalars(ctx: &Ctx, name: &str, v: &RVars, st: &mut Stats) {
    let s = RSchema { core: vec![RComp::Var(RVar::Major)], extra_core: vec![], build: vec![] };
    let Ok(z) = bind::zerv(&s, v) else { return };
    let short = |h: &Option<String>| h.as_ref().map(|h| h.chars().take(8).collect::<String>()).unwrap_or_default();
    let vars: Vec<(&str, String)> = vec![
        ("major", opt(&v.major)), ("minor", opt(&v.minor)), ("patch", opt(&v.patch)), ("epoch", opt(&v.epoch)), ("post", opt(&v.post)), ("dev", opt(&v.dev)), ("distance", opt(&v.distance)), ("dirty", opt(&v.dirty)),
        ("bumped_branch", opt(&v.bumped_branch)), ("bumped_commit_hash", opt(&v.bumped_commit_hash)), ("bumped_commit_hash_short", short(&v.bumped_commit_hash)), ("bumped_timestamp", opt(&v.bumped_timestamp)),
        ("last_commit_hash", opt(&v.last_commit_hash)), ("last_commit_hash_short", short(&v.last_commit_hash)), ("last_timestamp", opt(&v.last_timestamp)),
        ("pre_release.label", v.pre.map(|p| p.0.to_string()).unwrap_or_default()), ("pre_release.number", v.pre.and_then(|p| p.1).map(|n| n.to_string()).unwrap_or_default()),
        ("pre_release.label_code", v.pre.map(|p| match p.0 { "alpha" => "a", "beta" => "b", _ => "rc" }.to_string()).unwrap_or_default()),
    ];
    for (var, want) in vars {
        st.inc("scalar_checks");
        // pre_release.* on a version without pre-release is an undefined lookup in Tera: skip
        if var.starts_with("pre_release.") && v.pre.is_none() { continue; }
        let t = format!("{{{{ {var} }}}}");
        let case = json!({"kind":"scalar","var":var,"vars":name});
        match render(&z, &t) {
            Err(p) => ctx.violation(&format!("panic@{}", p.file()), format!("{var} [{name}]"), case, p.message),
            Ok(Err(e)) => ctx.violation("scalar_template_failed", format!("{var} [{name}]"), case, e),
            Ok(Ok(got)) => {
                // (the one-line result is trimmed; nothing else may happen to a value, whatever it spells)
                let w = want.trim();
                if matches!(w.to_lowercase().as_str(), "none" | "null" | "nil") { st.inc("keyword_valued_scalars"); }
                if got != w { ctx.violation("scalar_mismatch", format!("{var} [{name}]"), case, format!("got {got:?} want {w:?}")); }
            }
        }
    }
}

fn text_pool() -> Vec<String> {
    ["", "a", "main", "feature/x", "Feat/0042_x", "é", "€€€€", "日本語テキスト", "a€b", "0", "007", "1e5", "true", "none", "NULL", "nil", " padded ", "x y", "release/1.2.3-rc.1+b", "-", "..", "UPPER", "MiXeD-0010", "٣٣", "ſ", "\u{212A}", "İ",
     "0123456789abcdef", "a-very-long-branch-name-exceeding-twenty-one-chars", "€", "ab€", "abc€", "🙂", "e\u{301}x", "tab\tin", "q\"uote", "back\\slash", "{{ x }}", "%Y", "0000", "0099999999999999999999", "x.00018446744073709551616-y", "00000000000000000000000000000000000001", "$_$1", "None", "Null", "NIL", "nilpotent", "nonexistent", "null/7", "none-of-the-above", "a&b<c>d", "it's", "<script>", "&amp;"]
        .iter().map(|s| s.to_string()).collect()
}

fn judge_functions(ctx: &Ctx, text: &str, st: &mut Stats) {
    let s = RSchema { core: vec![RComp::Var(RVar::Major)], extra_core: vec![], build: vec![] };
    let v = RVars { major: Some(1), bumped_branch: Some(text.to_string()), distance: Some(12345), dirty: Some(true), custom: json!({}), ..Default::default() };
    let z = bind::zerv(&s, &v).unwrap();
    let key = |f: &str| format!("{f} on {text:?}");
    let case = |f: &str| json!({"kind":"function","function":f,"text":text});
    let call = |t: &str, f: &str, st: &mut Stats| -> Option<String> {
        st.inc("function_calls");
        match render(&z, t) {
            Err(p) => { ctx.violation(&format!("panic@{}", p.file()), key(f), case(f), format!("{} at {}", p.message, p.location)); None }
            Ok(Err(e)) => { ctx.violation("function_failed", key(f), case(f), e); None }
            Ok(Ok(o)) => o.strip_prefix('[').and_then(|x| x.strip_suffix(']')).map(|x| x.to_string()),
        }
    };
    let hash = flow::hash_str(text);
    // every length 0..=21 for every text; for six texts every length up to 130 (beyond the 16 hex / 20 decimal digits a
    // 64-bit digest has, and beyond every text's own length)
    let top = if ["", "main", "feature/x", "日本語テキスト", "a-very-long-branch-name-exceeding-twenty-one-chars", "0"].contains(&text) { 130usize } else { 21 };
    for len in 0..=top {
        // hash: at most len characters, hex
        if let Some(o) = call(&format!("[{{{{ hash(value=bumped_branch, length={len}) }}}}]"), "hash", st) {
            let want: String = format!("{hash:x}").chars().take(len).collect();
            if o.chars().count() > len || !o.chars().all(|c| c.is_ascii_hexdigit()) { ctx.violation("hash_contract", key("hash"), case("hash"), format!("length={len} -> {o:?}")); }
            else if o != want { ctx.violation("hash_value", key("hash"), case("hash"), format!("length={len} -> {o:?}, zero-keyed SipHash-1-3 gives {want:?}")); }
        }
        for alz in [false, true] {
            if let Some(o) = call(&format!("[{{{{ hash_int(value=bumped_branch, length={len}, allow_leading_zero={alz}) }}}}]"), "hash_int", st) {
                let bad = o.chars().count() > len || !o.chars().all(|c| c.is_ascii_digit()) || (!alz && o.len() > 1 && o.starts_with('0'));
                if bad { ctx.violation("hash_int_contract", key("hash_int"), case("hash_int"), format!("length={len} allow_leading_zero={alz} -> {o:?}")); }
                if !alz { let want: String = hash.to_string().chars().take(len).collect(); if o != want { ctx.violation("hash_int_value", key("hash_int"), case("hash_int"), format!("length={len} -> {o:?}, expected {want:?}")); } }
            }
        }
        // prefix: at most len characters and a prefix of the value
        if let Some(o) = call(&format!("[{{{{ prefix(value=bumped_branch, length={len}) }}}}]"), "prefix", st) {
            if o.chars().count() > len || !text.starts_with(&o) { ctx.violation("prefix_contract", key("prefix"), case("prefix"), format!("length={len} -> {o:?}")); }
            else if text.chars().count() >= len && o.chars().count() != len && text.is_ascii() { ctx.violation("prefix_too_short", key("prefix"), case("prefix"), format!("length={len} -> {o:?}")); }
        }
    }
    for p in ["+", "-", "v", ""] {
        if let Some(o) = call(&format!("[{{{{ prefix_if(value=bumped_branch, prefix=\"{p}\") }}}}]"), "prefix_if", st) {
            let want = if text.is_empty() { String::new() } else { format!("{p}{text}") };
            if o != want { ctx.violation("prefix_if_contract", key("prefix_if"), case("prefix_if"), format!("prefix={p:?} -> {o:?} want {want:?}")); }
        }
    }
    // the whole template is one expression, no surrounding text: the result is the value itself (trimmed), also when the
    // value spells a keyword of some configuration language (none / null / nil / true / ~)
    {
        let take = |n: usize| -> String { text.chars().take(n).collect() };
        let mut bare: Vec<(String, String)> = vec![("bumped_branch".into(), text.to_string()), ("prefix_if(value=bumped_branch, prefix=\"\")".into(), text.to_string()),
            ("sanitize(value=bumped_branch, separator=\"-\")".into(), san::san(text, "-", false, false)), ("sanitize(value=bumped_branch, separator=\"-\", lowercase=true)".into(), san::san(text, "-", true, false))];
        if text.is_ascii() { for n in [3usize, 4] { bare.push((format!("prefix(value=bumped_branch, length={n})"), take(n))); } }
        for (expr, want) in bare {
            st.inc("function_calls"); st.inc("bare_expression_calls");
            match render(&z, &format!("{{{{ {expr} }}}}")) {
                Err(p) => ctx.violation(&format!("panic@{}", p.file()), key(&expr), case(&expr), format!("{} at {}", p.message, p.location)),
                Ok(Err(e)) => ctx.violation("function_failed", key(&expr), case(&expr), e),
                Ok(Ok(o)) => if o != want.trim() { ctx.violation("bare_expression_differs_from_value", format!("{{{{ {expr} }}}} on {text:?}"), case("bare"), format!("printed {o:?}, the value is {:?}", want.trim())); },
            }
        }
    }
    // literal text around an expression: whatever the template *looks like* (a file name with a markup suffix, a URL, a tag, a
    // path) the expression's value appears in it unchanged - no escaping mode, no interpretation of the surrounding text
    for (pre, suf) in [("", ".html"), ("", ".htm"), ("", ".xml"), ("", ".xhtml"), ("", ".svg"), ("", ".json"), ("", ".txt"), ("", ".md"), ("", ".yaml"), ("", ".toml"), ("", ".tera"), ("", ".j2"), ("", ".sql"), ("", ".js"), ("", ".tar.gz"), ("report-", ".HTML"),
        ("<b>", "</b>"), ("<?xml version=\"1.0\"?><v>", "</v>"), ("https://x/y?v=", "&t=1"), ("index.html#", ""), ("v", ""), ("'", "'"), ("\"", "\""), ("$(", ")"), ("%", "%"), ("{# note #}", ""), ("{% raw %}{{ x }}{% endraw %}", "")] {
        st.inc("function_calls"); st.inc("literal_context_calls");
        let want = format!("{}{text}{suf}", if pre.contains("raw") { "{{ x }}" } else if pre.starts_with("{#") { "" } else { pre });
        let tpl = format!("{pre}{{{{ bumped_branch }}}}{suf}");
        match render(&z, &tpl) {
            Err(p) => ctx.violation(&format!("panic@{}", p.file()), key(&tpl), case(&tpl), format!("{} at {}", p.message, p.location)),
            Ok(Err(e)) => ctx.violation("function_failed", key(&tpl), case(&tpl), e),
            Ok(Ok(o)) => if o != want.trim() { ctx.violation("value_altered_by_literal_context", format!("{tpl} on {text:?}"), case("literal_context"), format!("printed {o:?}, expected {:?}", want.trim())); },
        }
    }
    // `length` / `max_length` written as something other than an integer literal (a fraction, a quotient, a negative number):
    // the call is refused or the result still has at most that many characters - a limit is never silently replaced by the default
    if ["a-very-long-branch-name-exceeding-twenty-one-chars", "main", "0123456789abcdef"].contains(&text) {
        for spelling in ["4.0", "4.5", "0.0", "0.5", "2.999", "9 / 2", "distance / 5000", "7 / 7", "1.0 * 3", "-1", "0 - 3", "-0.5", "distance - 12345", "distance * 1.0 - 12344.5"] {
            let limit: Option<f64> = match render(&z, &format!("{{{{ {spelling} }}}}")) { Ok(Ok(v)) => v.trim().parse::<f64>().ok(), _ => None };
            let Some(limit) = limit else { st.inc("length_spellings_without_value"); continue };
            for f in ["hash(value=bumped_branch, length=L)", "hash_int(value=bumped_branch, length=L)", "hash_int(value=bumped_branch, length=L, allow_leading_zero=true)", "prefix(value=bumped_branch, length=L)", "sanitize(value=bumped_branch, separator=\"-\", max_length=L)"] {
                let expr = f.replace("=L", &format!("={spelling}"));
                st.inc("function_calls"); st.inc("length_spelling_calls");
                match render(&z, &format!("[{{{{ {expr} }}}}]")) {
                    Err(p) => ctx.violation(&format!("panic@{}", p.file()), key(&expr), case(&expr), format!("{} at {}", p.message, p.location)),
                    Ok(Err(_)) => st.inc("length_spelling_refused"),
                    Ok(Ok(o)) => {
                        let n = o.chars().count().saturating_sub(2) as f64;
                        if limit < 0.0 || n > limit { ctx.violation("length_limit_ignored", format!("{expr} on {text:?}"), case("length_spelling"), format!("the limit evaluates to {limit}, the result {o:?} has {n} characters")); }
                    }
                }
            }
        }
    }
    // numbers and booleans as values
    for (var, txt) in [("distance", "12345"), ("dirty", "true")] {
        if let Some(o) = call(&format!("[{{{{ prefix(value={var}, length=3) }}}}{SEP}{{{{ prefix_if(value={var}, prefix=\"+\") }}}}{SEP}{{{{ sanitize(value={var}) }}}}]"), "non_string_value", st) {
            let want = format!("{}{SEP}+{txt}{SEP}{txt}", &txt[..3]);
            if o != want { ctx.violation("non_string_value_handling", key(var), case(var), format!("{o:?} want {want:?}")); }
        }
    }
    // sanitize: presets, default and custom parameter combinations
    let mut checks: Vec<(String, String)> = vec![
        ("sanitize(value=bumped_branch)".into(), san::san(text, ".", false, false)),
        ("sanitize(value=bumped_branch, preset=\"semver\")".into(), san::san(text, ".", false, false)),
        ("sanitize(value=bumped_branch, preset=\"dotted\")".into(), san::san(text, ".", false, false)),
        ("sanitize(value=bumped_branch, preset=\"pep440\")".into(), san::san(text, ".", true, false)),
        ("sanitize(value=bumped_branch, preset=\"lower_dotted\")".into(), san::san(text, ".", true, false)),
        ("sanitize(value=bumped_branch, preset=\"uint\")".into(), san::uint(text.trim())),
    ];
    for sep in [".", "-", "_"] { for lower in [None, Some(false), Some(true)] { for keep in [None, Some(false), Some(true)] {
        let mut a = format!("sanitize(value=bumped_branch, separator=\"{sep}\"");
        if let Some(l) = lower { a.push_str(&format!(", lowercase={l}")); }
        if let Some(k) = keep { a.push_str(&format!(", keep_zeros={k}")); }
        a.push(')');
        checks.push((a, san::san(text, sep, lower.unwrap_or(false), keep.unwrap_or(false))));
    }}}
    for lower in [false, true] { for keep in [false, true] { checks.push((format!("sanitize(value=bumped_branch, lowercase={lower}, keep_zeros={keep})"), String::from("\u{0}nosep"))); } }
    for (expr, want) in checks {
        if let Some(o) = call(&format!("[{{{{ {expr} }}}}]"), "sanitize", st) {
            if want == "\u{0}nosep" { continue; } // separator-less configuration: no-panic only (statement is about a non-alphanumeric separator)
            if o != want { ctx.violation("sanitize_function_differs_from_contract", format!("{expr} on {text:?}"), case("sanitize"), format!("got {o:?}, contract {want:?}")); }
        }
    }
    // compositions: the value of one function as the argument of another (and concatenation of two results) equals the
    // composition of the contracts; prefix() on non-ASCII text is left out (its unit is not stated)
    {
        let san = |x: &str| san::san(x, ".", false, false);
        let sanl = |x: &str| san::san(x, "-", true, false);
        let pre = |x: &str, n: usize| -> String { x.chars().take(n).collect() };
        let pif = |x: &str, p: &str| if x.is_empty() { String::new() } else { format!("{p}{x}") };
        let hx = |x: &str, n: usize| -> String { format!("{:x}", flow::hash_str(x)).chars().take(n).collect() };
        let hi = |x: &str, n: usize| -> String { flow::hash_str(x).to_string().chars().take(n).collect() };
        let mut comps: Vec<(&str, String)> = vec![
            ("prefix_if(value=sanitize(value=bumped_branch, separator=\"-\", lowercase=true), prefix=\"+\")", pif(&sanl(text), "+")),
            ("hash(value=sanitize(value=bumped_branch), length=8)", hx(&san(text), 8)),
            ("sanitize(value=prefix_if(value=bumped_branch, prefix=\"v\"))", san(&pif(text, "v"))),
            ("sanitize(value=hash_int(value=bumped_branch, length=9), preset=\"uint\")", san::uint(&hi(text, 9))),
            ("sanitize(value=sanitize(value=bumped_branch, separator=\"-\"), separator=\"_\", lowercase=true)", san::san(&san::san(text, "-", false, false), "_", true, false)),
            ("hash_int(value=hash(value=bumped_branch, length=16), length=5)", hi(&hx(text, 16), 5)),
            ("sanitize(value=bumped_branch) ~ \"/\" ~ hash(value=bumped_branch, length=4)", format!("{}/{}", san(text), hx(text, 4))),
        ];
        if text.is_ascii() {
            comps.extend([
                ("sanitize(value=prefix(value=bumped_branch, length=5))", san(&pre(text, 5))),
                ("prefix(value=sanitize(value=bumped_branch), length=4)", pre(&san(text), 4)),
                ("hash_int(value=prefix(value=bumped_branch, length=3), length=6)", hi(&pre(text, 3), 6)),
                ("prefix(value=hash(value=bumped_branch, length=12), length=5)", pre(&hx(text, 12), 5)),
                ("prefix_if(value=prefix(value=bumped_branch, length=0), prefix=\"+\")", String::new()),
                ("prefix(value=bumped_branch, length=2) ~ sanitize(value=bumped_branch)", format!("{}{}", pre(text, 2), san(text))),
            ]);
        }
        for (expr, want) in comps {
            if let Some(o) = call(&format!("[{{{{ {expr} }}}}]"), "composition", st) {
                st.inc("composition_calls");
                // a rendered template is trimmed by design: compare trimmed
                if o.trim() != want.trim() { ctx.violation("function_composition_differs", format!("{expr} on {text:?}"), case("composition"), format!("got {o:?}, composed contracts give {want:?}")); }
            }
        }
    }
    // max_length: result is within the limit and a truncation of the untruncated contract value
    for m in [0usize, 1, 3, 6] {
        if let Some(o) = call(&format!("[{{{{ sanitize(value=bumped_branch, separator=\"-\", lowercase=true, max_length={m}) }}}}]"), "sanitize", st) {
            let full = san::san(text, "-", true, false);
            if o.chars().count() > m || !san::is_truncation_of(&o, &full, '-', false) || san::invariants(&o, '-', false, Some(m)).is_some() { ctx.violation("sanitize_function_max_length", key("sanitize"), case("sanitize"), format!("max_length={m} -> {o:?} (untruncated {full:?})")); }
        }
    }
}

fn judge_format_timestamp(ctx: &Ctx, t: u64, st: &mut Stats) {
    let s = RSchema { core: vec![RComp::Var(RVar::Major)], extra_core: vec![], build: vec![] };
    let v = RVars { major: Some(1), bumped_timestamp: Some(t), custom: json!({}), ..Default::default() };
    let z = bind::zerv(&s, &v).unwrap();
    let c = cal::civil(t.min(1u64 << 62));
    let fmts: Vec<(&str, String)> = vec![
        ("%Y-%m-%d", format!("{:04}-{:02}-{:02}", c.year, c.month, c.day)), ("compact_date", cal::field("compact_date", t.min(1u64 << 62))), ("compact_datetime", cal::field("compact_datetime", t.min(1u64 << 62))),
        ("%H:%M:%S", format!("{:02}:{:02}:{:02}", c.hour, c.minute, c.second)), ("%j", format!("{:03}", c.yday + 1)), ("%y%m%d-%H", format!("{:02}{:02}{:02}-{:02}", c.year % 100, c.month, c.day, c.hour)),
        // without a % directive a strftime format is literal text - also when it spells one of the schema's ts() tokens
        ("YYYY", "YYYY".into()), ("MM", "MM".into()), ("0W", "0W".into()), ("YYYY0M0D", "YYYY0M0D".into()), ("HHmmSS", "HHmmSS".into()), ("date", "date".into()), ("YYYY-%m", format!("YYYY-{:02}", c.month)), ("%%Y", "%Y".into()),
    ];
    for (f, want) in fmts {
        st.inc("format_timestamp_calls");
        match render(&z, &format!("[{{{{ format_timestamp(value=bumped_timestamp, format=\"{f}\") }}}}]")) {
            Err(p) => ctx.violation(&format!("panic@{}", p.file()), format!("format_timestamp {f} @ {t}"), json!({"kind":"ts","t":t,"format":f}), p.message),
            // beyond 9999-12-31 a refusal is admissible (the calendar library's range ends at 8210266876799), a wrong date is not; years with
            // more than four digits may carry a '+' sign (ISO 8601 expanded representation)
            Ok(Err(_)) if t > 253402300799 => st.inc("far_instant_refused"),
            Ok(Err(e)) => ctx.violation("format_timestamp_failed", format!("{f} @ {t}"), json!({"kind":"ts","t":t,"format":f}), e),
            Ok(Ok(o)) if t >= (1u64 << 63) => ctx.violation("format_timestamp_not_utc_calendar", format!("{f} @ {t}"), json!({"kind":"ts","t":t,"format":f}), format!("got {o:?} for an instant no calendar date can be given for (a refusal is expected)")),
            Ok(Ok(o)) if t > 253402300799 => if o.replace('+', "") != format!("[{want}]") { ctx.violation("format_timestamp_not_utc_calendar", format!("{f} @ {t}"), json!({"kind":"ts","t":t,"format":f}), format!("got {o:?} want [{want}] (a '+' before the year is admissible)")); },
            Ok(Ok(o)) => if o != format!("[{want}]") { ctx.violation("format_timestamp_not_utc_calendar", format!("{f} @ {t}"), json!({"kind":"ts","t":t,"format":f}), format!("got {o:?} want [{want}]")); },
        }
    }
    // default format
    st.inc("format_timestamp_calls");
    if let Ok(Ok(o)) = render(&z, "[{{ format_timestamp(value=bumped_timestamp) }}]") { let want = format!("[{:04}-{:02}-{:02}]", c.year, c.month, c.day); let o = if t > 253402300799 { o.replace('+', "") } else { o }; if t < (1u64 << 63) && o != want { ctx.violation("format_timestamp_not_utc_calendar", format!("default @ {t}"), json!({"kind":"ts","t":t}), format!("got {o:?} want {want}")); } }
}

fn main() {
    unsafe { std::env::set_var("TZ", "PST8") };
    let ctx = Ctx::from_args("C15", "model_checking");
    let _ = ctx.pinned_now();
    let quick = ctx.quick();
    use RComp::{Str, UInt, Var as V};
    let core_alpha = vec![V(RVar::Major), V(RVar::Minor), V(RVar::Patch), UInt(5), Str("x".into()), Str("1.2".into()), Str("-".into()), Str("007".into()), V(RVar::Distance), V(RVar::BumpedBranch), V(RVar::Ts("YYYY".into())), V(RVar::Custom("k".into()))];
    let extra_alpha = vec![V(RVar::Epoch), V(RVar::PreRelease), V(RVar::Post), V(RVar::Dev), Str("x".into()), UInt(0), V(RVar::Dirty), V(RVar::BumpedBranch)];
    let build_alpha = vec![Str("B-1".into()), UInt(3), V(RVar::Distance), V(RVar::BumpedCommitHashShort)];
    let asg = assignments();
    let (lc, le, lb) = if quick { (2, 2, 1) } else { (3, 2, 1) };
    let cores = seqs(&core_alpha, lc, &core_valid);
    let extras = seqs(&extra_alpha, le, &extra_valid);
    let builds = seqs(&build_alpha, lb, &|_| true);
    let s1 = cores.par_iter().map(|c| {
        let mut st = Stats::default();
        for e in &extras { for b in &builds {
            if c.is_empty() && e.is_empty() && b.is_empty() { continue; }
            let s = RSchema { core: c.clone(), extra_core: e.clone(), build: b.clone() };
            for (name, v) in &asg { judge_object(&ctx, &s, name, v, &mut st); }
        }}
        st
    }).reduce(Stats::default, Stats::merge);
    // the same objects in the transposed order: one variable assignment, every schema in turn on one thread - consecutive
    // contexts then differ in the schema only (a value memoised per variable assignment shows up as a stale rendering)
    let s1t = asg.par_iter().map(|(name, v)| {
        let mut st = Stats::default();
        for c in &cores { for e in &extras { for b in &builds {
            if c.is_empty() && e.is_empty() && b.is_empty() { continue; }
            let s = RSchema { core: c.clone(), extra_core: e.clone(), build: b.clone() };
            judge_object(&ctx, &s, name, v, &mut st);
        }}}
        st
    }).reduce(Stats::default, Stats::merge);
    let s1 = s1.merge(s1t);
    // length sweep: one object whose branch name has every length 0..=400 (thorough 2000), so that the rendered versions
    // cross every total length up to ~800 (2 x the name) characters: every part and the docker form stay complete
    let s1 = {
        let top = if quick { 400usize } else { 2000 };
        let sch = RSchema { core: vec![V(RVar::Major), V(RVar::Minor), V(RVar::Patch)], extra_core: vec![V(RVar::PreRelease), V(RVar::BumpedBranch)], build: vec![V(RVar::BumpedBranch), V(RVar::Distance)] };
        let sweep = (0..=top).into_par_iter().map(|n| {
            let mut st = Stats::default();
            let name: String = "feature/x1-".chars().cycle().take(n).collect();
            let v = RVars { major: Some(1), minor: Some(2), patch: Some(3), pre: Some(("rc", Some(1))), distance: Some(5), bumped_branch: Some(name), custom: json!({}), ..Default::default() };
            st.inc("length_sweep_objects");
            judge_object(&ctx, &sch, &format!("length_sweep branch of {n} characters"), &v, &mut st);
            st
        }).reduce(Stats::default, Stats::merge);
        s1.merge(sweep)
    };
    let mut s2 = Stats::default();
    for (name, v) in &asg { judge_scalars(&ctx, name, v, &mut s2); }
    for kw in ["none", "NULL", "nil", " x ", "0"] { let v = RVars { major: Some(1), bumped_branch: Some(kw.into()), bumped_commit_hash: Some(kw.into()), custom: json!({}), ..Default::default() }; judge_scalars(&ctx, "keywords", &v, &mut s2); }
    let pool = text_pool();
    let s3 = pool.par_iter().map(|t| { let mut st = Stats::default(); st.inc("function_texts"); judge_functions(&ctx, t, &mut st); st }).reduce(Stats::default, Stats::merge);
    // format_timestamp on C17's boundary instants and a daily sweep
    let instants: Vec<u64> = [0u64, 1, 59, 86399, 86400, 951782399, 951782400, 951868799, 4107542399, 4107542400, 1709247600, 1710511845, 7258118399, 1230767999, 1230768000,
        // far instants: the last second of year 9999 and the first of 10000, around 10^12 (a millisecond clock read as seconds), 10^13, the calendar library's last
        // second and the one after it, 10^15, 2^53, and the values that do not fit a signed 64-bit count
        253402300799, 253402300800, 999_999_999_999, 1_000_000_000_000, 1_000_000_000_001, 1_700_000_000_000, 9_999_999_999_999, 10_000_000_000_000, 8210266876799, 8210266876800, 1_000_000_000_000_000, 1 << 53, (1 << 63) - 1, 1 << 63, u64::MAX].into_iter()
        .chain((0..if quick { 3000 } else { 84000 }).map(|d| d * 86400 * if quick { 28 } else { 1 } + 43199)).collect();
    let s4 = instants.par_iter().map(|&t| { let mut st = Stats::default(); judge_format_timestamp(&ctx, t, &mut st); st }).reduce(Stats::default, Stats::merge);
    // CLI binding: --output-template through run_cli and the binary on a slice
    let mut s5 = Stats::default();
    {
        let doc = bind::zerv(&RSchema { core: vec![V(RVar::Major), V(RVar::Minor), V(RVar::Patch)], extra_core: vec![V(RVar::PreRelease), V(RVar::Post)], build: vec![V(RVar::BumpedBranch)] }, &RVars { dirty: Some(false), ..asg[0].1.clone() }).unwrap().to_string();
        for t in ["{{ semver }}", "{{ pep440 }}", "{{ semver_obj.docker }}", "{{ hash(value=bumped_branch, length=9) }}-{{ hash_int(value=bumped_branch, length=4) }}", "{{ sanitize(value=bumped_branch, separator=\"-\", lowercase=true) }}", "{{ format_timestamp(value=bumped_timestamp, format=\"compact_datetime\") }}", "{{ prefix(value=bumped_branch, length=4) }}{{ prefix_if(value=bumped_commit_hash_short, prefix=\"+\") }}"] {
            let args = ["version", "--source", "stdin", "--output-template", t];
            let r = zv::run_cli(&args, Some(&doc));
            let z = Zerv::from_str_checked(&doc);
            let direct = z.and_then(|z| render(&z, t).ok().and_then(|r| r.ok()));
            s5.inc("cli_template_cases");
            match (&r, &direct) { (Ok(Res::Ok(a)), Some(b)) if a == b => {}, _ => ctx.violation("cli_template_differs", t.to_string(), json!({"kind":"cli","template":t}), format!("cli {r:?} direct {direct:?}")) }
            for tz in ["UTC", "JST-9"] { let o = zv::run_bin(&args, Some(&doc), &[("TZ", tz)], None); s5.inc("process_conformance_cases"); if let Err(e) = zv::conforms(&r, &o) { ctx.violation("binary_differs_from_inprocess", format!("{t} TZ={tz}"), json!({"kind":"proc"}), e); } }
        }
    }
    // operations, then a template: every set of up to two override / bump flags (incl. index-addressed ones that rewrite a literal
    // schema component and leave the variables alone) on two documents with literal components; the template variables of that
    // run equal what the same run prints with --output-format semver / pep440, and the parts recompose
    let mut s6 = Stats::default();
    {
        let docs = [
            bind::zerv(&RSchema { core: vec![V(RVar::Major), V(RVar::Minor), V(RVar::Patch), UInt(5)], extra_core: vec![V(RVar::PreRelease), Str("x".into()), V(RVar::Post)], build: vec![Str("nightly".into()), UInt(1), V(RVar::BumpedBranch)] }, &RVars { dirty: Some(false), ..asg[0].1.clone() }).unwrap().to_string(),
            bind::zerv(&RSchema { core: vec![UInt(2024), V(RVar::Minor), V(RVar::Patch)], extra_core: vec![UInt(0)], build: vec![Str("b".into())] }, &RVars { major: Some(1), minor: Some(2), patch: Some(3), ..Default::default() }).unwrap().to_string(),
        ];
        let flags: Vec<Vec<&str>> = vec![vec!["--build", "0=stable"], vec!["--build", "1=7"], vec!["--bump-build", "1=4"], vec!["--bump-build", "0=weekly"], vec!["--core", "0=9"], vec!["--core=-1=8"], vec!["--bump-core", "~1"], vec!["--extra-core", "0=6"], vec!["--extra-core", "1=zz"],
            vec!["--bump-extra-core", "0"], vec!["--major", "5"], vec!["--bump-minor"], vec!["--bump-patch", "2"], vec!["--pre-release-label", "beta"], vec!["--post", "4"], vec!["--bump-post"], vec!["--bumped-branch", "topic/9"], vec!["--custom", "{\"k\":3}"]];
        let mut sets: Vec<Vec<&str>> = vec![vec![]];
        for (i, a) in flags.iter().enumerate() { sets.push(a.clone()); for b in flags.iter().skip(i + 1) { if a[0].split('=').next() != b[0].split('=').next() { sets.push([a.clone(), b.clone()].concat()); } } }
        let tpl = format!("{{{{ semver }}}}{SEP}{{{{ pep440 }}}}{SEP}{{{{ semver_obj.base_part }}}}{SEP}{{{{ semver_obj.pre_release_part }}}}{SEP}{{{{ semver_obj.build_part }}}}{SEP}{{{{ pep440_obj.base_part }}}}{SEP}{{{{ pep440_obj.pre_release_part }}}}{SEP}{{{{ pep440_obj.build_part }}}}");
        let jobs: Vec<(usize, &Vec<&str>)> = (0..docs.len()).flat_map(|d| sets.iter().map(move |f| (d, f))).collect();
        let st = jobs.par_iter().enumerate().map(|(ji, (d, f))| {
            let mut st = Stats::default();
            st.inc("ops_then_template_cases");
            let base: Vec<String> = ["version", "--source", "stdin"].iter().map(|x| x.to_string()).chain(f.iter().map(|x| x.to_string())).collect();
            let with = |extra: &[&str]| -> Vec<String> { base.iter().cloned().chain(extra.iter().map(|x| x.to_string())).collect() };
            let key = format!("doc {d} {}", f.join(" "));
            let case = json!({"kind":"ops-template","doc":d,"flags":f});
            let (rs, rp, rt) = (zv::run_cli(&with(&["--output-format", "semver"]), Some(&docs[*d])), zv::run_cli(&with(&["--output-format", "pep440"]), Some(&docs[*d])), zv::run_cli(&with(&["--output-template", &tpl]), Some(&docs[*d])));
            match (&rs, &rp, &rt) {
                (Ok(Res::Ok(sv)), Ok(Res::Ok(pv)), Ok(Res::Ok(t))) => {
                    st.inc("ops_then_template_compared");
                    let parts: Vec<&str> = t.split(SEP).collect();
                    if parts.len() != 8 { ctx.violation("template_output_shape", key, case, format!("{t:?}")); return st; }
                    if parts[0] != sv || parts[1] != pv { ctx.violation("template_version_differs_from_formatter_after_operations", key.clone(), case.clone(), format!("template semver {:?} / pep440 {:?}; --output-format prints {sv:?} / {pv:?}", parts[0], parts[1])); }
                    let mut re = parts[2].to_string(); if !parts[3].is_empty() { re.push('-'); re.push_str(parts[3]); } if !parts[4].is_empty() { re.push('+'); re.push_str(parts[4]); }
                    if re != *sv { ctx.violation("semver_parts_do_not_recompose_after_operations", key.clone(), case.clone(), format!("parts {:?} vs {sv:?}", &parts[2..5])); }
                    if !pv.starts_with(parts[5]) || (!parts[7].is_empty() && !pv.ends_with(&format!("+{}", parts[7]))) { ctx.violation("pep440_parts_do_not_recompose_after_operations", key.clone(), case.clone(), format!("parts {:?} vs {pv:?}", &parts[5..8])); }
                    if ji % 6 == 0 { let a = with(&["--output-template", &tpl]); let o = zv::run_bin(&a, Some(&docs[*d]), &[], None); st.inc("process_conformance_cases"); if let Err(e) = zv::conforms(&rt, &o) { ctx.violation("binary_differs_from_inprocess", key, json!({"kind":"proc"}), e); } }
                }
                (Err(p), _, _) | (_, Err(p), _) | (_, _, Err(p)) => ctx.violation(&format!("panic@{}", p.file()), key, case, p.message.clone()),
                _ => {
                    // the operation set is rejected (e.g. a text value on a numeric literal): then all three runs are rejected
                    st.inc("ops_then_template_rejected");
                    let oks = [matches!(rs, Ok(Res::Ok(_))), matches!(rp, Ok(Res::Ok(_))), matches!(rt, Ok(Res::Ok(_)))];
                    if oks.iter().any(|x| *x) && !(oks[0] && oks[2] && !oks[1]) { ctx.violation("template_run_accepts_what_formatter_run_rejects", key, case, format!("semver {:?} pep440 {:?} template {:?}", oks[0], oks[1], oks[2])); }
                }
            }
            st
        }).reduce(Stats::default, Stats::merge);
        s6 = s6.merge(st);
    }
    s5.add("process_conformance_cases", s6.get("process_conformance_cases"));
    let all = s1.merge(s2).merge(s3).merge(s4).merge(s5.clone()).merge(s6);
    let mut cov = Coverage::default();
    cov.states = all.get("objects") + all.get("function_texts") + instants.len() as u64 + all.get("ops_then_template_cases");
    cov.transitions = all.get("objects") + all.get("function_calls") + all.get("format_timestamp_calls") + all.get("scalar_checks");
    cov.evaluations = cov.transitions;
    cov.traces_validated = cov.transitions;
    cov.distinct_nontrivial = all.get("objects");
    cov.rule = format!("objects = schema programs (core<={lc}, extra<={le}, build<={lb} over the C06 component alphabet) x {} assignments: {{{{semver}}}}/{{{{pep440}}}} vs the formatters, part recomposition (also on one object whose branch name takes every length 0..=400, thorough 2000), docker form; scalar variables on every assignment + keyword texts; functions hash/hash_int/prefix x lengths 0..21 (0..130 for six texts) x {} texts (non-ASCII, multi-byte boundaries, keywords, numbers, bools) x allow_leading_zero, prefix_if, 13 compositions of two functions, sanitize (presets, all separator/lowercase/keep_zeros combinations, max_length) vs R-SAN and R-SIP; format_timestamp x 7 formats x {} instants vs R-CAL with the harness under TZ=PST8. non-trivial = objects", asg.len(), pool.len(), instants.len());
    cov.exhaustive = true;
    cov.samples = vec![json!({"template":"{{ semver }} / parts","schema":"Major,str(\"1.2\") | PreRelease,Post | Distance","vars":"post_dev_no_label"}), json!({"function":"prefix","text":"a€b","length":2}), json!({"function":"format_timestamp","t":951782400u64,"format":"%j"})];
    cov.set("clause_counts", all.to_json());
    cov.set("process_conformance_cases", s5.get("process_conformance_cases"));
    cov.assumptions = vec!["rendered templates are trimmed and none/null/nil collapse to empty by design (scalar equality on trimmed values)".into(), "R-SAN, R-SIP, R-CAL".into()];
    finish(&ctx, cov);
}

trait FromStrChecked { fn from_str_checked(s: &str) -> Option<Zerv>; }
impl FromStrChecked for Zerv { fn from_str_checked(s: &str) -> Option<Zerv> { use std::str::FromStr; Zerv::from_str(s).ok() } }
