//! C12 — Zerv RON is a lossless interchange format and invalid objects are refused.
use std::str::FromStr;

use rayon::prelude::*;
use serde_json::json;
use zerv::schema::ZervSchemaPreset;
use zerv::version::Zerv;
use zvharness::refmodel::malformed;
use zvharness::refmodel::ren::{RComp, RSchema, RVar, RVars};
use zvharness::refmodel::sch::{self, Verdict};
use zvharness::zv::{self, Res};
use zvharness::*;

fn a(v: &[&str]) -> Vec<String> { v.iter().map(|s| s.to_string()).collect() }

fn nasty_strings() -> Vec<String> {
    ["", "a", "\"", "\\", "\n", "\r", "\t", "\u{1}", "\u{7f}", "\u{2028}", "é", "a\"b\\c", ")", "//", "r#\"", "/* x */", "Some(1)", "None", "(", ",", "'", "\\u{41}", "\u{0}", " lead", "trail ", "\u{feff}x", "𝔘", "\\\"", "#", "r\"x\""]
        .iter().map(|s| s.to_string()).collect()
}

fn nest(d: usize, array: bool) -> serde_json::Value {
    let mut v = json!(1);
    for _ in 0..d { v = if array { json!([v]) } else { json!({"a": v}) }; }
    if array { json!({"k": v}) } else { v }
}

fn custom_values() -> Vec<serde_json::Value> {
    let mut v = custom_values_flat();
    // nesting depth, iterated up to what `--custom` (serde_json, 128 levels) can deliver
    for d in [8usize, 31, 32, 62, 63, 64, 100, 126, 127] { v.push(nest(d, false)); }
    for d in [8usize, 31, 61, 62, 63, 100, 126] { v.push(nest(d, true)); }
    v
}

fn custom_values_flat() -> Vec<serde_json::Value> {
    vec![json!({}), json!({"k": "v"}), json!({"k": 7}), json!({"k": -7}), json!({"k": 1.5}), json!({"k": 1e300}), json!({"k": 18446744073709551615u64}), json!({"k": true}), json!({"k": null}),
        json!({"k": [1, "two", [3]]}), json!({"k": {"a": {"b": {"c": 1}}}}), json!({"key \"quoted\" and space": 1}), json!({"k": "line\nbreak"}), json!({"": ""}), json!({"k": -0.0}), json!({"k": 9223372036854775807i64}),
        json!({"k": -9223372036854775808i64}), json!({"k": 1e-7}), json!({"a": 1, "b": 2, "0": 3}), json!("just a string"), json!(42), json!(null), json!([1, 2]), json!({"k": 0.1}), json!({"k": 123456789012345680000.0})]
}

fn base_vars() -> RVars {
    RVars { major: Some(1), minor: Some(2), patch: Some(3), epoch: Some(1), pre: Some(("rc", Some(2))), post: Some(3), dev: Some(4), distance: Some(5), dirty: Some(true),
        bumped_branch: Some("main".into()), bumped_commit_hash: Some("g1a2b3c4d5e".into()), bumped_timestamp: Some(1709247600), last_branch: Some("main".into()),
        last_commit_hash: Some("g0a0b0c0d0e".into()), last_timestamp: Some(1700000000), custom: json!({"k": "v"}), ..Default::default() }
}

fn schemas() -> Vec<(String, RSchema)> {
    use RComp::{Str, UInt, Var as V};
    let mut out = vec![];
    let v = bind::vars(&base_vars());
    for p in zv::STANDARD_PRESETS.iter().chain(zv::CALVER_PRESETS.iter()) {
        let s = ZervSchemaPreset::from_str(p).unwrap_or_else(|e| machinery_error(&format!("{e}"))).schema_with_zerv(&v);
        out.push((p.to_string(), bind::rschema(&s)));
    }
    out.push(("custom-literals".into(), RSchema { core: vec![V(RVar::Major), UInt(5), Str("x".into()), V(RVar::Custom("k".into()))], extra_core: vec![V(RVar::PreRelease), Str("e".into()), V(RVar::Dirty)], build: vec![V(RVar::Ts("compact_datetime".into())), V(RVar::LastCommitHashShort), UInt(u64::MAX)] }));
    out.push(("custom-text-only".into(), RSchema { core: vec![], extra_core: vec![], build: vec![V(RVar::BumpedBranch), V(RVar::LastBranch), V(RVar::Custom("k".into()))] }));
    out.push(("custom-single".into(), RSchema { core: vec![V(RVar::Patch)], extra_core: vec![], build: vec![] }));
    out
}

/// round trip of one object: parse(emit(z)) == z and emit(parse(emit(z))) == emit(z)
fn judge_round_trip(ctx: &Ctx, label: &str, z: &Zerv, st: &mut Stats) {
    st.inc("round_trip_objects");
    let case = json!({"kind":"object","label":label});
    let emitted = match catch(|| z.to_string()) { Ok(e) => e, Err(p) => { ctx.violation(&format!("panic@{}", p.file()), label.to_string(), case, p.message); return; } };
    st.observe(&emitted);
    match catch(|| Zerv::from_str(&emitted)) {
        Err(p) => ctx.violation(&format!("panic@{}", p.file()), label.to_string(), case, p.message),
        Ok(Err(e)) => ctx.violation("emitted_object_does_not_parse", label.to_string(), json!({"kind":"object","label":label,"ron":emitted}), format!("{e}")),
        Ok(Ok(back)) => {
            if back != *z {
                ctx.violation("round_trip_changes_object", label.to_string(), json!({"kind":"object","label":label,"ron":emitted}), format!("vars before {:?}\nvars after  {:?}", truncate(&format!("{:?}", z.vars), 300), truncate(&format!("{:?}", back.vars), 300)));
                return;
            }
            let again = back.to_string();
            if again != emitted { ctx.violation("re_emission_not_byte_identical", label.to_string(), json!({"kind":"object","label":label,"ron":emitted}), "emit(parse(emit(z))) differs".into()); }
        }
    }
}

/// direct rendering must equal rendering of the piped zerv-format object
fn judge_pipe(ctx: &Ctx, cmd: &str, args: &[String], stdin: Option<&str>, st: &mut Stats) {
    st.inc("pipe_cases");
    let key = format!("{cmd} {}", args.join(" "));
    let case = json!({"kind":"pipe","cmd":cmd,"args":args,"stdin":stdin});
    let mut first = vec![cmd.to_string()];
    first.extend(args.iter().cloned());
    let mut to_zerv = first.clone();
    to_zerv.extend(a(&["--output-format", "zerv"]));
    let doc = match zv::run_cli(&to_zerv, stdin) {
        Ok(Res::Ok(d)) => d,
        Ok(_) => { st.inc("pipe_source_rejected"); return; }
        Err(p) => { ctx.violation(&format!("panic@{}", p.file()), key, case, p.message); return; }
    };
    // emitted object satisfies the placement rules and round-trips
    match Zerv::from_str(&doc) {
        Ok(z) => {
            if let Verdict::Invalid(why) = sch::judge(&bind::rschema(&z.schema)) { ctx.violation("emitted_schema_violates_rules", key.clone(), case.clone(), why.to_string()); }
            judge_round_trip(ctx, &key, &z, st);
        }
        Err(e) => { ctx.violation("emitted_object_does_not_parse", key.clone(), case.clone(), e.to_string()); return; }
    }
    let outs: Vec<Vec<String>> = vec![a(&["--output-format", "semver"]), a(&["--output-format", "pep440"]), a(&["--output-template", "{{ semver }}|{{ pep440 }}"]),
        a(&["--output-template", "{{ epoch }}/{{ major }}.{{ minor }}.{{ patch }}/{{ pre_release.label }}{{ pre_release.number }}/{{ post }}/{{ dev }}/{{ distance }}/{{ dirty }}/{{ bumped_branch }}/{{ bumped_commit_hash_short }}/{{ last_tag_version }}"]),
        a(&["--output-template", "{{ semver_obj.docker }} {{ pep440_obj.base_part }}{{ pep440_obj.pre_release_part }}"]),
        a(&["--output-template", "{{ semver_obj.base_part }}|{{ semver_obj.pre_release_part }}|{{ semver_obj.build_part }}|{{ pep440_obj.build_part }}"])];
    // within one run the template variables semver / pep440 are what --output-format prints for the same arguments (an
    // expectation that does not depend on a second run in this process sharing state with the first)
    {
        let run = |o: &[String]| { let mut d = first.clone(); d.extend(o.iter().cloned()); zv::run_cli(&d, stdin) };
        if let (Ok(Res::Ok(sv)), Ok(Res::Ok(pv)), Ok(Res::Ok(t))) = (run(&outs[0]), run(&outs[1]), run(&outs[2])) {
            st.inc("template_vs_formatter_checks");
            if t != format!("{sv}|{pv}") { ctx.violation("template_version_differs_from_formatter", key.clone(), case.clone(), format!("template prints {t:?}, --output-format prints {sv:?} and {pv:?}")); }
        }
    }
    for o in outs {
        st.inc("pipe_renders");
        let mut direct = first.clone();
        direct.extend(o.iter().cloned());
        let mut piped = a(&["version", "--source", "stdin"]);
        piped.extend(o.iter().cloned());
        let d = zv::run_cli(&direct, stdin);
        let p = zv::run_cli(&piped, Some(&doc));
        let same = match (&d, &p) { (Ok(Res::Ok(x)), Ok(Res::Ok(y))) => x == y, (Ok(Res::Ok(_)), _) | (_, Ok(Res::Ok(_))) => false, (Err(_), _) | (_, Err(_)) => false, _ => true };
        if !same { ctx.violation("piped_rendering_differs", format!("{key} {}", o.join(" ")), case.clone(), format!("direct {:?}, piped {:?}", d.map(|r| truncate(&format!("{r:?}"), 160)), p.map(|r| truncate(&format!("{r:?}"), 160)))); }
    }
}

/// a schema given as RON text (possibly invalid): accepted iff R-SCH says valid, on both entry paths
fn judge_schema_text(ctx: &Ctx, s: &RSchema, st: &mut Stats) {
    st.inc("schema_rule_cases");
    let verdict = sch::judge(s);
    let text = sch::ron_schema(s);
    let key = text.clone();
    let vars = "(major:Some(1),minor:Some(2),patch:Some(3),epoch:Some(2),pre_release:Some((label:Alpha,number:Some(4))),post:Some(5),dev:Some(6),distance:Some(0),dirty:Some(false),bumped_branch:Some(\"b\"),bumped_timestamp:Some(1709247600),custom:{\"k\":1})";
    let doc = format!("(schema:{text},vars:{vars})");
    let good_doc = format!("(schema:(core:[var(Major)],extra_core:[],build:[]),vars:{vars})");
    let runs: Vec<(&str, Vec<String>, String)> = vec![
        ("stdin-embedded", a(&["version", "--source", "stdin"]), doc.clone()),
        ("schema-ron-flag", a(&["version", "--source", "stdin", "--schema-ron", &text]), good_doc.clone()),
        ("schema-ron-flag-none-source", a(&["version", "--source", "none", "--tag-version", "1.2.3", "--schema-ron", &text]), String::new()),
        ("flow-stdin-embedded", a(&["flow", "--source", "stdin"]), doc.clone()),
    ];
    for (path, args, input) in runs {
        for fmt in ["semver", "zerv"] {
            st.inc("schema_rule_runs");
            let mut args = args.clone();
            args.extend(a(&["--output-format", fmt]));
            let r = zv::run_cli(&args, if input.is_empty() { None } else { Some(&input) });
            let case = json!({"kind":"schema","path":path,"schema":text,"format":fmt});
            match (&r, &verdict) {
                (Err(p), _) => ctx.violation(&format!("panic@{}", p.file()), format!("{key} [{path}]"), case, p.message.clone()),
                (Ok(Res::Ok(out)), Verdict::Invalid(why)) => ctx.violation("invalid_schema_rendered", format!("{key} [{path}]"), case, format!("{why}; printed {:?}", truncate(out, 80))),
                (Ok(Res::Ok(_)), _) => { st.inc("valid_schema_accepted"); }
                (Ok(_), Verdict::Valid) => ctx.violation("valid_schema_refused", format!("{key} [{path}]"), case, format!("{r:?}")),
                (Ok(_), Verdict::Invalid(_)) => { st.inc("invalid_schema_refused"); }
                (Ok(_), Verdict::Unspecified) => { st.inc("unspecified_cases"); }
            }
        }
    }
}

fn main() {
    let ctx = Ctx::from_args("C12", "model_checking");
    let _ = ctx.pinned_now();
    let quick = ctx.quick();
    if ctx.replay_case().is_some() {
        eprintln!("note: C12 replay re-runs the quick exploration (cases are regenerated, not parsed)");
    }
    let schemas = schemas();
    let strs = nasty_strings();
    let customs = custom_values();

    // (a) objects: each variable over its nasty domain while the others sit at the baseline, x every schema
    let mut objects: Vec<(String, RSchema, RVars)> = vec![];
    for (sn, s) in &schemas {
        objects.push((format!("{sn}/baseline"), s.clone(), base_vars()));
        objects.push((format!("{sn}/all-unset"), s.clone(), RVars { custom: json!({}), ..Default::default() }));
        for x in &strs { for pos in 0..4 {
            let mut v = base_vars();
            match pos { 0 => v.bumped_branch = Some(x.clone()), 1 => v.bumped_commit_hash = Some(x.clone()), 2 => v.last_branch = Some(x.clone()), _ => v.last_commit_hash = Some(x.clone()) }
            objects.push((format!("{sn}/str{pos}={x:?}"), s.clone(), v));
        }}
        for n in [0u64, 1, 1 << 63, u64::MAX] { for f in 0..10 {
            let mut v = base_vars();
            match f { 0 => v.major = Some(n), 1 => v.minor = Some(n), 2 => v.patch = Some(n), 3 => v.epoch = Some(n), 4 => v.pre = Some(("alpha", Some(n))), 5 => v.post = Some(n), 6 => v.dev = Some(n), 7 => v.distance = Some(n), 8 => v.bumped_timestamp = Some(n), _ => v.last_timestamp = Some(n) }
            objects.push((format!("{sn}/num{f}={n}"), s.clone(), v));
        }}
        for c in &customs { let mut v = base_vars(); v.custom = c.clone(); objects.push((format!("{sn}/custom={c}"), s.clone(), v)); }
    }
    // nasty text inside the schema itself (str literals, custom keys)
    for x in &strs {
        use RComp::{Str, Var as V};
        objects.push((format!("schema-literal={x:?}"), RSchema { core: vec![V(RVar::Major), Str(x.clone())], extra_core: vec![Str(x.clone())], build: vec![V(RVar::Custom(x.clone())), Str(x.clone())] }, base_vars()));
    }
    // pairs (string var, custom shape) in thorough
    if !quick { for x in &strs { for c in &customs { let mut v = base_vars(); v.bumped_branch = Some(x.clone()); v.custom = c.clone(); objects.push((format!("pair {x:?} x {c}"), schemas[0].1.clone(), v)); } } }
    let s1 = objects.par_iter().map(|(label, s, v)| {
        let mut st = Stats::default();
        // objects are built directly (pub fields) so that no constructor can normalise a value away
        match bind::schema(s) { Ok(zs) => { let z = Zerv { schema: zs, vars: bind::vars(v) }; judge_round_trip(&ctx, label, &z, &mut st); } Err(e) => ctx.violation("valid_schema_refused", label.clone(), json!({"kind":"object"}), e) }
        st
    }).reduce(Stats::default, Stats::merge);

    // objects with custom precedence orders (outside the statement's rules, but they must still round-trip)
    let mut s1 = s1;
    for po in ["[]", "[Major]", "[Build,ExtraCore,Dev,Post,PreReleaseNum,PreReleaseLabel,Core,Patch,Minor,Major,Epoch]", "[Epoch,Major,Minor,Patch,Core,PreReleaseLabel,PreReleaseNum,Post,Dev,ExtraCore,Build]", "[Major,Major,Minor]"] {
        let doc = format!("(schema:(core:[var(Major),var(Minor)],extra_core:[var(PreRelease)],build:[str(\"b\")],precedence_order:{po}),vars:(major:Some(1),minor:Some(2),pre_release:Some((label:Beta,number:None)),custom:{{\"k\":[1]}}))");
        match Zerv::from_str(&doc) { Ok(z) => judge_round_trip(&ctx, &format!("precedence_order={po}"), &z, &mut s1), Err(_) => s1.inc("custom_precedence_rejected") }
    }

    // (a2) pipe equivalence for version and flow
    let mut pipe_jobs: Vec<(&str, Vec<String>, Option<String>)> = vec![];
    let stdin_doc = bind::zerv(&schemas[22].1, &base_vars()).unwrap().to_string();
    let flagsets: Vec<Vec<String>> = vec![vec![], a(&["--epoch", "0"]), a(&["--bump-epoch=0"]), a(&["--bump-major"]), a(&["--pre-release-label", "beta", "--post", "0"]), a(&["--dirty"]), a(&["--distance", "3", "--bumped-branch", "Feat/é \"q\" \\ x"]),
        a(&["--custom", "{\"k\": {\"a\": [1, 2.5, null, \"s\\n\"]}}"]), a(&["--custom", &nest(63, false).to_string()]), a(&["--custom", &nest(127, false).to_string()]), a(&["--custom", &nest(100, true).to_string()]), a(&["--extra-core=0=0"]), a(&["--clean"]), a(&["--no-bump-context"]), a(&["--bump-dev", "--bump-post=0"]), a(&["--bumped-commit-hash", "€€€\n"]), a(&["--bumped-timestamp", "0"])];
    let presets: Vec<&str> = if quick { vec!["standard", "standard-base-prerelease-post-dev-context", "calver", "calver-context"] } else { zv::STANDARD_PRESETS.iter().chain(zv::CALVER_PRESETS.iter()).copied().collect() };
    for tag in ["1.2.3", "0!1.2.3a0.post0.dev0+L", "1.2.3-epoch.0.rc.1"] { for fs in &flagsets { for p in &presets {
        let mut args = a(&["--source", "none", "--tag-version", tag, "--schema", p]);
        args.extend(fs.iter().cloned());
        pipe_jobs.push(("version", args, None));
    }}}
    for fs in &flagsets { let mut args = a(&["--source", "stdin"]); args.extend(fs.iter().cloned()); pipe_jobs.push(("version", args.clone(), Some(stdin_doc.clone()))); let mut a2 = args.clone(); a2.extend(a(&["--schema", "standard-context"])); pipe_jobs.push(("version", a2, Some(stdin_doc.clone()))); }
    for tag in ["1.2.3", "1.2.3-rc.1.post.2"] { for b in ["main", "release/3", "fé \"x\""] { for extra in [vec![], a(&["--distance", "2"]), a(&["--dirty"]), a(&["--distance", "1", "--post-mode", "tag"]), a(&["--epoch", "0", "--distance", "1"])] { for p in ["standard", "standard-context", "standard-base-prerelease-post-dev"] {
        let mut args = a(&["--source", "none", "--tag-version", tag, "--bumped-branch", b, "--schema", p]);
        args.extend(extra.iter().cloned());
        pipe_jobs.push(("flow", args, None));
    }}}}
    // words as variable values (branch, hash, custom): a value the first pass normalises in any way (a ref namespace stripped, a
    // keyword turned into "unset") is normalised again - differently - when the emitted object is read back
    for w in keyword_texts() {
        for p in ["standard-context", "standard-base-prerelease-post-dev-context"] {
            pipe_jobs.push(("version", a(&["--source", "none", "--tag-version", "1.2.3", "--distance", "2", "--bumped-branch", w, "--schema", p]), None));
            pipe_jobs.push(("flow", a(&["--source", "none", "--tag-version", "1.2.3", "--distance", "2", "--bumped-branch", w, "--schema", p]), None));
        }
        pipe_jobs.push(("version", a(&["--source", "none", "--tag-version", "1.2.3", "--distance", "1", "--bumped-commit-hash", w, "--custom", &json!({"k": w}).to_string(), "--schema", "standard-context"]), None));
        pipe_jobs.push(("version", a(&["--source", "stdin", "--bumped-branch", w, "--schema", "standard-context"]), Some(stdin_doc.clone())));
    }
    // schemas with literal components (only --schema-ron or a stdin document can carry them) x index-addressed overrides and
    // bumps that rewrite a literal - the schema changes, the variables do not - alone and together with a variable operation
    let lit_start = pipe_jobs.len();
    {
        let lit = "(core:[var(Major),var(Minor),var(Patch),uint(5)],extra_core:[var(PreRelease),str(\"x\"),var(Post)],build:[str(\"nightly\"),uint(1),var(BumpedBranch)])";
        let lit_doc = format!("(schema:{lit},vars:(major:Some(1),minor:Some(2),patch:Some(3),pre_release:Some((label:Rc,number:Some(4))),post:Some(5),bumped_branch:Some(\"main\"),dirty:Some(false)))");
        let idx: Vec<Vec<String>> = vec![a(&["--build", "0=stable"]), a(&["--build", "1=7"]), a(&["--bump-build", "1=4"]), a(&["--bump-build", "0=weekly"]), a(&["--core", "3=9"]), a(&["--bump-core", "~1"]), a(&["--extra-core", "1=zz"]), a(&["--bump-extra-core", "1=yy"]), a(&["--core=-1=0"])];
        let vars_ops: Vec<Vec<String>> = vec![vec![], a(&["--bump-minor"]), a(&["--post", "9"]), a(&["--bumped-branch", "topic"])];
        for i in idx.iter().chain([vec![]].iter()) { for v in &vars_ops {
            let ops: Vec<String> = i.iter().chain(v.iter()).cloned().collect();
            let mut a1 = a(&["--source", "none", "--tag-version", "1.2.3-rc.4", "--schema-ron", lit]); a1.extend(ops.iter().cloned());
            pipe_jobs.push(("version", a1, None));
            let mut a2 = a(&["--source", "stdin"]); a2.extend(ops.iter().cloned());
            pipe_jobs.push(("version", a2, Some(lit_doc.clone())));
        }}
    }
    let lit_end = pipe_jobs.len();
    // documents nested deeper than `--custom` can produce: whatever the reader accepts the writer must be able to emit again
    for d in [100usize, 128, 140, 147, 148, 149, 150, 200, 298, 299, 300, 1000] { for array in [false, true] {
        let doc = format!("(schema:(core:[var(Major)],extra_core:[],build:[]),vars:(major:Some(1),custom:{}))", nest(d, array));
        pipe_jobs.push(("version", a(&["--source", "stdin"]), Some(doc)));
    }}
    let s2 = pipe_jobs.par_iter().map(|(cmd, args, stdin)| { let mut st = Stats::default(); judge_pipe(&ctx, cmd, args, stdin.as_deref(), &mut st); st }).reduce(Stats::default, Stats::merge);

    // (c) schema rule violations generated structurally
    let mut rule_schemas: Vec<RSchema> = vec![RSchema::default()];
    {
        use RComp::{Str, UInt, Var as V};
        let all_vars = vec![RVar::Major, RVar::Minor, RVar::Patch, RVar::Epoch, RVar::PreRelease, RVar::Post, RVar::Dev, RVar::Distance, RVar::Dirty, RVar::BumpedBranch, RVar::BumpedCommitHash, RVar::BumpedCommitHashShort,
            RVar::BumpedTimestamp, RVar::LastBranch, RVar::LastCommitHash, RVar::LastCommitHashShort, RVar::LastTimestamp, RVar::Custom("k".into()), RVar::Ts("YYYY".into()), RVar::Ts("0W".into()), RVar::Ts("yyyy".into()), RVar::Ts("".into()), RVar::Ts("YYYYMM".into()), RVar::Ts("%Y".into()), RVar::Ts("Q".into())];
        for v in &all_vars { for sec in 0..3 {
            let mut s = RSchema::default();
            match sec { 0 => s.core.push(V(v.clone())), 1 => s.extra_core.push(V(v.clone())), _ => s.build.push(V(v.clone())) }
            rule_schemas.push(s.clone());
            // and alongside a valid skeleton
            let mut t = RSchema { core: vec![V(RVar::Major), V(RVar::Minor)], extra_core: vec![V(RVar::Epoch)], build: vec![Str("b".into())] };
            match sec { 0 => t.core.push(V(v.clone())), 1 => t.extra_core.push(V(v.clone())), _ => t.build.push(V(v.clone())) }
            rule_schemas.push(t);
        }}
        let prim = [RVar::Major, RVar::Minor, RVar::Patch];
        for i in 0..3 { for j in 0..3 { rule_schemas.push(RSchema { core: vec![V(prim[i].clone()), V(prim[j].clone())], ..Default::default() }); for k in 0..3 {
            rule_schemas.push(RSchema { core: vec![V(prim[i].clone()), V(prim[j].clone()), V(prim[k].clone())], ..Default::default() });
            rule_schemas.push(RSchema { core: vec![V(prim[i].clone()), UInt(1), V(prim[j].clone()), Str("x".into()), V(prim[k].clone())], ..Default::default() });
        }}}
        let secs = [RVar::Epoch, RVar::PreRelease, RVar::Post, RVar::Dev];
        for i in 0..4 { for j in 0..4 { rule_schemas.push(RSchema { core: vec![V(RVar::Major)], extra_core: vec![V(secs[i].clone()), V(secs[j].clone())], ..Default::default() }); rule_schemas.push(RSchema { core: vec![V(RVar::Major)], extra_core: vec![V(secs[i].clone()), Str("x".into()), V(secs[j].clone())], ..Default::default() }); } }
        // exhaustive schema programs: every sequence up to a length over a per-section component alphabet (valid or
        // not), the other sections holding a valid skeleton; then the full product of short sequences across sections
        fn seqs(alpha: &[RComp], max: usize) -> Vec<Vec<RComp>> {
            let mut out: Vec<Vec<RComp>> = vec![vec![]];
            let mut lvl: Vec<Vec<RComp>> = vec![vec![]];
            for _ in 0..max { let mut next = vec![]; for p in &lvl { for c in alpha { let mut n = p.clone(); n.push(c.clone()); next.push(n); } } out.extend(next.iter().cloned()); lvl = next; }
            out
        }
        let core_alpha = [V(RVar::Major), V(RVar::Minor), V(RVar::Patch), V(RVar::Epoch), Str("x".into()), V(RVar::Distance)];
        let extra_alpha = [V(RVar::Epoch), V(RVar::PreRelease), V(RVar::Post), V(RVar::Dev), V(RVar::Minor), Str("x".into())];
        let build_alpha = [Str("b".into()), V(RVar::Major), V(RVar::Dev), V(RVar::Ts("YYYY".into())), V(RVar::Ts("bad".into())), V(RVar::BumpedBranch)];
        let (lc, le, lb) = if quick { (4, 4, 2) } else { (6, 6, 4) };
        for c in seqs(&core_alpha, lc) { rule_schemas.push(RSchema { core: c, extra_core: vec![V(RVar::PreRelease)], build: vec![Str("b".into())] }); }
        for e in seqs(&extra_alpha, le) { rule_schemas.push(RSchema { core: vec![V(RVar::Major), V(RVar::Patch)], extra_core: e, build: vec![] }); }
        for b in seqs(&build_alpha, lb) { rule_schemas.push(RSchema { core: vec![V(RVar::Minor)], extra_core: vec![V(RVar::Dev), V(RVar::Epoch)], build: b }); }
        let (xc, xe, xb) = if quick { (2, 2, 1) } else { (3, 3, 1) };
        for c in seqs(&core_alpha, xc) { for e in seqs(&extra_alpha, xe) { for b in seqs(&build_alpha, xb) { rule_schemas.push(RSchema { core: c.clone(), extra_core: e.clone(), build: b }); } } }
        rule_schemas.push(RSchema { core: vec![], extra_core: vec![], build: vec![UInt(1)] });
        rule_schemas.push(RSchema { core: vec![Str("".into())], ..Default::default() });
    }
    let s3 = rule_schemas.par_iter().map(|s| { let mut st = Stats::default(); judge_schema_text(&ctx, s, &mut st); st }).reduce(Stats::default, Stats::merge);

    // (b) document mutants: single-byte deletions and substitutions on emitted documents
    let docs: Vec<String> = [0usize, 5, 9, 11, 22, 23].iter().map(|&i| bind::zerv(&schemas[i].1, &base_vars()).unwrap().to_string())
        .chain([format!("(schema:{},vars:(major:Some(1),custom:{{\"k\":[1,\"x\"]}}))", sch::ron_schema(&schemas[22].1))]).collect();
    let subs: &[u8] = b"(),\":x0";
    let stride = if quick { 3 } else { 1 };
    let mut mutants: Vec<String> = vec![];
    for d in &docs {
        let b = d.as_bytes();
        for i in (0..b.len()).step_by(stride) {
            let mut del = b.to_vec(); del.remove(i);
            if let Ok(s) = String::from_utf8(del) { mutants.push(s); }
            for &c in subs { if b[i] != c { let mut m = b.to_vec(); m[i] = c; if let Ok(s) = String::from_utf8(m) { mutants.push(s); } } }
        }
    }
    if !quick {
        // deviation 2: every pair of single-byte edits (deletion or substitution by one of 4 symbols) on a compact document
        let small = "(schema:(core:[var(Major),var(Minor)],extra_core:[var(Dev)],build:[str(\"b\")]),vars:(major:Some(1),minor:Some(2),dev:Some(3)))";
        let b = small.as_bytes();
        let edits: &[Option<u8>] = &[None, Some(b'('), Some(b','), Some(b'"'), Some(b'x')];
        for i in 0..b.len() { for j in (i + 1)..b.len() { for ei in edits { for ej in edits {
            let mut m = b.to_vec();
            match ej { None => { m.remove(j); } Some(c) => { if m[j] == *c { continue; } m[j] = *c; } }
            match ei { None => { m.remove(i); } Some(c) => { if m[i] == *c { continue; } m[i] = *c; } }
            if let Ok(s) = String::from_utf8(m) { mutants.push(s); }
        }}}}
    }
    for garbage in ["", " ", "1.2.3", "{}", "()", "(schema:(),vars:())", "null", "(schema:(core:[var(Major)],extra_core:[],build:[]))", "(vars:(major:Some(1)))", "\u{0}", "((((((((((((((((((((", "(schema:(core:[var(Major)],extra_core:[],build:[]),vars:(major:Some(-1)))", "(schema:(core:[var(Major)],extra_core:[],build:[]),vars:(major:Some(18446744073709551616)))"] { mutants.push(garbage.to_string()); }
    // the same objects in other notations: JSON (compact and pretty, as serde writes them and hand-shortened), a JSON
    // document wrapped in RON parentheses, YAML-like and TOML-like text - none of them is RON
    let mut other_notations = 0u64;
    for (_, sc, v) in objects.iter().step_by((objects.len() / 60).max(1)) {
        if let Ok(z) = bind::zerv(sc, v) {
            if let Ok(j) = serde_json::to_string(&z) { mutants.push(j.clone()); mutants.push(format!("({j})")); mutants.push(format!(" {j}\n")); other_notations += 3; }
            if let Ok(j) = serde_json::to_string_pretty(&z) { mutants.push(j); other_notations += 1; }
        }
    }
    for d in ["{\"schema\":{\"core\":[{\"var\":\"Major\"},{\"var\":\"Minor\"},{\"var\":\"Patch\"}],\"extra_core\":[],\"build\":[]},\"vars\":{\"major\":1,\"minor\":2,\"patch\":3}}",
        "{\"schema\":{\"core\":[{\"var\":\"Major\"}],\"extra_core\":[],\"build\":[]},\"vars\":{\"major\":1,\"custom\":{}}}",
        "schema:\n  core:\n    - var: Major\n  extra_core: []\n  build: []\nvars:\n  major: 1\n", "[schema]\ncore = [{ var = \"Major\" }]\nextra_core = []\nbuild = []\n[vars]\nmajor = 1\n",
        "Zerv(schema:(core:[var(Major)],extra_core:[],build:[]),vars:(major:Some(1)))", "#![enable(implicit_some)]\n(schema:(core:[var(Major)],extra_core:[],build:[]),vars:(major:1))"] { mutants.push(d.to_string()); other_notations += 1; }
    let s4 = mutants.par_iter().map(|m| {
        let mut st = Stats::default();
        st.inc("document_mutants");
        let case = json!({"kind":"mutant","doc":m});
        for fmt in ["semver", "pep440"] {
            match zv::run_cli(&["version", "--source", "stdin", "--output-format", fmt], Some(m)) {
                Err(p) => ctx.violation(&format!("panic@{}", p.file()), truncate(m, 120), case.clone(), format!("{} at {}", p.message, p.location)),
                Ok(Res::Ok(out)) => {
                    st.inc("mutants_accepted");
                    // accepted => the document must parse and its schema satisfy the rules; output well-formed
                    match Zerv::from_str(m.trim()) {
                        Err(e) => ctx.violation("unparseable_document_rendered", truncate(m, 120), case.clone(), format!("rendered {out:?} although the document does not parse: {e}")),
                        Ok(z) => if let Verdict::Invalid(why) = sch::judge(&bind::rschema(&z.schema)) { ctx.violation("invalid_schema_rendered", truncate(m, 120), case.clone(), format!("{why}; printed {out:?}")); },
                    }
                    if let Some(why) = malformed(fmt, &out) { ctx.violation("mutant_output_malformed", truncate(m, 120), case.clone(), format!("{out:?}: {why}")); }
                }
                Ok(_) => { st.inc("mutants_refused"); }
            }
        }
        st
    }).reduce(Stats::default, Stats::merge);

    // process conformance: the real pipe through two binaries
    let mut s5 = Stats::default();
    // (a strided slice of the pipe jobs and every literal-schema job; each process starts cold, which the in-process runs do not)
    let slice: Vec<&(&str, Vec<String>, Option<String>)> = pipe_jobs.iter().enumerate().filter(|(i, _)| i % (pipe_jobs.len() / 40).max(1) == 0 || (*i >= lit_start && *i < lit_end)).map(|(_, j)| j).collect();
    let s5p = slice.par_iter().map(|(cmd, args, stdin)| {
        let mut s5 = Stats::default();
        let mut first = vec![cmd.to_string()]; first.extend(args.iter().cloned());
        let mut tz = first.clone(); tz.extend(a(&["--output-format", "zerv"]));
        let o1 = zv::run_bin(&tz, stdin.as_deref(), &[], None);
        if o1.status != 0 { return s5; }
        for o in [a(&["--output-format", "semver"]), a(&["--output-template", "{{ semver }}|{{ pep440 }}|{{ semver_obj.build_part }}|{{ pep440_obj.base_part }}"])] {
            let mut pa = a(&["version", "--source", "stdin"]); pa.extend(o.iter().cloned());
            let o2 = zv::run_bin(&pa, Some(&o1.stdout_str()), &[], None);
            let mut dr = first.clone(); dr.extend(o.iter().cloned());
            let o3 = zv::run_bin(&dr, stdin.as_deref(), &[], None);
            s5.inc("process_conformance_cases");
            if o2.stdout != o3.stdout || o2.status != o3.status { ctx.violation("binary_pipe_differs", format!("{} {}", first.join(" "), o.join(" ")), json!({"kind":"proc"}), format!("piped {:?} direct {:?}", o2.stdout_str(), o3.stdout_str())); }
        }
        s5
    }).reduce(Stats::default, Stats::merge);
    s5 = s5.merge(s5p);
    // the same pipe with a slow producer: the emitted document reaches the second zerv after a silence (1.6 s, 4 s), in 7-byte pieces,
    // or as one byte followed by a long pause - what a loaded machine or a large repository does to `zerv version ... | zerv version
    // --source stdin`. The rendering must equal the direct one whatever the timing of the delivery.
    {
        use proc::Delivery; let ms = std::time::Duration::from_millis;
        let deliveries: [(&str, Delivery); 4] = [("silent 1.6 s", Delivery { first_delay: ms(1600), ..Default::default() }), ("silent 4 s", Delivery { first_delay: ms(4000), ..Default::default() }), ("7-byte pieces 5 ms apart", Delivery { chunk: 7, gap: ms(5), ..Default::default() }), ("one byte, 2.5 s, the rest", Delivery { head: 1, head_gap: ms(2500), ..Default::default() })];
        let picked: Vec<&(&str, Vec<String>, Option<String>)> = slice.iter().step_by((slice.len() / 6).max(1)).take(6).cloned().collect();
        let work: Vec<(usize, usize)> = (0..picked.len()).flat_map(|j| (0..deliveries.len()).map(move |d| (j, d))).collect();
        let pool = rayon::ThreadPoolBuilder::new().num_threads(work.len().clamp(1, 64)).build().unwrap_or_else(|e| machinery_error(&format!("thread pool: {e}")));
        let sd = pool.install(|| work.par_iter().map(|&(j, di)| {
            let mut st = Stats::default();
            let (cmd, args, stdin) = picked[j];
            let mut first = vec![cmd.to_string()]; first.extend(args.iter().cloned());
            let mut tz = first.clone(); tz.extend(a(&["--output-format", "zerv"]));
            let o1 = zv::run_bin(&tz, stdin.as_deref(), &[], None);
            if o1.status != 0 { return st; }
            let o = a(&["--output-format", "semver"]);
            let mut pa = a(&["version", "--source", "stdin"]); pa.extend(o.iter().cloned());
            let o2 = zv::run_bin_delivery(&pa, Some(&o1.stdout_str()), &[], None, &deliveries[di].1);
            let mut dr = first.clone(); dr.extend(o.iter().cloned());
            let o3 = zv::run_bin(&dr, stdin.as_deref(), &[], None);
            st.inc("process_conformance_cases"); st.inc("slow_producer_pipe_cases");
            if o2.stdout != o3.stdout || o2.status != o3.status { ctx.violation("binary_pipe_differs", format!("{} {} [document delivered: {}]", first.join(" "), o.join(" "), deliveries[di].0), json!({"kind":"proc-delivery"}), format!("piped exit {} {:?} {:?}; direct {:?}", o2.status, o2.stdout_str(), truncate(&o2.stderr_str(), 160), o3.stdout_str())); }
            st
        }).reduce(Stats::default, Stats::merge));
        s5 = s5.merge(sd);
    }
    // large documents through the real pipe (the in-process driver hands stdin over as a string and would not see a bounded
    // reader): custom arrays of 1 000 / 30 000 elements under 10 levels of nesting emit 50 KB / 1.5 MB of pretty RON
    for n in [1000usize, 30000, 60000] {
        let custom = format!("{}{}{}", "[".repeat(10), vec!["1"; n].join(","), "]".repeat(10));
        if custom.len() > 120_000 { continue; }
        let base = a(&["version", "--source", "none", "--tag-version", "1.2.3", "--custom", &custom]);
        let mut tz = base.clone(); tz.extend(a(&["--output-format", "zerv"]));
        let o1 = zv::run_bin(&tz, None, &[], None);
        s5.inc("process_conformance_cases"); s5.inc("large_documents");
        if o1.status != 0 { ctx.violation("large_document_not_emitted", format!("custom array of {n} elements"), json!({"kind":"proc-large","n":n}), truncate(&o1.stderr_str(), 200)); continue; }
        let doc = o1.stdout_str();
        let o2 = zv::run_bin(&["version", "--source", "stdin", "--output-format", "zerv"], Some(&doc), &[], None);
        if o2.status != 0 || o2.stdout != o1.stdout { ctx.violation("large_document_does_not_round_trip", format!("custom array of {n} elements ({} bytes of RON)", doc.len()), json!({"kind":"proc-large","n":n}), format!("re-emission exit {} {}", o2.status, truncate(&o2.stderr_str(), 200))); }
        let mut dr = base.clone(); dr.extend(a(&["--output-format", "pep440"]));
        let (o3, o4) = (zv::run_bin(&dr, None, &[], None), zv::run_bin(&["version", "--source", "stdin", "--output-format", "pep440"], Some(&doc), &[], None));
        if o3.stdout != o4.stdout || o3.status != o4.status { ctx.violation("binary_pipe_differs", format!("custom array of {n} elements"), json!({"kind":"proc-large","n":n}), format!("direct {:?} piped exit {} {:?}", o3.stdout_str(), o4.status, truncate(&o4.stderr_str(), 120))); }
    }
    // multi-byte text at every alignment in documents of 10-40 KB (a reader decoding fixed-size chunks would split a character),
    // and bytes that are not UTF-8 at all inside a string value (not valid RON: must be refused)
    for unit in ["é", "€", "🙂"] { for shift in 0..4usize { for n in [3000usize, 6000, 9000] {
        let branch = format!("{}{}", "a".repeat(shift), unit.repeat(n));
        if branch.len() > 100_000 { continue; }
        let tz = a(&["version", "--source", "none", "--tag-version", "1.2.3", "--bumped-branch", &branch, "--output-format", "zerv"]);
        let o1 = zv::run_bin(&tz, None, &[], None);
        s5.inc("process_conformance_cases"); s5.inc("multibyte_alignment_documents");
        if o1.status != 0 { ctx.violation("large_document_not_emitted", format!("branch of {n} x {unit:?} shifted by {shift}"), json!({"kind":"proc-align"}), truncate(&o1.stderr_str(), 200)); continue; }
        let o2 = zv::run_bin(&["version", "--source", "stdin", "--output-format", "zerv"], Some(&o1.stdout_str()), &[], None);
        if o2.status != 0 || o2.stdout != o1.stdout { ctx.violation("large_document_does_not_round_trip", format!("branch of {n} x {unit:?} shifted by {shift} bytes ({} bytes of RON)", o1.stdout.len()), json!({"kind":"proc-align","unit":unit,"shift":shift,"n":n}), format!("re-emission exit {} ({} vs {} bytes) {}", o2.status, o2.stdout.len(), o1.stdout.len(), truncate(&o2.stderr_str(), 160))); }
    }}}
    for (name, bad) in [("0xFF in a string", b"\xff".to_vec()), ("lone continuation byte", b"\x80".to_vec()), ("truncated 3-byte sequence", b"\xe2\x82".to_vec()), ("overlong NUL", b"\xc0\x80".to_vec()), ("UTF-16 surrogate", b"\xed\xa0\x80".to_vec())] {
        let mut doc = b"(schema:(core:[var(Major)],extra_core:[],build:[var(BumpedBranch)]),vars:(major:Some(1),bumped_branch:Some(\"m".to_vec();
        doc.extend(&bad); doc.extend(b"in\")))");
        let o = proc::run(&proc::Run { program: &proc::zerv_bin(), args: a(&["version", "--source", "stdin"]), stdin: Some(doc), env: proc::base_env(), cwd: None, timeout: std::time::Duration::from_secs(60) }).unwrap_or_else(|e| machinery_error(&format!("spawn: {e}")));
        s5.inc("process_conformance_cases"); s5.inc("invalid_utf8_documents");
        if o.status == 0 { ctx.violation("unparseable_document_rendered", format!("stdin document with {name}"), json!({"kind":"proc-utf8","what":name}), format!("printed {:?}", o.stdout_str())); }
    }
    let all = s1.merge(s2).merge(s3).merge(s4).merge(s5.clone());
    let mut cov = Coverage::default();
    cov.states = objects.len() as u64 + pipe_jobs.len() as u64 + rule_schemas.len() as u64 + mutants.len() as u64;
    cov.transitions = all.get("round_trip_objects") + all.get("pipe_renders") + all.get("schema_rule_runs") + all.get("document_mutants") * 2;
    cov.evaluations = cov.transitions;
    cov.traces_validated = cov.transitions;
    cov.distinct_nontrivial = objects.len() as u64 + all.get("mutants_accepted") + all.get("invalid_schema_refused");
    cov.rule = format!("(a) {} objects: each string variable over {} nasty strings, each numeric variable over [0,1,2^63,2^64-1], custom over {} JSON shapes, under 22 presets + 3 custom schemas, plus nasty text inside schema literals{}: parse(emit(z))==z and byte-identical re-emission; (a2) {} pipe jobs (version and flow, sources none/stdin, overrides/bumps incl. epoch 0) x 5 renderings: direct == piped; (c) {} structurally generated schemas (every variable in every section, all orders/duplications of Major/Minor/Patch, all pairs of secondaries, timestamp patterns, empty; every component sequence up to length 4/4/2 (thorough 6/6/4) over a 6-symbol alphabet per section with the other sections valid, and the full product of sequences of length <=2 x <=2 x <=1 (thorough <=3 x <=3 x <=1) across sections) on 4 entry paths: accepted iff R-SCH valid; (b) {} document mutants (byte deletions/substitutions, stride {stride}; thorough adds every pair of single-byte edits on a compact document) + garbage + {other_notations} documents in other notations (JSON as serde writes the object, compact / pretty / wrapped, YAML- and TOML-like): no panic, rendered only if parseable with a valid schema", objects.len(), strs.len(), customs.len(), if quick { "" } else { " and all (string, custom) pairs" }, pipe_jobs.len(), rule_schemas.len(), mutants.len());
    cov.exhaustive = true;
    cov.samples = vec![json!(objects[7].0), json!({"cmd": pipe_jobs[3].0, "args": pipe_jobs[3].1}), json!(sch::ron_schema(&rule_schemas[40])), json!(truncate(&mutants[100], 100))];
    cov.set("clause_counts", all.to_json());
    cov.set("process_conformance_cases", s5.get("process_conformance_cases"));
    cov.assumptions = vec!["R-SCH (harness/src/refmodel/sch.rs); ts(\"%...\") patterns and custom precedence orders are outside the statement (no-panic only)".into(), "document mutants are judged with zerv's own RON parser for parseability (the ron crate is trusted)".into(), "wall clock pinned".into()];
    finish(&ctx, cov);
}
