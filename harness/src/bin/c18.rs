//! C18 — the Python API is a faithful wrapper of the CLI. This engine dumps the clap metadata of the tree
//! under test, prepares a git repository, and drives py/c18_python_api.py (exhaustive keyword singles/pairs).
use clap::CommandFactory;
use serde_json::{Value, json};
use zerv::cli::Cli;
use zvharness::gitx::{self, DateMode, Head, Repo, Shape, Tag};
use zvharness::*;

fn dump() -> Value {
    let cmd = Cli::command();
    let globals: Vec<Value> = cmd.get_arguments().filter(|a| a.is_global_set()).map(arg_json).collect();
    let mut subs = serde_json::Map::new();
    for sc in cmd.get_subcommands() {
        let mut args: Vec<Value> = sc.get_arguments().map(arg_json).collect();
        args.extend(globals.iter().cloned());
        subs.insert(sc.get_name().to_string(), Value::Array(args));
    }
    Value::Object(subs)
}

fn arg_json(a: &clap::Arg) -> Value {
    json!({
        "id": a.get_id().as_str(),
        "long": a.get_long(),
        "short": a.get_short().map(|c| c.to_string()),
        "positional": a.is_positional(),
        "takes_value": a.get_action().takes_values(),
        "min_values": a.get_num_args().map(|r| r.min_values()),
        "possible_values": a.get_possible_values().iter().map(|p| p.get_name().to_string()).collect::<Vec<_>>(),
    })
}

fn main() {
    let ctx = Ctx::from_args("C18", "model_checking");
    let _ = ctx.pinned_now();
    let root = gitx::scratch_root();
    let _ = std::fs::remove_dir_all(&root);
    std::fs::create_dir_all(&root).unwrap_or_else(|e| machinery_error(&format!("scratch: {e}")));
    let dump_path = root.join("clap.json");
    std::fs::write(&dump_path, serde_json::to_string(&dump()).unwrap()).unwrap();
    let linear = Shape { parents: vec![vec![], vec![0]], branches: [("main".to_string(), 1)].into_iter().collect(), cur: "main".into(), ops: vec![] };
    let mut repo = Repo::create(&root, "repo", &linear, &gitx::dates(2, DateMode::Increasing));
    repo.set_tags(&[Tag { name: "v1.2.3".into(), target: 0, annotated: false }]);
    repo.set_head(&Head::Branch("main".into()));
    // path spellings for repo_path: the wrapper must hand the text to -C untouched. A second repository (other version) sits
    // where a *textual* normalisation of "link/../repo2" would not look: root/work/link -> root/store/inner, so the kernel
    // resolves root/work/link/../repo2 to root/store/repo2 while os.path.normpath gives root/work/repo2 (absent)
    let store = root.join("store");
    std::fs::create_dir_all(store.join("inner")).unwrap();
    std::fs::create_dir_all(root.join("work")).unwrap();
    let mut repo2 = Repo::create(&store, "repo2", &linear, &gitx::dates(2, DateMode::Increasing));
    repo2.set_tags(&[Tag { name: "v7.7.7".into(), target: 1, annotated: false }]);
    repo2.set_head(&Head::Branch("main".into()));
    let _ = std::os::unix::fs::symlink(store.join("inner"), root.join("work/link"));
    let _ = std::os::unix::fs::symlink(&repo.dir, root.join("work/repolink"));
    let rd = repo.dir.display().to_string();
    let paths = vec![format!("{rd}/"), format!("{rd}/."), format!("{rd}//"), format!("{}/work/link/../repo2", root.display()), format!("{}/work/repolink", root.display()), format!("{}/store/inner/../repo2/./", root.display()), format!("{}/repo/../repo", root.display())];
    let out_path = root.join("result.json");
    let mut env = proc::base_env();
    env.push(("ZV_C18_PATHS".into(), serde_json::to_string(&paths).unwrap()));
    env.push(("PYTHONDONTWRITEBYTECODE".into(), "1".into()));
    env.push(("PYTHONPATH".into(), "/repo/python".into()));
    let o = proc::run(&proc::Run {
        program: std::path::Path::new("python3"),
        args: vec![format!("{}/py/c18_python_api.py", verif_root()), dump_path.display().to_string(), repo.dir.display().to_string(), proc::zerv_bin().display().to_string(), ctx.tier_name().into(), out_path.display().to_string()],
        stdin: None, env, cwd: Some(&repo.dir), timeout: std::time::Duration::from_secs(if ctx.quick() { 600 } else { 3000 }),
    }).unwrap_or_else(|e| machinery_error(&format!("cannot run python3: {e}")));
    if o.timed_out || o.status != 0 { machinery_error(&format!("python driver failed (exit {}): {}{}", o.status, truncate(&o.stdout_str(), 2000), truncate(&o.stderr_str(), 3000))); }
    let res: Value = serde_json::from_str(&std::fs::read_to_string(&out_path).unwrap_or_default()).unwrap_or_else(|e| machinery_error(&format!("bad result json: {e}")));
    for v in res["violations"].as_array().cloned().unwrap_or_default() {
        ctx.violation(v["class"].as_str().unwrap_or("?"), v["key"].as_str().unwrap_or("?").to_string(), v["case"].clone(), v["detail"].as_str().unwrap_or("").to_string());
    }
    repo.remove();
    repo2.remove();
    let _ = std::fs::remove_dir_all(&root);
    let c = &res["counts"];
    let g = |k: &str| c[k].as_u64().unwrap_or(0);
    let mut cov = Coverage::default();
    cov.states = g("cases");
    cov.transitions = g("api_calls") + g("independent_runs");
    cov.evaluations = cov.transitions;
    cov.traces_validated = g("api_calls");
    cov.distinct_nontrivial = g("cases_with_flags");
    cov.rule = format!("keywords obtained by inspect.signature: {}; clap metadata dumped from Cli::command() of the tree under test; every keyword singly with None, False and typed valid values (ints 0 and 3, both booleans, every possible value of enumerated options), every pair of keywords with valid values{}; each call runs in a prepared git repository (tag v1.2.3, one commit ahead) with the argv captured at subprocess.run; oracle: None/False add nothing, every emitted flag exists for the sub-command with matching arity, the return value equals the stripped stdout of the binary run with an independently built argv (keyword -> --long-name from the clap dump + exception table), a failing command raises RuntimeError; 10 calls repeated under 18 settings of the caller's environment (GIT_DIR / GIT_WORK_TREE / GIT_INDEX_FILE / GIT_CONFIG_* redirections, PATH without git, RUST_LOG, TZ, locale, HOME, CI variables), the independent run inheriting the same environment. non-trivial = cases that emit at least one flag", res["keywords"], if ctx.quick() { "" } else { ", every triple for flow/render/check and every version triple containing source=none" });
    cov.exhaustive = true;
    cov.samples = res["samples"].as_array().cloned().unwrap_or_else(|| vec![json!("none")]);
    cov.set("clause_counts", c.clone());
    cov.assumptions = vec!["the independent argv uses long option names from the clap dump; stdin keyword is passed as process stdin on both sides".into(), "wall clock pinned; git isolated".into()];
    finish(&ctx, cov);
}
