//! C13 — zerv fails cleanly: it never panics and never prints a result on failure.
//! (a) in-process argument-vector enumeration, (b) process slice with/without -v, (c) git fault enumeration.
use std::path::{Path, PathBuf};

use clap::CommandFactory;
use rayon::prelude::*;
use serde_json::json;
use zerv::cli::Cli;
use zvharness::gitx::{self, DateMode, Head, Repo, Shape, Tag, WorkTree};
use zvharness::zv::{self, Res};
use zvharness::*;

fn a(v: &[&str]) -> Vec<String> { v.iter().map(|s| s.to_string()).collect() }

#[derive(Clone, Debug)]
struct Flag { long: String, takes_value: bool, optional_value: bool, /// the enumerated values clap knows plus every word of the flag's own help text
    words: Vec<String> }

fn flags_of(sub: &str) -> Vec<Flag> {
    let cmd = Cli::command();
    let sc = cmd.find_subcommand(sub).unwrap_or_else(|| machinery_error(&format!("no subcommand {sub}")));
    let mut v = vec![];
    for arg in sc.get_arguments().chain(cmd.get_arguments().filter(|a| a.is_global_set())) {
        let Some(long) = arg.get_long() else { continue };
        if long == "help" || long == "version" { continue; }
        let takes = arg.get_action().takes_values();
        let optional = arg.get_num_args().map(|r| r.min_values() == 0).unwrap_or(false);
        let mut words: Vec<String> = arg.get_possible_values().iter().map(|p| p.get_name().to_string()).collect();
        let help = format!("{} {}", arg.get_help().map(|h| h.to_string()).unwrap_or_default(), arg.get_long_help().map(|h| h.to_string()).unwrap_or_default());
        words.extend(help.split(|c: char| !(c.is_ascii_alphanumeric() || c == '-' || c == '_')).filter(|w| w.len() >= 2 && w.len() <= 24).map(|w| w.to_string()));
        words.sort(); words.dedup();
        v.push(Flag { long: long.to_string(), takes_value: takes, optional_value: optional, words });
    }
    v.sort_by(|a, b| a.long.cmp(&b.long));
    v.dedup_by(|a, b| a.long == b.long);
    v
}

fn pool() -> Vec<String> {
    let mut v: Vec<String> = ["é€", "", "-1", "0", "1", "4294967295", "4294967296", "18446744073709551615", "18446744073709551616", "{{", "{{ x | y }}", "%Q", "~0", "0=", "{\"a\":", "none", "a\nb",
        "{{ major }}", "{{ hash_int(value=bumped_branch, length=25) }}", "{{ prefix(value=\"é€\", length=1) }}", "{{ format_timestamp(value=1, format=\"%Q\") }}", "{{ 1 / 0 }}", "{{ bumped_branch | upper }}",
        "{% for i in range(end=3) %}x{% endfor %}", "-9223372036854775808", "~1", "0=5", "-1=x", "alpha", "semver", "[(pattern: \"*\", pre_release_label: alpha, post_mode: commit)]", "(core:[],extra_core:[],build:[])", "{\"k\": 1}", "1e400", "٣", "\u{0}"]
        .iter().map(|s| s.to_string()).collect();
    v.push("x".repeat(300));
    v
}

fn small_pool() -> Vec<String> { a(&["é€", "4294967296", "{{ x | y }}", "-9223372036854775808", "0"]) }

fn flag_args(f: &Flag, value: &str) -> Vec<String> {
    if !f.takes_value { return vec![format!("--{}", f.long)]; }
    // `--flag=value` keeps values that start with '-' or are empty attached to their flag
    vec![format!("--{}={}", f.long, value)]
}

/// one in-process run: the only thing asserted here is absence of a panic
fn inproc(ctx: &Ctx, args: &[String], stdin: Option<&str>, st: &mut Stats) -> Option<Res> {
    st.inc("inprocess_runs");
    match zv::run_cli(args, stdin) {
        Ok(r) => { match &r { Res::Ok(_) => st.inc("ok"), Res::Usage(_) => st.inc("usage_error"), Res::Err(_) => st.inc("zerv_error") } ; st.observe(&(args, r.is_ok())); Some(r) }
        Err(p) => { ctx.violation(&format!("panic@{}", p.location), args.join(" "), json!({"kind":"argv","args":args,"stdin":stdin}), format!("{} at {}", p.message, p.location)); None }
    }
}

/// process-level oracle
fn judge_proc(ctx: &Ctx, args: &[String], stdin: Option<&str>, env: &[(&str, &str)], cwd: Option<&Path>, label: &str, st: &mut Stats) -> proc::Out {
    st.inc("process_runs");
    let o = zv::run_bin(args, stdin, env, cwd);
    let key = format!("{label}{}", args.join(" "));
    let case = json!({"kind":"proc","args":args,"stdin":stdin,"env":env.iter().map(|(k, v)| format!("{k}={v}")).collect::<Vec<_>>()});
    if o.status == 101 || o.status < 0 || o.stderr_str().contains("panicked at") {
        let site = o.stderr_str().lines().find(|l| l.contains("panicked at")).unwrap_or("").to_string();
        ctx.violation("process_panic_or_abort", key, case, format!("exit {} {}", o.status, truncate(&site, 200)));
    } else if o.status == 0 {
        st.inc("process_ok");
        let out = o.stdout_str();
        // `zerv` without a sub-command requests nothing: empty stdout with status 0 is consistent with the statement
        if !args.is_empty() && (out.is_empty() || !out.ends_with('\n')) { ctx.violation("success_without_result_line", key, case, format!("stdout {:?}", truncate(&out, 120))); }
    } else {
        st.inc("process_failed");
        if !o.stdout.is_empty() { ctx.violation("result_printed_on_failure", key.clone(), case.clone(), format!("exit {} with stdout {:?}", o.status, truncate(&o.stdout_str(), 120))); }
        if o.stderr.is_empty() { ctx.violation("failure_without_diagnostic", key, case, format!("exit {} with empty stderr", o.status)); }
    }
    o
}

fn main() {
    for (k, v) in gitx::git_env() { unsafe { std::env::set_var(k, v) }; }
    let ctx = Ctx::from_args("C13", "fault_enumeration");
    let _ = ctx.pinned_now();
    let quick = ctx.quick();
    if let Some(case) = ctx.replay_case() {
        let args: Vec<String> = case["args"].as_array().map(|v| v.iter().map(|x| x.as_str().unwrap().to_string()).collect()).unwrap_or_default();
        let mut st = Stats::default();
        match case["kind"].as_str() { Some("argv") => { inproc(&ctx, &args, case["stdin"].as_str(), &mut st); } _ => { judge_proc(&ctx, &args, case["stdin"].as_str(), &[], None, "", &mut st); } }
        finish(&ctx, Coverage::default());
    }
    let valid_doc = "(schema:(core:[var(Major),var(Minor),var(Patch)],extra_core:[var(Epoch),var(PreRelease),var(Post),var(Dev)],build:[var(BumpedBranch)]),vars:(major:Some(1),minor:Some(2),patch:Some(3),bumped_branch:Some(\"main\"),custom:{\"k\":1}))".to_string();
    let bad_docs: Vec<String> = a(&["", "garbage", "(schema:(core:[],extra_core:[],build:[]),vars:())", "(schema:(core:[var(Major)],extra_core:[],build:[])", "{\"schema\":1}", "(schema:(core:[var(Dev)],extra_core:[],build:[]),vars:(major:Some(1)))", "(schema:(core:[var(ts(\"%Q\"))],extra_core:[],build:[]),vars:(bumped_timestamp:Some(1)))", "(schema:(core:[var(Major)],extra_core:[],build:[]),vars:(major:Some(18446744073709551615),custom:[]))"]);
    let pool = pool();
    let spool = small_pool();

    // (a) in-process: singles and pairs for version and flow, in several source contexts
    let mut jobs: Vec<(Vec<String>, Option<String>)> = vec![];
    for sub in ["version", "flow"] {
        let flags = flags_of(sub);
        let contexts: Vec<(Vec<String>, Option<String>)> = vec![
            (a(&[sub, "--source", "none", "--tag-version", "1.2.3"]), None),
            (a(&[sub, "--source", "none"]), None),
            (a(&[sub, "--source", "stdin"]), Some(valid_doc.clone())),
            (a(&[sub, "--source", "none", "--tag-version", "18446744073709551615.4294967295.0-rc.4294967295", "--dirty", "--distance", "4294967295"]), None),
            // stdin objects with unusual precedence orders (empty, partial, reversed): bumps must fail cleanly or work
            (a(&[sub, "--source", "stdin"]), Some(valid_doc.replace("build:[var(BumpedBranch)])", "build:[var(BumpedBranch)],precedence_order:[])"))),
            (a(&[sub, "--source", "stdin"]), Some(valid_doc.replace("build:[var(BumpedBranch)])", "build:[var(BumpedBranch)],precedence_order:[Patch,Major])"))),
            (a(&[sub, "--source", "stdin"]), Some(valid_doc.replace("build:[var(BumpedBranch)])", "build:[var(BumpedBranch)],precedence_order:[Build,ExtraCore,Dev,Post,PreReleaseNum,PreReleaseLabel,Core,Patch,Minor,Major,Epoch])"))),
        ];
        for (base, stdin) in &contexts {
            for f in &flags {
                if f.long == "source" || f.long == "directory" { continue; }
                let vals: Vec<&String> = if f.takes_value { pool.iter().collect() } else { vec![&pool[0]] };
                for v in vals { let mut args = base.clone(); args.extend(flag_args(f, v)); jobs.push((args, stdin.clone())); }
                if f.optional_value { let mut args = base.clone(); args.push(format!("--{}", f.long)); jobs.push((args, stdin.clone())); }
            }
        }
        // spellings of documented values: every word of a flag's own help text (its enumerated values are among them), as
        // written and lower-cased (valid values), in upper, title and alternating case, abbreviated to its first two
        // characters and wrapped in white space, as that flag's value - in the first context and with a stdin document
        for (base, stdin) in [&contexts[0], &contexts[2]] {
            for f in &flags {
                if !f.takes_value || f.long == "source" || f.long == "directory" { continue; }
                let mut vals: Vec<String> = vec![];
                for w in &f.words {
                    let lower = w.to_lowercase();
                    let title: String = lower.chars().enumerate().map(|(i, c)| if i == 0 { c.to_ascii_uppercase() } else { c }).collect();
                    let alt: String = lower.chars().enumerate().map(|(i, c)| if i % 2 == 1 { c.to_ascii_uppercase() } else { c }).collect();
                    vals.extend([w.clone(), lower.clone(), lower.to_uppercase(), title, alt, lower.chars().take(2).collect(), format!(" {lower}"), format!("{lower} ")]);
                }
                vals.sort(); vals.dedup();
                for v in vals { let mut args = base.clone(); args.extend(flag_args(f, &v)); jobs.push((args, stdin.clone())); }
            }
        }
        // template-valued arguments whose *rendered* text contains the syntax of the argument's own mini-language ('=',
        // '~', '-', ',', blanks, nothing, a number above u64): validation sees the template, parsing the rendered text
        {
            let custom = r#"{"k":"k=v","e":"","n":"-1","t":"~1","big":"18446744073709551616","sp":" 1 ","c":"0,1","eq":"="}"#;
            let ron = "(core:[var(Major),var(Minor),var(Patch),str(\"c\"),uint(5)],extra_core:[var(Epoch),var(PreRelease),var(Post),var(Dev),str(\"e\")],build:[str(\"b\"),uint(7)])";
            let bases = [a(&[sub, "--source", "none", "--tag-version", "1.2.3-rc.1.post.2", "--bumped-branch", "fix/a=b", "--custom", custom]),
                a(&[sub, "--source", "none", "--tag-version", "1.2.3-rc.1.post.2", "--bumped-branch", "=", "--custom", custom, "--schema-ron", ron])];
            let tpool = a(&["{{ bumped_branch }}", "0={{ bumped_branch }}", "{{ custom.n }}", "{{ custom.t }}", "{{ custom.t }}={{ custom.n }}", "0={{ custom.e }}", "{{ custom.e }}", "1={{ custom.k }}", "{{ custom.big }}",
                "{{ custom.n }}=x", "{{ custom.sp }}", "{{ custom.c }}", "{{ custom.eq }}", "3{{ custom.eq }}x", "-1={{ custom.k }}", "~1={{ bumped_branch }}", "{{ custom.k }}={{ custom.k }}"]);
            for base in &bases { for f in &flags {
                if !f.takes_value || f.long == "source" || f.long == "directory" || f.long == "custom" || f.long == "bumped-branch" || (f.long == "schema-ron" && base.contains(&"--schema-ron".to_string())) { continue; }
                for v in &tpool { let mut args = base.clone(); args.extend(flag_args(f, v)); jobs.push((args, None)); }
            }}
        }
        // all pairs of flags x small pool, first context (and stdin context in thorough)
        for (ci, (base, stdin)) in contexts.iter().enumerate() {
            if ci == 1 || ci == 3 || ci >= 4 || (quick && ci == 2) { continue; }
            for (i, f) in flags.iter().enumerate() { for g in flags.iter().skip(i + 1) {
                if f.long == "source" || g.long == "source" || f.long == "directory" || g.long == "directory" { continue; }
                let fv: Vec<&String> = if f.takes_value { spool.iter().collect() } else { vec![&spool[0]] };
                let gv: Vec<&String> = if g.takes_value { spool.iter().collect() } else { vec![&spool[0]] };
                for x in &fv { for y in &gv { let mut args = base.clone(); args.extend(flag_args(f, x)); args.extend(flag_args(g, y)); jobs.push((args, stdin.clone())); } }
            }}
        }
        // custom precedence orders, systematically: every ordered pair, every single, every "all but one" and the
        // reversal of the 11 precedence names, on stdin and through --schema-ron, x every flag x a typed small pool
        let prec = ["Epoch", "Major", "Minor", "Patch", "Core", "PreReleaseLabel", "PreReleaseNum", "Post", "Dev", "ExtraCore", "Build"];
        let mut orders: Vec<String> = vec![];
        for x in prec { orders.push(format!("[{x}]")); for y in prec { if x != y { orders.push(format!("[{x},{y}]")); } } }
        for skip in prec { orders.push(format!("[{}]", prec.iter().filter(|p| **p != skip).copied().collect::<Vec<_>>().join(","))); }
        orders.push(format!("[{}]", prec.iter().rev().copied().collect::<Vec<_>>().join(",")));
        let po_pool = a(&["0", "~1", "0=5", "1=x", "-1"]);
        let po_orders: Vec<&String> = if quick { orders.iter().step_by(1).collect() } else { orders.iter().collect() };
        for (oi, po) in po_orders.iter().enumerate() {
            let doc = valid_doc.replace("build:[var(BumpedBranch)])", &format!("build:[var(BumpedBranch)],precedence_order:{po})"));
            let ron = format!("(core:[var(Major),var(Minor),var(Patch)],extra_core:[var(Epoch),var(PreRelease),var(Post),var(Dev)],build:[str(\"b\")],precedence_order:{po})");
            for f in &flags {
                if f.long == "source" || f.long == "directory" || f.long == "schema-ron" || f.long == "schema" { continue; }
                // quick: bump/override flags only get the whole pool, the rest one value
                let bumpish = f.long.starts_with("bump") || ["core", "extra-core", "build", "major", "minor", "patch", "epoch", "post", "dev", "pre-release-label", "pre-release-num"].contains(&f.long.as_str());
                if !bumpish && (quick || oi % 7 != 0) { continue; }
                let vals: Vec<&String> = if f.takes_value { po_pool.iter().collect() } else { vec![&po_pool[0]] };
                for v in vals {
                    let mut a1 = a(&[sub, "--source", "stdin"]); a1.extend(flag_args(f, v)); jobs.push((a1, Some(doc.clone())));
                    let mut a2 = a(&[sub, "--source", "none", "--tag-version", "1.2.3-rc.1.post.2", "--schema-ron", &ron]); a2.extend(flag_args(f, v)); jobs.push((a2, None));
                }
                if f.optional_value { let mut a1 = a(&[sub, "--source", "stdin", &format!("--{}", f.long)]); a1.push("--output-format".into()); a1.push("zerv".into()); jobs.push((a1, Some(doc.clone()))); }
            }
        }
        // -C / --directory values (git source)
        for d in ["", "/nonexistent/zv", "/dev/null", "/", "é€", "a\nb", "."] { jobs.push((a(&[sub, "-C", d]), None)); jobs.push((a(&[sub, "--source", "git", "--directory", d, "--tag-version", "1.2.3"]), None)); }
        // malformed stdin documents
        for d in &bad_docs { for fmt in ["semver", "pep440", "zerv"] { jobs.push((a(&[sub, "--source", "stdin", "--output-format", fmt]), Some(d.clone()))); jobs.push((a(&[sub, "--source", "stdin", "--schema", "standard", "--output-format", fmt]), Some(d.clone()))); } }
    }
    // render / check on nasty version strings
    let versions: Vec<String> = ["1.2.3", "1.0.0-epoch.epoch.epoch", "1.0.0-post.post.post", "1.0.0-dev.x.dev", "1.0.0-rc.rc.1.rc", "1.0.0-alpha.alpha", "", "é", "4294967296.0", "1.0+K", "v", "1!1!1", "18446744073709551616.0.0", "1.0.0-99999999999999999999999999",
        "1.2.3-alpha.18446744073709551615.post.18446744073709551615.dev.18446744073709551615", "0.0.0-0.0.0.0.0.0.0.0", "1.0.0+0.00.000", "1.0.dev4294967295", "4294967295!4294967295.4294967295rc4294967295.post4294967295.dev4294967295+4294967295", "1.0.0-epoch", "1.0.0-post", "1.0.0-dev.dev.dev.dev",
        "1.0.0-epoch.1.epoch.2.epoch.3", "1.0.0-a.b.c.rc.1.x.post.2.y.dev.3.z.epoch.4", "١.٢.٣", "1.2.3\n", " 1.2.3 ", "1.2.3-", "-1.2.3", "--", "1.2.3+"]
        .iter().map(|s| s.to_string()).chain(["9".repeat(400), format!("1.0.0-{}", "a.".repeat(300) + "a")]).collect();
    for v in &versions { for f in ["auto", "semver", "pep440", "zerv", "bogus"] { for o in ["semver", "pep440", "zerv", "bogus"] {
        jobs.push((a(&["render", "-f", f, "--output-format", o, "--", v]), None));
    }}
        for t in &pool { jobs.push((a(&["render", "--output-template", t, "--", v]), None)); }
        jobs.push((a(&["render", "--output-prefix", "é€", "--", v]), None));
        for f in ["semver", "pep440", "bogus"] { jobs.push((a(&["check", "--format", f, "--", v]), None)); }
        jobs.push((a(&["check", "--", v]), None));
    }
    // template functions x argument pool
    let fun_args = ["value=bumped_branch", "value=1", "value=\"é€\"", "value=custom", "value=dirty", "length=0", "length=1", "length=21", "length=-1", "length=\"x\"", "length=18446744073709551615", "length=65535", "length=65536", "length=4294967296", "allow_leading_zero=true", "allow_leading_zero=false", "format=\"%Q\"", "format=\"%\"", "format=\"\"", "prefix=1", "prefix=\"\"", "preset=\"bogus\"", "separator=\"\"", "separator=\"ab\"", "max_length=0", "max_length=-1", "lowercase=1", "allow_leading_zero=\"x\"", "value=18446744073709551615", "value=-1", "value=1.5"];
    for fun in ["sanitize", "hash", "hash_int", "prefix", "prefix_if", "format_timestamp", "bogus_function"] {
        jobs.push((a(&["version", "--source", "stdin", "--output-template", &format!("{{{{ {fun}() }}}}")]), Some(valid_doc.clone())));
        for x in fun_args { 
            jobs.push((a(&["version", "--source", "stdin", "--output-template", &format!("{{{{ {fun}({x}) }}}}")]), Some(valid_doc.clone())));
            for y in fun_args { if x < y {
                jobs.push((a(&["version", "--source", "stdin", "--output-template", &format!("{{{{ {fun}({x}, {y}) }}}}")]), Some(valid_doc.clone())));
                // and with a value present, so that the pair of other arguments is actually reached
                if !x.starts_with("value=") && !y.starts_with("value=") { for val in ["value=bumped_branch", "value=1700000000"] { jobs.push((a(&["version", "--source", "stdin", "--output-template", &format!("{{{{ {fun}({val}, {x}, {y}) }}}}")]), Some(valid_doc.clone()))); } }
            } }
        }
    }
    // value sweep for the digest-slicing functions: 64 distinct values (about one digest in 16 has a leading zero nibble or
    // digit, i.e. is shorter than the nominal width) x lengths around every nominal width
    for i in 0..64 { for len in [0usize, 1, 15, 16, 17, 19, 20, 21, 64] {
        for call in [format!("hash(value='x{i}', length={len})"), format!("hash_int(value='x{i}', length={len})"), format!("hash_int(value='x{i}', length={len}, allow_leading_zero=true)"), format!("prefix(value='x{i}', length={len})")] {
            jobs.push((a(&["version", "--source", "stdin", "--output-template", &format!("{{{{ {call} }}}}")]), Some(valid_doc.clone())));
        }
    }}
    let s_a = jobs.par_iter().map(|(args, stdin)| { let mut st = Stats::default(); inproc(&ctx, args, stdin.as_deref(), &mut st); st }).reduce(Stats::default, Stats::merge);

    // (b) process slice: strided subset of (a) through the real binary, plain and with -v; stdout must be identical
    let stride = (jobs.len() / if quick { 700 } else { 6000 }).max(1);
    let slice: Vec<&(Vec<String>, Option<String>)> = jobs.iter().step_by(stride).filter(|(args, _)| !args.iter().any(|x| x.contains('\0'))).collect();
    let s_b = slice.par_iter().map(|(args, stdin)| {
        let mut st = Stats::default();
        let o1 = judge_proc(&ctx, args, stdin.as_deref(), &[], None, "", &mut st);
        let mut va = vec!["-v".to_string()]; va.extend(args.iter().cloned());
        let o2 = judge_proc(&ctx, &va, stdin.as_deref(), &[], None, "", &mut st);
        st.inc("verbose_pairs");
        if o1.stdout != o2.stdout || (o1.status == 0) != (o2.status == 0) { ctx.violation("verbose_changes_stdout", args.join(" "), json!({"kind":"proc","args":args,"stdin":stdin}), format!("plain exit {} stdout {:?}; -v exit {} stdout {:?}", o1.status, truncate(&o1.stdout_str(), 100), o2.status, truncate(&o2.stdout_str(), 100))); }
        // the documented logging variables: logs go to stderr whatever their level or syntax; stdout and status unchanged
        for (k, v) in [("RUST_LOG", "trace"), ("RUST_LOG", "zerv=debug,[{"), ("ZERV_FORCE_RUST_LOG_OFF", "1")] {
            let o3 = judge_proc(&ctx, args, stdin.as_deref(), &[(k, v)], None, &format!("[{k}={v}] "), &mut st);
            st.inc("log_env_runs");
            if o3.stdout != o1.stdout || o3.status != o1.status { ctx.violation("log_environment_changes_result", format!("[{k}={v}] {}", args.join(" ")), json!({"kind":"proc","args":args,"stdin":stdin,"env":[format!("{k}={v}")]}), format!("plain exit {} stdout {:?}; with {k}={v} exit {} stdout {:?}", o1.status, truncate(&o1.stdout_str(), 100), o3.status, truncate(&o3.stdout_str(), 100))); }
        }
        // in-process and process agree on success/failure
        if let Ok(r) = zv::run_cli(args, stdin.as_deref()) { if let Err(e) = zv::conforms(&Ok(r), &o1) { ctx.violation("binary_differs_from_inprocess", args.join(" "), json!({"kind":"proc","args":args,"stdin":stdin}), e); } }
        st
    }).reduce(Stats::default, Stats::merge);
    // help / version / llm-help / no arguments
    let mut s_h = Stats::default();
    for args in [a(&["--help"]), a(&["--version"]), a(&["version", "--help"]), a(&["flow", "--help"]), a(&["render", "--help"]), a(&["check", "--help"]), a(&["-h"]), a(&["-V"])] {
        let o = judge_proc(&ctx, &args, None, &[], None, "", &mut s_h);
        if o.status != 0 { ctx.violation("help_failed", args.join(" "), json!({"kind":"proc","args":args}), format!("exit {}", o.status)); }
    }
    for args in [a(&[]), a(&["bogus"]), a(&["version", "--bogus"]), a(&["--llm-help", "--bogus"])] { let _ = judge_proc(&ctx, &args, None, &[], None, "", &mut s_h); }
    {
        // --llm-help may spawn a pager: run with PAGER empty and a PATH that holds no pager
        let empty = gitx::scratch_root().join("emptybin");
        let _ = std::fs::create_dir_all(&empty);
        let o = judge_proc(&ctx, &a(&["--llm-help"]), None, &[("PAGER", ""), ("PATH", empty.to_str().unwrap())], None, "", &mut s_h);
        if o.status != 0 || !o.stdout_str().contains("zerv") { ctx.violation("llm_help_failed", "--llm-help".into(), json!({"kind":"proc"}), format!("exit {}", o.status)); }
    }

    // every environment variable zerv itself reads (config.rs: PAGER, RUST_LOG, ZERV_*) and the usual terminal variables, each
    // with blank, white-space-only, unusable and option-carrying values, under every help-like invocation (the only place
    // PAGER is consulted) and two ordinary ones: never a panic or a signal, whatever the value
    {
        let empty = gitx::scratch_root().join("emptybin");
        let _ = std::fs::create_dir_all(&empty);
        let long = "x".repeat(5000);
        let values: Vec<&str> = vec!["", " ", "\t", "  \t ", "nonexistent-pager", "cat", "cat -u", "/bin/false", "/bin/true", "less -FRX", "'", ";", "-", "--", "\u{a0}", "é", "0", "1", "true", "false", "TRUE", "off", "trace", "zerv=", "=", ",", "[", long.as_str()];
        let vars = ["PAGER", "RUST_LOG", "ZERV_FORCE_RUST_LOG_OFF", "ZERV_TEST_NATIVE_GIT", "ZERV_TEST_DOCKER", "MANPAGER", "LESS", "TERM", "COLUMNS", "LINES", "NO_COLOR", "CLICOLOR_FORCE", "SHELL", "LANG"];
        let argvs = [a(&["--llm-help"]), a(&["--help"]), a(&["-h"]), a(&["-V"]), a(&["help"]), a(&["help", "flow"]), a(&["version", "--help"]), a(&["--llm-help", "-v"]), a(&["version", "--source", "none", "--tag-version", "1.2.3"]), a(&["check", "1.2.3"])];
        let mut jobs: Vec<(&str, &str, &Vec<String>, bool)> = vec![];
        for k in vars { for v in &values { for av in &argvs { for nopath in [false, true] {
            if !nopath || (k == "PAGER" && av[0] == "--llm-help") { jobs.push((k, *v, av, nopath)); }
        }}}}
        let st = jobs.par_iter().map(|(k, v, av, nopath)| {
            let mut st = Stats::default();
            st.inc("process_runs"); st.inc("environment_value_runs");
            let mut env: Vec<(&str, &str)> = vec![(*k, *v)];
            if *nopath { env.push(("PATH", empty.to_str().unwrap())); }
            let o = zv::run_bin(av, None, &env, None);
            if o.status == 101 || o.status < 0 || o.stderr_str().contains("panicked at") {
                let site = o.stderr_str().lines().find(|l| l.contains("panicked at")).unwrap_or("").to_string();
                ctx.violation("process_panic_or_abort", format!("[{k}={:?}{}] {}", truncate(v, 40), if *nopath { " PATH=<empty dir>" } else { "" }, av.join(" ")), json!({"kind":"proc","args":av,"env":[format!("{k}={v}")]}), format!("exit {} {}", o.status, truncate(&site, 200)));
            }
            st
        }).reduce(Stats::default, Stats::merge);
        s_h = s_h.merge(st);
    }

    // (d) size-bounded inputs through the real binary only (a stack overflow would kill an in-process driver): nesting
    // depth / chain length n, iterated 8, 64, 512, 4096, 16384, for every recursive input language zerv accepts
    let s_d = {
        let sizes: &[usize] = if quick { &[8, 64, 512, 4096] } else { &[8, 64, 512, 4096, 16384, 60000] };
        let rep = |s: &str, n: usize| s.repeat(n);
        let mut deep: Vec<(String, Vec<String>, Option<Vec<u8>>)> = vec![];
        #[allow(unused_mut)]
        for &n in sizes {
            let t = |body: String| a(&["version", "--source", "none", "--tag-version", "1.2.3", "--output-template", &body]);
            deep.push((format!("template-paren n={n}"), t(format!("{{{{ {}1{} }}}}", rep("(", n), rep(")", n))), None));
            deep.push((format!("template-if n={n}"), t(format!("{}x{}", rep("{% if true %}", n.min(9000)), rep("{% endif %}", n.min(9000)))), None));
            deep.push((format!("template-for n={n}"), t(format!("{}x{}", rep("{% for i in range(end=1) %}", n.min(3000)), rep("{% endfor %}", n.min(3000)))), None));
            deep.push((format!("template-plus n={n}"), t(format!("{{{{ 1{} }}}}", rep(" + 1", n.min(30000)))), None));
            deep.push((format!("template-and n={n}"), t(format!("{{{{ true{} }}}}", rep(" and true", n.min(13000)))), None));
            // nested function calls: the running time grows ~80x per 4 levels (measured 0.03 s / 3.2 s / > 120 s at depth
            // 4 / 8 / 12 with the dev-profile binary), so depth is iterated 4, 8 and - thorough only - 12 under the horizon
            if let Some(d) = match n { 8 => Some(4), 64 => Some(8), 512 if !quick => Some(12), _ => None } {
                deep.push((format!("template-fn n={d}"), t(format!("{{{{ {}1{} }}}}", rep("hash(value=", d), rep(")", d))), None));
            }
            deep.push((format!("template-filter n={n}"), t(format!("{{{{ 1{} }}}}", rep(" | abs", n.min(20000)))), None));
            deep.push((format!("template-concat n={n}"), t(format!("{{{{ 1{} }}}}", rep(" ~ 1", n.min(30000)))), None));
            deep.push((format!("template-array n={n}"), t(format!("{{{{ {}{} }}}}", rep("[", n), rep("]", n))), None));
            deep.push((format!("template-dots n={n}"), t(format!("{{{{ custom{} }}}}", rep(".a", n))), None));
            deep.push((format!("template-not n={n}"), t(format!("{{{{ {}true }}}}", rep("not ", n.min(30000)))), None));
            deep.push((format!("custom-json-array n={n}"), a(&["version", "--source", "none", "--tag-version", "1.2.3", "--custom", &format!("{}{}", rep("[", n), rep("]", n))]), None));
            deep.push((format!("custom-json-object n={n}"), a(&["version", "--source", "none", "--tag-version", "1.2.3", "--custom", &format!("{}1{}", rep("{\"a\":", n.min(20000)), rep("}", n.min(20000)))]), None));
            deep.push((format!("schema-ron-brackets n={n}"), a(&["version", "--source", "none", "--tag-version", "1.2.3", "--schema-ron", &format!("(core:{})", rep("[", n))]), None));
            deep.push((format!("schema-ron-components n={n}"), a(&["version", "--source", "none", "--tag-version", "1.2.3", "--schema-ron", &format!("(core:[var(Major)],extra_core:[],build:[{}])", rep("str(\"x\"),", n.min(9000)))]), None));
            deep.push((format!("branch-rules-parens n={n}"), a(&["flow", "--source", "none", "--tag-version", "1.2.3", "--branch-rules", &format!("[(pattern:{}", rep("(", n))]), None));
            deep.push((format!("stdin-parens n={n}"), a(&["version", "--source", "stdin"]), Some(rep("(", n).into_bytes())));
            deep.push((format!("stdin-custom-arrays n={n}"), a(&["version", "--source", "stdin"]), Some(format!("(schema:(core:[var(Major)],extra_core:[],build:[]),vars:(major:Some(1),custom:{}{}))", rep("[", n), rep("]", n)).into_bytes())));
            deep.push((format!("stdin-components n={n}"), a(&["version", "--source", "stdin"]), Some(format!("(schema:(core:[var(Major)],extra_core:[],build:[{}]),vars:(major:Some(1)))", rep("str(\"x\"),", n)).into_bytes())));
            deep.push((format!("semver-identifiers n={n}"), a(&["render", &format!("1.0.0-{}a", rep("a.", n.min(2000)))]), None));
            deep.push((format!("pep440-release n={n}"), a(&["render", "-f", "pep440", &format!("{}1", rep("1.", n.min(2000)))]), None));
        }
        // versions with thousands of dot-separated parts (a section-size limit anywhere between the parser and the renderer
        // must be a diagnostic, never an `expect`): just above 2^12 and 10^4, thorough also 2^14 (the dev-profile binary is quadratic in the number of parts: 16385 parts take about 25 s of the 120 s horizon)
        for &n in if quick { &[4097usize, 10001][..] } else { &[4097usize, 10001, 16385][..] } {
            deep.push((format!("semver-many-prerelease-ids n={n}"), a(&["render", &format!("1.0.0-{}a", rep("a.", n - 1))]), None));
            deep.push((format!("semver-many-build-ids n={n}"), a(&["render", "--output-format", "pep440", &format!("1.0.0+{}a", rep("a.", n - 1))]), None));
            deep.push((format!("pep440-many-local-parts n={n}"), a(&["render", "-f", "pep440", &format!("1.0+{}a", rep("a.", n - 1))]), None));
            deep.push((format!("pep440-many-release-numbers n={n}"), a(&["render", "-f", "pep440", "--output-format", "pep440", &format!("{}1", rep("1.", n - 1))]), None));
            deep.push((format!("tag-version-many-build-ids n={n}"), a(&["version", "--source", "none", "--tag-version", &format!("1.0.0+{}a", rep("a.", n - 1))]), None));
        }
        for (name, bytes) in [("stdin-invalid-utf8", vec![0xffu8, 0xfe, b'(']), ("stdin-nul", b"(schema:(core:[var(Major)],extra_core:[],build:[]),vars:(major:Some(1)))\0".to_vec()), ("stdin-bom", b"\xef\xbb\xbf(schema:(core:[var(Major)],extra_core:[],build:[]),vars:(major:Some(1)))".to_vec()), ("stdin-crlf", b"(schema:(core:[var(Major)],extra_core:[],build:[]),\r\nvars:(major:Some(1)))\r\n".to_vec()), ("stdin-latin1", b"(schema:(core:[var(Major)],extra_core:[],build:[]),vars:(major:Some(1),bumped_branch:Some(\"\xe9\")))".to_vec())] {
            for sub in ["version", "flow"] { deep.push((format!("{name} {sub}"), a(&[sub, "--source", "stdin"]), Some(bytes.clone()))); }
        }
        // a single argument cannot exceed MAX_ARG_STRLEN (128 KiB) on Linux: larger cases cannot be given to any process
        deep.retain(|(_, args, _)| args.iter().all(|x| x.len() < 120_000));
        deep.par_iter().map(|(name, args, stdin)| {
            let mut st = Stats::default();
            st.inc("deep_input_runs"); st.inc("process_runs");
            let o = proc::run(&proc::Run { program: &proc::zerv_bin(), args: args.clone(), stdin: stdin.clone(), env: proc::base_env(), cwd: None, timeout: std::time::Duration::from_secs(120) }).unwrap_or_else(|e| machinery_error(&format!("cannot spawn zerv: {e}")));
            let key = format!("[deep-input shape={name}] {}", truncate(&args.join(" "), 100));
            let case = json!({"kind":"deep","shape":name});
            // explicit horizon: these inputs are at most 120 KB; not terminating within 120 s of CPU on one of them is
            // the property's "terminates" clause failing, not a machinery problem
            if o.timed_out { ctx.violation("no_termination_within_horizon", key, case, "zerv was still running after 120 s".into()); return st; }
            if o.status == 101 || o.status < 0 || o.stderr_str().contains("panicked at") || o.stderr_str().contains("overflowed its stack") {
                ctx.violation("process_panic_or_abort", key, case, format!("exit {} {}", o.status, truncate(o.stderr_str().trim(), 160)));
            } else if o.status == 0 {
                st.inc("process_ok");
                if o.stdout.is_empty() || !o.stdout.ends_with(b"\n") { ctx.violation("success_without_result_line", key, case, format!("stdout {:?}", truncate(&o.stdout_str(), 80))); }
            } else {
                st.inc("process_failed");
                if !o.stdout.is_empty() { ctx.violation("result_printed_on_failure", key.clone(), case.clone(), format!("exit {} with stdout {:?}", o.status, truncate(&o.stdout_str(), 80))); }
                if o.stderr.is_empty() { ctx.violation("failure_without_diagnostic", key, case, format!("exit {} with empty stderr", o.status)); }
            }
            st
        }).reduce(Stats::default, Stats::merge)
    };

    // (d2) the template engine's own vocabulary: every built-in filter, function and test of tera 1.20 applied to a pool of
    // hostile values and arguments (zero, negative, the integer limits, fractions, text, objects, arrays), through the real binary
    // with a 20 s horizon - a panic inside the engine, an abort on allocation or an endless loop is zerv's failure too
    let s_d2 = {
        let values = ["0", "-1", "99999999999999999", "9223372036854775807", "-9223372036854775808", "18446744073709551615", "1.5", "\"x\"", "\"\"", "bumped_branch", "custom", "[1, 2]", "[]", "true"];
        let filters0 = ["lower", "upper", "wordcount", "capitalize", "addslashes", "slugify", "title", "trim", "trim_start", "trim_end", "linebreaksbr", "spaceless", "indent", "striptags", "first", "last", "length", "reverse", "sort", "unique",
            "urlencode", "urlencode_strict", "pluralize", "round", "filesizeformat", "date", "escape", "escape_xml", "safe", "int", "float", "json_encode", "as_str", "abs", "join", "split", "nth", "slice", "truncate", "get", "replace", "default", "concat", "group_by", "filter", "map", "trim_start_matches", "trim_end_matches"];
        let args = ["0", "-1", "1", "64", "18446744073709551615", "99999999999999999", "\"x\"", "\"\""];
        let filters1 = ["truncate(length=A)", "nth(n=A)", "slice(start=A)", "slice(end=A)", "slice(start=A, end=0)", "round(precision=A)", "round(method=A)", "date(format=A)", "date(timezone=A)", "date(format=\"%Q\")", "int(base=A)", "int(default=A)", "split(pat=A)", "replace(from=A, to=\"y\")",
            "indent(prefix=A)", "join(sep=A)", "get(key=A)", "get(key=A, default=1)", "trim_start_matches(pat=A)", "trim_end_matches(pat=A)", "default(value=A)", "json_encode(pretty=A)", "group_by(attribute=A)", "filter(attribute=A, value=1)", "map(attribute=A)", "concat(with=A)", "pluralize(singular=A, plural=A)", "truncate(length=A, end=A)"];
        let functions = ["range(end=A)", "range(end=1, start=A)", "range(end=3, step_by=A)", "range(start=A, end=A)", "now()", "now(timestamp=true)", "now(utc=true)", "now(timestamp=A)", "get_random(end=A)", "get_random(start=A, end=1)", "get_random(start=A, end=A)",
            "get_env(name=A)", "get_env(name=\"ZV_UNSET\")", "get_env(name=\"ZV_UNSET\", default=A)", "throw(message=A)", "throw(message=\"stop\")"];
        let tests = ["defined", "undefined", "odd", "even", "string", "number", "iterable", "object", "divisibleby(0)", "divisibleby(-1)", "divisibleby(A)", "starting_with(A)", "ending_with(A)", "containing(A)", "matching(A)", "matching(\"(\")", "matching(\"(a*)*b\")"];
        let mut cases: Vec<String> = vec![];
        for v in values { for f in filters0 { cases.push(format!("{{{{ {v} | {f} }}}}")); } }
        for v in ["0", "99999999999999999", "\"x\"", "[1, 2]", "custom", "-1"] { for f in filters1 { for a in args { cases.push(format!("{{{{ {v} | {} }}}}", f.replace('A', a))); } } }
        for f in functions { for a in args { if f.starts_with("range(") && a.len() > 4 && !f.contains("step_by") { continue; } cases.push(format!("{{{{ {} }}}}", f.replace('A', a))); } }
        // (mid-sized range() ends are left out on purpose: they are a legitimate way to ask for gigabytes)
        for v in values { for t in tests { for a in ["0", "\"x\"", "-1"] { cases.push(format!("{{% if {v} is {} %}}y{{% endif %}}", t.replace('A', a))); } } }
        // the expression language itself: every binary arithmetic operator on every pair of boundary numbers (the engine computes in i64 / f64)
        let nums = ["0", "1", "-1", "2", "9223372036854775807", "-9223372036854775808", "1.5", "major", "-0.0"];
        for x in nums { for op in ["+", "-", "*", "/", "%"] { for y in nums { cases.push(format!("{{{{ {x} {op} {y} }}}}")); } } }
        cases.sort(); cases.dedup();
        cases.par_iter().map(|tpl| {
            let mut st = Stats::default();
            st.inc("template_builtin_runs"); st.inc("process_runs");
            let args = a(&["version", "--source", "none", "--tag-version", "1.2.3", "--bumped-branch", "feature/x", "--output-template", tpl]);
            let o = proc::run(&proc::Run { program: &proc::zerv_bin(), args: args.clone(), stdin: None, env: proc::base_env(), cwd: None, timeout: std::time::Duration::from_secs(20) }).unwrap_or_else(|e| machinery_error(&format!("cannot spawn zerv: {e}")));
            let key = format!("[template-builtin] {tpl}");
            let case = json!({"kind":"template-builtin","template":tpl});
            if o.timed_out { ctx.violation("no_termination_within_horizon", key, case, "zerv was still running after 20 s".into()); return st; }
            if o.status == 101 || o.status < 0 || o.stderr_str().contains("panicked at") || o.stderr_str().contains("overflowed its stack") || o.stderr_str().contains("memory allocation") {
                ctx.violation("process_panic_or_abort", key, case, format!("exit {} {}", o.status, truncate(o.stderr_str().trim(), 200)));
            } else if o.status == 0 {
                st.inc("process_ok");
                if !o.stdout.ends_with(b"\n") { ctx.violation("success_without_result_line", key, case, format!("stdout {:?}", truncate(&o.stdout_str(), 80))); }
            } else {
                st.inc("process_failed");
                if !o.stdout.is_empty() { ctx.violation("result_printed_on_failure", key.clone(), case.clone(), format!("exit {} with stdout {:?}", o.status, truncate(&o.stdout_str(), 80))); }
                if o.stderr.is_empty() { ctx.violation("failure_without_diagnostic", key, case, format!("exit {} with empty stderr", o.status)); }
            }
            st
        }).reduce(Stats::default, Stats::merge)
    };

    // (d3) the process boundary itself: arguments that are not UTF-8 (the operating system allows any bytes) and a stdout that
    // cannot take the result (full device, closed descriptor, closed pipe) - for results, help and version texts alike
    let s_d3 = {
        let zb = proc::zerv_bin().to_string_lossy().to_string();
        let mut scripts: Vec<(String, String)> = vec![];
        for (name, arg) in [("check", "check \"$(printf '\\377')\""), ("check-valid-prefix", "check \"1.0$(printf '\\377\\376')\""), ("tag-version", "version --source none --tag-version \"$(printf '1.2.3\\200')\""), ("bumped-branch", "version --source none --tag-version 1.2.3 --bumped-branch \"$(printf 'f\\351')\""),
            ("template", "version --source none --tag-version 1.2.3 --output-template \"$(printf '\\303')\""), ("subcommand", "\"$(printf '\\377')\""), ("directory", "version -C \"$(printf '/tmp/\\377')\""), ("render", "render \"$(printf '\\355\\240\\200')\"")] {
            scripts.push((format!("non-utf8-argument {name}"), format!("exec \"$0\" {arg}")));
        }
        for (name, cmd) in [("version", "version --source none --tag-version 1.2.3"), ("help", "--help"), ("sub-help", "version --help"), ("short-help", "-h"), ("version-flag", "--version"), ("llm-help", "--llm-help"), ("check", "check 1.2.3"), ("render", "render 1.2.3"), ("usage-error", "--bogus")] {
            scripts.push((format!("stdout-full {name}"), format!("exec \"$0\" {cmd} > /dev/full")));
            scripts.push((format!("stdout-closed {name}"), format!("exec \"$0\" {cmd} >&-")));
            scripts.push((format!("stdout-closed-pipe {name}"), format!("\"$0\" {cmd} 2>\"$1\" | true; cat \"$1\" >&2")));
            scripts.push((format!("stderr-full {name}"), format!("exec \"$0\" {cmd} 2> /dev/full")));
            scripts.push((format!("stderr-closed {name}"), format!("exec \"$0\" {cmd} 2>&-")));
        }
        let tmp = gitx::scratch_root().join("d3");
        let _ = std::fs::create_dir_all(&tmp);
        let st = scripts.par_iter().enumerate().map(|(i, (name, script))| {
            let mut st = Stats::default();
            st.inc("process_boundary_runs"); st.inc("process_runs");
            let errfile = tmp.join(format!("err{i}")).to_string_lossy().to_string();
            let o = proc::run(&proc::Run { program: std::path::Path::new("/bin/sh"), args: vec!["-c".into(), script.clone(), zb.clone(), errfile], stdin: None, env: proc::base_env(), cwd: None, timeout: std::time::Duration::from_secs(30) }).unwrap_or_else(|e| machinery_error(&format!("cannot spawn sh: {e}")));
            let key = format!("[process-boundary {name}]");
            let case = json!({"kind":"process-boundary","script":script});
            if o.timed_out { ctx.violation("no_termination_within_horizon", key, case, "still running after 30 s".into()); return st; }
            if o.status == 101 || o.status == 134 || o.stderr_str().contains("panicked at") { ctx.violation("process_panic_or_abort", key, case, format!("exit {} {}", o.status, truncate(o.stderr_str().trim(), 200))); return st; }
            // a result that could not be written is a failure: status 0 is only right when nothing had to be written to the broken stream
            // (--llm-help hands its text to a pager process: whether the pager could write it is not zerv's status)
            if name.starts_with("stdout-full") && o.status == 0 && !name.ends_with("usage-error") && !name.ends_with("llm-help") { ctx.violation("success_although_result_not_written", key.clone(), case.clone(), "exit 0 with stdout on a full device".into()); }
            if name.starts_with("non-utf8") && o.status == 0 && !o.stdout.is_empty() && !name.contains("bumped-branch") { ctx.violation("result_for_undecodable_argument", key, case, format!("stdout {:?}", truncate(&o.stdout_str(), 80))); }
            st
        }).reduce(Stats::default, Stats::merge);
        let _ = std::fs::remove_dir_all(&tmp);
        st
    };

    // (d4) the process context: zerv started in a directory that no longer exists, with descriptor 0 closed, or both - with an absolute
    // -C, without -C, for sub-commands that never look at the directory - plain, with -v and under RUST_LOG=debug / trace (log statements are
    // evaluated only then)
    let s_d4 = {
        let zb = proc::zerv_bin().to_string_lossy().to_string();
        let root = gitx::scratch_root().join("d4");
        let _ = std::fs::create_dir_all(&root);
        let shape = gitx::Shape { parents: vec![vec![], vec![0]], branches: [("main".to_string(), 1usize)].into_iter().collect(), cur: "main".into(), ops: vec!["commit".into()] };
        let mut repo = gitx::Repo::create(&root, "repo", &shape, &gitx::dates(2, gitx::DateMode::Increasing));
        repo.set_tags(&[gitx::Tag { name: "v1.2.3".into(), target: 0, annotated: false }]);
        repo.set_head(&gitx::Head::Branch("main".into()));
        let dir = repo.dir.to_string_lossy().to_string();
        let cmds: Vec<(String, bool)> = vec![(format!("version -C {dir}"), true), (format!("flow -C {dir}"), true), (format!("version -C {dir} --source none --tag-version 1.2.3"), true), (format!("version -C {dir} --output-format zerv"), true),
            ("version --source none --tag-version 1.2.3".to_string(), false), ("version".to_string(), false), ("flow".to_string(), false), ("check 1.2.3".to_string(), true), ("render 1.2.3 --output-format pep440".to_string(), true), ("--version".to_string(), true)];
        let contexts = [("start-directory-removed", "mkdir -p \"$1\" && cd \"$1\" && rmdir \"$1\" && exec \"$0\" CMD </dev/null"), ("stdin-closed", "exec \"$0\" CMD <&-"), ("start-directory-removed+stdin-closed", "mkdir -p \"$1\" && cd \"$1\" && rmdir \"$1\" && exec \"$0\" CMD <&-")];
        let verb: [(&str, &str, Option<(&str, &str)>); 4] = [("plain", "", None), ("-v", " -v", None), ("RUST_LOG=debug", "", Some(("RUST_LOG", "debug"))), ("RUST_LOG=trace", "", Some(("RUST_LOG", "trace")))];
        let work: Vec<(usize, usize, usize)> = (0..cmds.len()).flat_map(|c| (0..contexts.len()).flat_map(move |x| (0..verb.len()).map(move |v| (c, x, v)))).collect();
        let st = work.par_iter().enumerate().map(|(i, &(c, x, v))| {
            let mut st = Stats::default();
            st.inc("process_context_runs"); st.inc("process_runs");
            let (cmd, must_succeed) = &cmds[c];
            let full = if cmd.starts_with("--") { cmd.clone() } else { format!("{cmd}{}", verb[v].1) };
            let script = contexts[x].1.replace("CMD", &full);
            let gone = root.join(format!("gone{i}")).to_string_lossy().to_string();
            let mut env = gitx::git_env();
            for k in ["LD_PRELOAD", "ZERV_VERIF_NOW"] { if let Ok(val) = std::env::var(k) { env.push((k.into(), val)); } }
            if let Some((k, val)) = verb[v].2 { env.push((k.into(), val.into())); }
            let o = proc::run(&proc::Run { program: std::path::Path::new("/bin/sh"), args: vec!["-c".into(), script.clone(), zb.clone(), gone], stdin: None, env, cwd: Some(std::path::Path::new("/")), timeout: std::time::Duration::from_secs(30) }).unwrap_or_else(|e| machinery_error(&format!("cannot spawn sh: {e}")));
            let key = format!("[process-context {} | {} | {}]", contexts[x].0, cmd.replace(&dir, "<repo>"), verb[v].0);
            let case = json!({"kind":"process-context","script":script,"verbosity":verb[v].0});
            if o.timed_out { ctx.violation("no_termination_within_horizon", key, case, "still running after 30 s".into()); return st; }
            if o.status == 101 || o.status < 0 || o.status == 134 || o.stderr_str().contains("panicked at") { ctx.violation("process_panic_or_abort", key, case, format!("exit {} {}", o.status, truncate(o.stderr_str().trim(), 200))); return st; }
            if o.status != 0 && !o.stdout.is_empty() { ctx.violation("result_printed_on_failure", key.clone(), case.clone(), format!("exit {} stdout {:?}", o.status, truncate(&o.stdout_str(), 80))); }
            if o.status != 0 && o.stderr.is_empty() { ctx.violation("failure_without_diagnostic", key.clone(), case.clone(), format!("exit {} and nothing on stderr", o.status)); }
            if o.status == 0 && o.stdout_str().trim().is_empty() { ctx.violation("success_without_result_line", key.clone(), case.clone(), "exit 0 and nothing on stdout".into()); }
            if o.status == 0 && !cmd.contains("zerv") && !cmd.starts_with("--") && !cmd.starts_with("check") && o.stdout_str().lines().count() != 1 { ctx.violation("stdout_not_only_the_result", key.clone(), case.clone(), format!("stdout {:?}", truncate(&o.stdout_str(), 120))); }
            // the directory zerv was started in is not an input when -C is absolute or the sub-command has no directory
            if *must_succeed && o.status != 0 { st.inc("process_context_refused"); }
            st
        }).reduce(Stats::default, Stats::merge);
        repo.remove();
        let _ = std::fs::remove_dir_all(&root);
        st
    };

    // (e) hostile repository states: long and non-ASCII reference names (git's answers then exceed any fixed-size buffer or
    // preview and contain multi-byte characters at every byte offset), many tags on one commit; plain, -v and RUST_LOG=trace
    let s_e = {
        let root = gitx::scratch_root().join("states");
        let _ = std::fs::create_dir_all(&root);
        let mut names: Vec<String> = vec![];
        for unit in ["é", "€", "🙂", "a"] { for pad in ["", "x", "xx", "xxx"] { for n in [40usize, 70, 110] {
            let name = format!("{pad}{}", unit.repeat(n));
            if name.len() <= 240 { names.push(name); }
        }}}
        names.push(format!("feature/{}/{}", "é".repeat(60), "ü".repeat(50)));
        let st = names.par_iter().enumerate().map(|(i, name)| {
            let mut st = Stats::default();
            let shape = Shape { parents: vec![vec![], vec![0]], branches: [("main".to_string(), 0), (name.clone(), 1)].into_iter().collect(), cur: name.clone(), ops: vec![] };
            let mut repo = Repo::create(&root, &format!("n{i}"), &shape, &gitx::dates(2, DateMode::Increasing));
            // tags: one plain version tag, plus (every other scenario) many tags with long non-ASCII names on the same commit
            let mut tags = vec![Tag { name: "v1.2.3".into(), target: 0, annotated: false }];
            if i % 2 == 0 { for k in 0..40 { tags.push(Tag { name: format!("rel-{k}-{}", "ß".repeat(20 + k)), target: 0, annotated: k % 3 == 0 }); } }
            repo.set_tags(&tags);
            repo.set_head(&Head::Branch(name.clone()));
            let dir = repo.dir.to_string_lossy().to_string();
            for sub in ["version", "flow"] {
                let args = a(&[sub, "-C", &dir]);
                let label = format!("[repository state: branch of {} bytes ({} chars), {} tags] ", name.len(), name.chars().count(), tags.len());
                let o1 = judge_proc(&ctx, &args, None, &[], None, &label, &mut st);
                for (extra, env) in [(vec!["-v"], vec![]), (vec![], vec![("RUST_LOG", "trace")]), (vec!["--verbose"], vec![("RUST_LOG", "debug")])] {
                    let mut va: Vec<String> = extra.iter().map(|s| s.to_string()).collect(); va.extend(args.iter().cloned());
                    let o2 = judge_proc(&ctx, &va, None, &env, None, &format!("{label}{env:?} "), &mut st);
                    st.inc("repository_state_runs");
                    if o1.stdout != o2.stdout || o1.status != o2.status { ctx.violation("verbose_changes_stdout", format!("{label}{} {env:?}", va.join(" ")), json!({"kind":"repo-state","branch":name}), format!("plain exit {} stdout {:?}; verbose exit {} stdout {:?}", o1.status, truncate(&o1.stdout_str(), 80), o2.status, truncate(&o2.stdout_str(), 80))); }
                }
                if o1.status != 0 { ctx.violation("valid_repository_rejected", format!("{label}{}", args.join(" ")), json!({"kind":"repo-state","branch":name}), truncate(&o1.stderr_str(), 200)); }
            }
            repo.remove();
            st
        }).reduce(Stats::default, Stats::merge);
        let _ = std::fs::remove_dir_all(&root);
        st
    };

    // (c) git faults
    let s_c = git_faults(&ctx, quick);
    let _ = std::fs::remove_dir_all(gitx::scratch_root());

    let all = s_a.merge(s_b).merge(s_h).merge(s_c).merge(s_d).merge(s_d2).merge(s_d3).merge(s_d4).merge(s_e);
    let mut cov = Coverage::default();
    cov.evaluations = all.get("inprocess_runs") + all.get("process_runs");
    cov.states = jobs.len() as u64 + all.get("fault_plans");
    cov.transitions = cov.evaluations;
    cov.traces_validated = cov.evaluations;
    cov.distinct_nontrivial = all.get("zerv_error") + all.get("usage_error") + all.get("process_failed") + all.get("fault_plans");
    cov.rule = format!("(a) flags read from Cli::command() at run time; for version and flow in 4 source contexts every single flag x a {}-value adversarial pool, every pair of flags x a {}-value pool, every word of each flag's own help text (its enumerated values among them) as that flag's value in 8 spellings (as written, lower, upper, title and alternating case, two-letter abbreviation, leading / trailing blank); 17 template-valued arguments whose rendered text contains '=', '~', '-', ',', blanks, nothing or a number above u64, for every flag in two contexts; malformed stdin documents; 133 custom precedence orders (every single, every ordered pair, every all-but-one, reversed) on stdin and via --schema-ron x every bump/override flag x a 5-value pool; render/check on {} nasty version strings x formats x templates; every template function x argument pool singles, pairs and (value, pair) triples: {} in-process runs under catch_unwind; (b) a strided slice of those through the real binary plain, with -v and under RUST_LOG=trace / a malformed RUST_LOG / ZERV_FORCE_RUST_LOG_OFF (stdout and status identical, exit/stream protocol), help/version/llm-help; (c) git faults: for each of 7 repository scenarios (incl. a shallow repository) x [version, flow] the shim records the N git calls of a fault-free run, then every k<=N x 17 fault modes (6 failure modes: exit 1, exit 128, garbage, empty, SIGKILL, silent exit 1; 11 hostile-content modes with status 0: negative / 20-digit / i64::MAX / 2^32 / zero numbers, blank, two hash lines, non-UTF-8 tag names, a 200 KB line, a tag list, stderr noise) (deviation 1){}, plus git missing / -C to a missing path / file / non-repository; (d) through the binary only: 21 recursive input shapes (template parentheses / if / for / + / and / function / filter / ~ / array / path / not nesting or chains, custom JSON, --schema-ron, --branch-rules, stdin documents, long SemVer / PEP 440 strings) at sizes 8, 64, 512, 4096 (thorough also 16384, 60000) and stdin byte contents (invalid UTF-8, NUL, BOM, CRLF, Latin-1): zerv must terminate without abort; (e) 49 repositories whose branch name is 40-240 bytes of 1/2/3/4-byte characters at every alignment (half of them with 40 long non-ASCII tags on the tagged commit) x version/flow x plain / -v / RUST_LOG=trace / --verbose+RUST_LOG=debug. non-trivial = runs that end in an error path plus fault plans", pool.len(), spool.len(), versions.len(), jobs.len(), if quick { "" } else { " and every pair of fault points in 2 modes (deviation 2)" });
    cov.exhaustive = true;
    cov.samples = vec![json!(jobs[jobs.len() / 2].0), json!(jobs[17].0), json!({"scenario":"ahead+dirty","command":"flow","fault_at":7,"mode":"garbage"})];
    cov.set("clause_counts", all.to_json());
    cov.assumptions = vec!["faults are injected at git process granularity (exit status / output), not at syscall level; stdout/stderr are never closed under zerv".into(), "value pools are adversarial but finite".into()];
    finish(&ctx, cov);
}

fn git_faults(ctx: &Ctx, quick: bool) -> Stats {
    let root = gitx::scratch_root();
    let _ = std::fs::create_dir_all(&root);
    let shim_dir = PathBuf::from(format!("{}/build/shimbin", verif_root()));
    if !shim_dir.join("git").exists() { machinery_error("git shim missing: run make -C shims"); }
    let real_git = which_git();
    let linear = Shape { parents: vec![vec![], vec![0], vec![1]], branches: [("main".to_string(), 2)].into_iter().collect(), cur: "main".into(), ops: vec![] };
    // scenarios
    let mut scenarios: Vec<(&str, PathBuf)> = vec![];
    let mk = |name: &str, tags: Vec<Tag>, head: Head, wt: WorkTree| -> PathBuf {
        let mut r = Repo::create(&root, name, &linear, &gitx::dates(3, DateMode::Increasing));
        r.set_tags(&tags); r.set_head(&head); r.set_worktree(wt, "f0");
        r.dir.clone()
    };
    scenarios.push(("tagged-clean", mk("f_tagged", vec![Tag { name: "v1.2.3".into(), target: 2, annotated: false }], Head::Branch("main".into()), WorkTree::Clean)));
    scenarios.push(("ahead-dirty", mk("f_ahead", vec![Tag { name: "v1.2.3".into(), target: 0, annotated: true }], Head::Branch("main".into()), WorkTree::Untracked)));
    scenarios.push(("no-tags", mk("f_notags", vec![], Head::Branch("main".into()), WorkTree::Clean)));
    scenarios.push(("detached", mk("f_detached", vec![Tag { name: "1.0.0rc1".into(), target: 0, annotated: false }], Head::Detached(1), WorkTree::Clean)));
    scenarios.push(("several-tags", mk("f_several", vec![Tag { name: "v1.0.0".into(), target: 1, annotated: false }, Tag { name: "v1.1.0".into(), target: 1, annotated: true }, Tag { name: "nonversion".into(), target: 2, annotated: false }, Tag { name: "v0.9.0".into(), target: 0, annotated: false }], Head::Branch("main".into()), WorkTree::Clean)));
    { // shallow repository: the boundary lies between the root and the tag, HEAD is ahead of the tag
        let d = mk("f_shallow", vec![Tag { name: "v1.2.3".into(), target: 1, annotated: false }], Head::Branch("main".into()), WorkTree::Clean);
        let sha = gitx::git(&d, &["rev-parse", "HEAD~1"], None);
        std::fs::write(d.join(".git/shallow"), format!("{}\n", sha.trim())).unwrap();
        scenarios.push(("shallow-ahead", d)); }
    { let d = root.join("f_nocommits"); let _ = std::fs::create_dir_all(&d); gitx::git(&d, &["init", "-q", "-b", "main"], None); scenarios.push(("no-commits", d)); }
    let path = format!("{}:/usr/local/bin:/usr/bin:/bin", shim_dir.display());
    let modes = ["exit1", "exit128", "garbage", "empty", "kill", "silent1", "neg", "huge", "i64max", "u32over", "zero", "blank", "twolines", "nonutf8name", "longline", "tagish", "stderr0"];
    let mut plans: Vec<(usize, &str, Vec<String>, Option<u32>, Option<u32>, &str, Vec<u8>)> = vec![];
    let mut st0 = Stats::default();
    let mut call_counts = vec![];
    for (si, (name, dir)) in scenarios.iter().enumerate() {
        for sub in ["version", "flow"] {
            let args = a(&[sub, "-C", dir.to_str().unwrap()]);
            // fault-free run through the shim: record N
            let counter = root.join(format!("cnt_{si}_{sub}"));
            let _ = std::fs::remove_file(&counter);
            let o = zv::run_bin(&args, None, &[("PATH", &path), ("ZV_REAL_GIT", &real_git), ("ZV_SHIM_COUNTER", counter.to_str().unwrap())], None);
            let n: u32 = std::fs::read_to_string(&counter).ok().and_then(|s| s.trim().parse().ok()).unwrap_or(0);
            if n == 0 { machinery_error(&format!("shim saw no git call for {name}/{sub}: {}", o.stderr_str())); }
            call_counts.push(json!({"scenario":name,"command":sub,"git_calls":n,"exit":o.status}));
            st0.inc("fault_free_runs");
            // compare with the same run without the shim (the seam must be transparent)
            let plain = zv::run_bin(&args, None, &[], None);
            if plain.stdout != o.stdout || plain.status != o.status { machinery_error(&format!("git shim is not transparent for {name}/{sub}")); }
            // only the requested result on stdout: the default rendering is exactly one line
            if plain.status == 0 && plain.stdout_str().matches('\n').count() != 1 { ctx.violation("success_with_extra_stdout_lines", format!("[scenario {name}] {sub}"), json!({"kind":"proc","scenario":name}), format!("stdout {:?}", truncate(&plain.stdout_str(), 200))); }
            for k in 1..=n { for m in modes { plans.push((si, sub, args.clone(), Some(k), None, m, plain.stdout.clone())); } }
            if !quick { for k in 1..=n { for j in (k + 1)..=n { for m in ["exit1", "garbage"] { plans.push((si, sub, args.clone(), Some(k), Some(j), m, plain.stdout.clone())); } } } }
            // the same fault points observed through the lossless object (tag hash / tag time / branch are not all in the default rendering)
            if sub == "version" {
                let zargs = a(&[sub, "-C", dir.to_str().unwrap(), "--output-format", "zerv"]);
                let zplain = zv::run_bin(&zargs, None, &[], None);
                for k in 1..=n { for m in ["exit1", "kill"] { plans.push((si, sub, zargs.clone(), Some(k), None, m, zplain.stdout.clone())); } }
            }
        }
    }
    let st = plans.par_iter().enumerate().map(|(pi, (si, sub, args, k, j, mode, fault_free))| {
        let mut st = Stats::default();
        st.inc("fault_plans");
        let counter = root.join(format!("pc_{pi}"));
        let ks = k.unwrap().to_string();
        let js = j.map(|x| x.to_string());
        let mut env: Vec<(&str, &str)> = vec![("PATH", &path), ("ZV_REAL_GIT", &real_git), ("ZV_SHIM_COUNTER", counter.to_str().unwrap()), ("ZV_SHIM_FAULT_AT", &ks), ("ZV_SHIM_MODE", mode)];
        if let Some(js) = &js { env.push(("ZV_SHIM_FAULT_AT2", js)); }
        let label = format!("[git fault: scenario {} call {}{} mode {mode}] ", scenarios[*si].0, ks, js.as_ref().map(|x| format!("+{x}")).unwrap_or_default());
        let _ = sub;
        let o = judge_proc(ctx, args, None, &env, None, &label, &mut st);
        if o.status == 0 {
            // a swallowed fault must still yield a well-formed version
            let line = o.stdout_str();
            let zerv_fmt = args.iter().any(|x| x == "zerv");
            // a git sub-command that *fails* (non-zero status / killed) may make zerv fail, but a success must still be
            // the requested result, i.e. what the fault-free run prints; a git that lies with status 0 is not judged this way
            if matches!(*mode, "exit1" | "exit128" | "kill" | "silent1") {
                st.inc("failing_git_but_zerv_succeeded");
                if o.stdout != *fault_free { ctx.violation("result_differs_under_swallowed_git_failure", format!("{label}{}", args.join(" ")), json!({"kind":"fault","scenario":scenarios[*si].0,"args":args,"call":ks,"call2":js,"mode":mode}), format!("fault-free stdout {:?}, with the failing git call {:?}", truncate(&String::from_utf8_lossy(fault_free), 160), truncate(&line, 160))); }
            }
            if !zerv_fmt && zvharness::refmodel::malformed("semver", line.trim_end_matches('\n')).is_some() { ctx.violation("malformed_result_under_git_fault", format!("{label}{}", args.join(" ")), json!({"kind":"fault"}), format!("stdout {:?}", truncate(&line, 100))); }
        }
        let _ = std::fs::remove_file(&counter);
        st
    }).reduce(Stats::default, Stats::merge);
    // whole-run faults
    let mut sw = Stats::default();
    let empty = root.join("emptybin2"); let _ = std::fs::create_dir_all(&empty);
    let notrepo = root.join("notrepo"); let _ = std::fs::create_dir_all(&notrepo);
    let file = root.join("afile"); let _ = std::fs::write(&file, "x");
    for sub in ["version", "flow"] {
        judge_proc(ctx, &a(&[sub, "-C", scenarios[0].1.to_str().unwrap()]), None, &[("PATH", empty.to_str().unwrap())], None, "[git not on PATH] ", &mut sw);
        judge_proc(ctx, &a(&[sub, "-C", "/nonexistent/zv"]), None, &[], None, "[-C missing] ", &mut sw);
        judge_proc(ctx, &a(&[sub, "-C", file.to_str().unwrap()]), None, &[], None, "[-C is a file] ", &mut sw);
        judge_proc(ctx, &a(&[sub, "-C", notrepo.to_str().unwrap()]), None, &[], None, "[-C not a repository] ", &mut sw);
        judge_proc(ctx, &a(&[sub]), None, &[], Some(&notrepo), "[cwd not a repository] ", &mut sw);
        judge_proc(ctx, &a(&[sub, "-C", ""]), None, &[], None, "[-C empty] ", &mut sw);
        sw.add("fault_plans", 6);
    }
    let mut out = st.merge(st0).merge(sw);
    out.add("git_call_counts_recorded", call_counts.len() as u64);
    out
}

fn which_git() -> String {
    for p in ["/usr/bin/git", "/usr/local/bin/git", "/bin/git"] { if Path::new(p).exists() { return p.to_string(); } }
    machinery_error("real git not found")
}
