//! C04 — flow derives pre-release, post and dev parts from the documented branch rules.
use std::str::FromStr;

use serde_json::json;
use zerv::version::Zerv;
use zvharness::refmodel::flow::{self, Expect, FlowInput, Num, Rule};
use zvharness::refmodel::ren::RVars;
use zvharness::zv::{self, Res};
use zvharness::*;

fn a(v: &[&str]) -> Vec<String> { v.iter().map(|s| s.to_string()).collect() }

fn rule_sets() -> Vec<(&'static str, Vec<Rule>)> {
    vec![
        ("default", flow::default_rules()),
        ("staging+qa", vec![Rule { pattern: "staging".into(), label: "beta", number: Some(2), mode: "commit" }, Rule { pattern: "qa/*".into(), label: "rc", number: None, mode: "tag" }]),
        ("star-first", vec![Rule { pattern: "*".into(), label: "alpha", number: None, mode: "commit" }, Rule { pattern: "develop".into(), label: "beta", number: Some(1), mode: "commit" }]),
        ("a-shadows-ab", vec![Rule { pattern: "a/*".into(), label: "beta", number: None, mode: "commit" }, Rule { pattern: "a/b/*".into(), label: "rc", number: None, mode: "tag" }]),
        // rule prefixes that themselves contain an all-digit segment: the number is looked for *after* the prefix
        ("digit-prefixes", vec![Rule { pattern: "2024/*".into(), label: "rc", number: None, mode: "tag" }, Rule { pattern: "team/7/*".into(), label: "beta", number: None, mode: "commit" }, Rule { pattern: "99".into(), label: "alpha", number: Some(4), mode: "commit" }]),
        // a wildcard rule whose directory part has two segments ahead of the broader rules it refines
        ("nested-first", vec![Rule { pattern: "release/1/*".into(), label: "beta", number: None, mode: "commit" }, Rule { pattern: "release/*".into(), label: "rc", number: None, mode: "tag" }, Rule { pattern: "*".into(), label: "alpha", number: None, mode: "tag" }]),
    ]
}
const N_BASE_SETS: usize = 6;
const MANY_COUNTS: [usize; 12] = [4, 8, 9, 16, 17, 32, 33, 64, 65, 128, 129, 300];

/// long rule lists: `n` rules none of which matches the probe names except those planted at a chosen position. Three plantings
/// per length: the deciding rules (exact `develop`, `release/*`, `*`, in that order) at the very end; the same at the front
/// followed by rules that contradict them (the first match wins however far away the contradiction is); and spread out
/// (first, middle, last). Fillers are exact names and wildcard directories that share prefixes with the probes.
fn many_rule_sets() -> Vec<(&'static str, Vec<Rule>)> {
    let filler = |k: usize| -> Rule {
        match k % 4 {
            0 => Rule { pattern: format!("team-{k}/*"), label: "beta", number: None, mode: "commit" },
            1 => Rule { pattern: format!("develop-{k}"), label: "rc", number: Some(k as u32), mode: "tag" },
            2 => Rule { pattern: format!("release-{k}/*"), label: "alpha", number: None, mode: "tag" },
            _ => Rule { pattern: format!("releas/{k}/*"), label: "beta", number: None, mode: "commit" },
        }
    };
    let deciding = || vec![Rule { pattern: "develop".into(), label: "rc", number: Some(9), mode: "tag" }, Rule { pattern: "release/*".into(), label: "beta", number: None, mode: "commit" }, Rule { pattern: "*".into(), label: "alpha", number: None, mode: "tag" }];
    let contra = || vec![Rule { pattern: "develop".into(), label: "alpha", number: Some(1), mode: "commit" }, Rule { pattern: "release/*".into(), label: "rc", number: None, mode: "tag" }, Rule { pattern: "*".into(), label: "beta", number: None, mode: "commit" }];
    let mut v: Vec<(&'static str, Vec<Rule>)> = vec![];
    for &n in &MANY_COUNTS {
        let fill: Vec<Rule> = (0..n.saturating_sub(3)).map(filler).collect();
        let mut end = fill.clone(); end.extend(deciding());
        let mut front = deciding(); front.extend(fill.clone()); front.extend(contra());
        let d = deciding(); let mut spread = vec![d[0].clone()]; spread.extend(fill[..fill.len() / 2].iter().cloned()); spread.push(d[1].clone()); spread.extend(fill[fill.len() / 2..].iter().cloned()); spread.push(d[2].clone());
        v.push((Box::leak(format!("many-{n}-end").into_boxed_str()), end));
        v.push((Box::leak(format!("many-{n}-front").into_boxed_str()), front));
        v.push((Box::leak(format!("many-{n}-spread").into_boxed_str()), spread));
    }
    v
}
const MANY_PROBES: [&str; 12] = ["develop", "release/3", "release/x", "main", "feature/12/y", "develop-5", "team-4/8", "release-6/2", "releas/7/11", "releas/8/11", "team-4", "release"];

/// branch names of every length 1..=300 in three shapes (plain, under `release/`, a digit segment at the far end): the branch
/// id must be R-SIP of the *whole* name and rule / number extraction must not depend on the length
static LEN_BRANCHES: std::sync::OnceLock<Vec<String>> = std::sync::OnceLock::new();
fn len_branches() -> &'static Vec<String> { LEN_BRANCHES.get_or_init(|| (1..=300usize).flat_map(|n| { let body: String = (0..n).map(|i| (b'a' + (i % 26) as u8) as char).collect(); [body.clone(), format!("release/{body}"), format!("feature/{body}/77")] }).collect()) }

// incl. tags that carry a post / dev / epoch part without a pre-release
const TAGS: [&str; 9] = ["1.2.3", "0.0.0", "1.2.3-rc.1", "1.2.3-alpha.5.post.2", "1.2.3.post3", "2!1.2.3", "1.2.3-post.4", "1.2.3-epoch.2.post.4.dev.9", "1.2.3-dev.9"];
const BASE_BRANCHES: [Option<&str>; 49] = [None, Some("main"), Some("develop"), Some("developx"), Some("release"), Some("release/1"), Some("release/1/x"), Some("release/x"),
    Some("release/x/7"), Some("release/007"), Some("releasex"), Some("release1"), Some("releases/2"), Some("feature/7/foo"), Some("99"), Some("a/b/10"), Some("a/3"),
    Some("feature/4294967296"), Some("fé"), Some("staging"), Some("qa/5"), Some("qa/x"), Some("qa"),
    Some("feature/+5/login"), Some("release/+7"), Some("a/-3"), Some("feature/99999999999/7"),
    // white space, non-ASCII digit, case, empty / leading segments, zero, an exact-rule name used as a prefix
    Some("release/1 "), Some("release/ 1"), Some("release/٣"), Some("release/1_2"), Some("RELEASE/1"), Some("release//5"), Some("/release/1"), Some("release/0"),
    Some("release/00"), Some("develop/3"), Some("release/1/2"), Some("release/x/"),
    Some("2024/rel/3"), Some("2024/topic"), Some("team/7/fix/12"), Some("team/7/x"),
    // a segment of numeric characters that are not ASCII digits (Arabic-Indic, full-width, superscript), alone or mixed with
    // ASCII digits, before a real number segment: only an all-ASCII-digit segment is "numeric"
    Some("release/٣/4"), Some("release/１２/7"), Some("qa/²/5"), Some("release/1٣/6"), Some("feature/٣x/8"), Some("release/½/9")];

/// deep names: the first all-digit segment sits 1 .. 10 segments behind the rule prefix, last or followed by another segment
/// (explored with a reduced flag product: one commit ahead, no override flags)
const DEEP_BRANCHES: [&str; 40] = ["feature/42", "feature/42/tail-fix", "feature/s1/42", "feature/s1/42/tail-fix", "feature/s1/s2/42", "feature/s1/s2/42/tail-fix", "feature/s1/s2/s3/42", "feature/s1/s2/s3/42/tail-fix", "feature/s1/s2/s3/s4/42", "feature/s1/s2/s3/s4/42/tail-fix", "feature/s1/s2/s3/s4/s5/42", "feature/s1/s2/s3/s4/s5/42/tail-fix", "feature/s1/s2/s3/s4/s5/s6/42", "feature/s1/s2/s3/s4/s5/s6/42/tail-fix", "feature/s1/s2/s3/s4/s5/s6/s7/42", "feature/s1/s2/s3/s4/s5/s6/s7/42/tail-fix", "feature/s1/s2/s3/s4/s5/s6/s7/s8/42", "feature/s1/s2/s3/s4/s5/s6/s7/s8/42/tail-fix", "feature/s1/s2/s3/s4/s5/s6/s7/s8/s9/42", "feature/s1/s2/s3/s4/s5/s6/s7/s8/s9/42/tail-fix", "release/42", "release/42/tail-fix", "release/s1/42", "release/s1/42/tail-fix", "release/s1/s2/42", "release/s1/s2/42/tail-fix", "release/s1/s2/s3/42", "release/s1/s2/s3/42/tail-fix", "release/s1/s2/s3/s4/42", "release/s1/s2/s3/s4/42/tail-fix", "release/s1/s2/s3/s4/s5/42", "release/s1/s2/s3/s4/s5/42/tail-fix", "release/s1/s2/s3/s4/s5/s6/42", "release/s1/s2/s3/s4/s5/s6/42/tail-fix", "release/s1/s2/s3/s4/s5/s6/s7/42", "release/s1/s2/s3/s4/s5/s6/s7/42/tail-fix", "release/s1/s2/s3/s4/s5/s6/s7/s8/42", "release/s1/s2/s3/s4/s5/s6/s7/s8/42/tail-fix", "release/s1/s2/s3/s4/s5/s6/s7/s8/s9/42", "release/s1/s2/s3/s4/s5/s6/s7/s8/s9/42/tail-fix"];
/// names that spell a branch the way refs, remotes and CI variables do: only `*` (or a rule written for that spelling) matches them
/// (explored with the reduced flag product of the deep names)
const REF_BRANCHES: [&str; 30] = ["refs/heads/develop", "refs/heads/release/3", "refs/heads/main", "refs/heads/feature/7/x", "refs/remotes/origin/develop", "refs/remotes/origin/release/3", "origin/develop", "origin/release/3", "origin/main",
    "heads/develop", "heads/release/3", "remotes/origin/release/3", "refs/tags/release/3", "refs/pull/12/head", "refs/pull/12/merge", "refs/merge-requests/3/head", "pull/12/head", "refs/heads/", "refs/heads", "refs/develop", "refs/release/3",
    "upstream/release/3", "HEAD", "(HEAD detached at 1a2b3c4)", "(no branch)", "heads/release/x/7", "refs/heads/qa/5", "refs/heads/staging", "refs/heads/2024/rel/3", "refs/heads/a/b/10"];
const N_BRANCHES: usize = BASE_BRANCHES.len() + DEEP_BRANCHES.len() + REF_BRANCHES.len();
/// grid branches: `release/<g>` and `feature/<g>/x` for every value g of the dense numeric grid (numpool), index N_BRANCHES..
static GRID_BRANCHES: std::sync::OnceLock<Vec<String>> = std::sync::OnceLock::new();
fn grid_branches() -> &'static Vec<String> { GRID_BRANCHES.get_or_init(|| numpool::grid().into_iter().flat_map(|g| [format!("release/{g}"), format!("feature/{g}/x")]).collect()) }
const PROBE_BASE: usize = 1 << 20;
const LEN_BASE: usize = 1 << 21;
fn branch_name(i: usize) -> Option<&'static str> { if i >= LEN_BASE { Some(len_branches()[i - LEN_BASE].as_str()) } else if i >= PROBE_BASE { Some(MANY_PROBES[i - PROBE_BASE]) } else if i < BASE_BRANCHES.len() { BASE_BRANCHES[i] } else if i < BASE_BRANCHES.len() + DEEP_BRANCHES.len() { Some(DEEP_BRANCHES[i - BASE_BRANCHES.len()]) } else if i < N_BRANCHES { Some(REF_BRANCHES[i - BASE_BRANCHES.len() - DEEP_BRANCHES.len()]) } else { Some(grid_branches()[i - N_BRANCHES].as_str()) } }

/// long rule lists x probe names x (ahead | dirty) x post mode unset / forced, on a final and a pre-release tag
fn many_space(sets: &[(&'static str, Vec<Rule>)]) -> Vec<Case> {
    let mut v = vec![];
    for rules in N_BASE_SETS..sets.len() { for b in 0..MANY_PROBES.len() { for tag in [0usize, 2] { for (distance, dirty_flag) in [(Some(2u64), 0usize), (Some(0), 1)] { for mode in [None, Some("commit")] {
        v.push(Case { tag, branch: PROBE_BASE + b, distance, dirty_flag, post: None, label: None, num: None, mode, rules, hash_len: None, stdin: false });
    }}}}}
    v
}
/// name-length sweep: every name x default rules / star-first x hash length unset / 10 / 3
fn len_space() -> Vec<Case> {
    let mut v = vec![];
    for b in 0..len_branches().len() { for rules in [0usize, 2] { for hash_len in [None, Some(3usize), Some(9)] {
        v.push(Case { tag: 0, branch: LEN_BASE + b, distance: Some(1), dirty_flag: 0, post: None, label: None, num: None, mode: None, rules, hash_len, stdin: false });
    }}}
    v
}

/// dense numeric grid in each numeric input in turn: --distance, --post, --pre-release-num, the branch's digit segment, on two
/// tags (final, pre-release with post), clean / dirty, both post modes, default rules
fn grid_space() -> Vec<Case> {
    let mut v = vec![];
    let g32 = numpool::grid_u32();
    for tag in [0usize, 3] { for dirty_flag in [0usize, 1] { for mode in [None, Some("tag"), Some("commit")] { for branch in [2usize, 5] {
        let base = Case { tag, branch, distance: Some(1), dirty_flag, post: None, label: None, num: None, mode, rules: 0, hash_len: None, stdin: false };
        // --distance, --post and --pre-release-num are 32-bit options of the command line (a wider value is a usage error)
        for &g in &g32 {
            v.push(Case { distance: Some(g as u64), ..base.clone() });
            v.push(Case { post: Some(g as u64), ..base.clone() });
            v.push(Case { post: Some(g as u64), distance: Some(3), stdin: true, ..base.clone() });
            v.push(Case { num: Some(g), ..base.clone() }); v.push(Case { num: Some(g), label: Some("rc"), ..base.clone() });
        }
    }}}}
    for tag in [0usize, 2] { for mode in [None, Some("tag")] { for rules in [0usize, 5] { for b in 0..grid_branches().len() {
        v.push(Case { tag, branch: N_BRANCHES + b, distance: Some(1), dirty_flag: 0, post: None, label: None, num: None, mode, rules, hash_len: None, stdin: false });
    }}}}
    v
}

#[derive(Clone, Debug)]
struct Case { tag: usize, branch: usize, distance: Option<u64>, dirty_flag: usize, post: Option<u64>, label: Option<&'static str>, num: Option<u32>, mode: Option<&'static str>, rules: usize, hash_len: Option<usize>, stdin: bool }

fn tag_vars(tag: &str) -> (RVars, String) {
    match zv::run_cli(&["version", "--source", "none", "--tag-version", tag, "--output-format", "zerv"], None) {
        Ok(Res::Ok(doc)) => { let z = Zerv::from_str(&doc).unwrap_or_else(|e| machinery_error(&format!("tag doc: {e}"))); (bind::rvars(&z.vars), doc) }
        other => machinery_error(&format!("cannot establish tag state for {tag}: {other:?}")),
    }
}

thread_local! {
    /// options that do not take part in the flow law (a `--schema` choice, ...) added to every command line built on this thread
    static AMBIENT: std::cell::RefCell<Vec<String>> = const { std::cell::RefCell::new(Vec::new()) };
}

fn argv(c: &Case, sets: &[(&'static str, Vec<Rule>)]) -> Vec<String> {
    let mut v = a(&["flow"]);
    AMBIENT.with(|x| v.extend(x.borrow().iter().cloned()));
    if c.stdin { v.extend(a(&["--source", "stdin"])); } else { v.extend(a(&["--source", "none", "--tag-version", TAGS[c.tag]])); }
    if let Some(b) = branch_name(c.branch) { v.extend(a(&["--bumped-branch", b])); }
    if let Some(d) = c.distance { v.extend(a(&["--distance", &d.to_string()])); }
    match c.dirty_flag { 1 => v.push("--dirty".into()), 2 => v.push("--no-dirty".into()), 3 => v.push("--clean".into()), _ => {} }
    if let Some(p) = c.post { v.extend(a(&["--post", &p.to_string()])); }
    if let Some(l) = c.label { v.extend(a(&["--pre-release-label", l])); }
    if let Some(n) = c.num { v.extend(a(&["--pre-release-num", &n.to_string()])); }
    if let Some(m) = c.mode { v.extend(a(&["--post-mode", m])); }
    if c.rules != 0 { v.extend(a(&["--branch-rules", &flow::rules_ron(&sets[c.rules].1)])); }
    if let Some(h) = c.hash_len { v.extend(a(&["--hash-branch-len", &h.to_string()])); }
    v.extend(a(&["--output-format", "zerv"]));
    v
}

fn judge(ctx: &Ctx, c: &Case, tags: &[(RVars, String)], sets: &[(&'static str, Vec<Rule>)], now: u64, st: &mut Stats) {
    st.inc("runs");
    let args = argv(c, sets);
    let stdin = if c.stdin { Some(tags[c.tag].1.as_str()) } else { None };
    let r = zv::run_cli(&args, stdin);
    let key = format!("{}{}", if c.stdin { format!("[stdin tag {}] ", TAGS[c.tag]) } else { String::new() }, args[1..args.len() - 2].join(" "));
    let case = json!({"kind":"flow","args":args,"stdin_tag":if c.stdin { Some(TAGS[c.tag]) } else { None }});
    st.observe(&(&key, r.as_ref().ok().map(|x| x.ok().map(|s| s.len()))));
    let clean = c.dirty_flag == 3;
    let hash_len = c.hash_len.unwrap_or(5);
    let must_reject = (clean && c.distance.is_some()) || hash_len == 0 || hash_len > 10;
    let out = match &r {
        Err(p) => { ctx.violation(&format!("panic@{}", p.file()), key, case, format!("{} at {}", p.message, p.location)); return; }
        Ok(Res::Ok(o)) => o,
        Ok(other) => {
            if must_reject { st.inc("rejected_as_expected"); return; }
            let class = if c.hash_len.is_some() { "documented_hash_length_fails" } else { "flow_rejected" };
            ctx.violation(class, format!("{key} [len={hash_len}]"), case, format!("{other:?}"));
            return;
        }
    };
    if must_reject { ctx.violation("invalid_option_accepted", key, case, "flow printed a result".into()); return; }
    let z = match Zerv::from_str(out) { Ok(z) => bind::rvars(&z.vars), Err(e) => { ctx.violation("unreadable_output", key, case, e.to_string()); return; } };
    let tag = &tags[c.tag].0;
    // stdin source: the document's own distance/dirty/branch are absent (tag doc from source none)
    let inp = FlowInput {
        branch: branch_name(c.branch).map(String::from),
        distance: if clean { None } else { c.distance },
        dirty: match c.dirty_flag { 1 => Some(true), 2 | 3 => Some(false), _ => None },
        flag_post: c.post, flag_label: c.label, flag_num: c.num, flag_mode: c.mode, hash_len,
    };
    let e: Expect = flow::expect(tag, &sets[c.rules].1, &inp, now);
    if e.active { st.inc("active_cases"); } else { st.inc("inactive_cases"); }
    let mut diffs = vec![];
    if (z.major, z.minor, z.patch) != (e.major, e.minor, e.patch) { diffs.push(format!("core {:?}.{:?}.{:?} expected {:?}.{:?}.{:?}", z.major, z.minor, z.patch, e.major, e.minor, e.patch)); }
    if z.epoch != e.epoch { diffs.push(format!("epoch {:?} expected {:?}", z.epoch, e.epoch)); }
    match (&z.pre, &e.pre) {
        (None, None) => {}
        (Some((gl, gn)), Some((el, en))) => {
            if gl != el { diffs.push(format!("pre-release label {gl} expected {el}")); }
            match en {
                Num::Unspecified => st.inc("unspecified_number"),
                Num::OneOf(ns) => { st.inc("unspecified_number"); let g = gn.map(|x| x.to_string()).unwrap_or("none".into()); if !ns.contains(&g) { diffs.push(format!("pre-release number {g}, admissible {ns:?} (the first all-digit segment does not fit)")); } }
                Num::Exact(n) => { let g = gn.map(|x| x.to_string()).unwrap_or("none".into()); if g != *n { diffs.push(format!("pre-release number {g} expected {n}")); } }
            }
        }
        (g, x) => diffs.push(format!("pre-release {g:?} expected {x:?}")),
    }
    match e.post { None => st.inc("unspecified_post"), Some(p) => if z.post != p { diffs.push(format!("post {:?} expected {:?}", z.post, p)); } }
    if z.dev != e.dev { diffs.push(format!("dev {:?} expected {:?}", z.dev, e.dev)); }
    if !diffs.is_empty() {
        let class = if c.hash_len.is_some() { "branch_hash_mismatch" } else { "flow_law_mismatch" };
        ctx.violation(class, key, case, diffs.join("; "));
    }
}

fn main() {
    let ctx = Ctx::from_args("C04", "model_checking");
    let now = ctx.pinned_now();
    let mut sets = rule_sets();
    assert_eq!(sets.len(), N_BASE_SETS);
    sets.extend(many_rule_sets());
    // R-SIP self-test against the value documented in zerv's README (`main` -> alpha.14467...)
    if flow::hash_str("main") != 14467718814232352107 { machinery_error("R-SIP self-test failed"); }
    let tags: Vec<(RVars, String)> = TAGS.iter().map(|t| tag_vars(t)).collect();
    if let Some(case) = ctx.replay_case() {
        let args: Vec<String> = case["args"].as_array().unwrap().iter().map(|x| x.as_str().unwrap().to_string()).collect();
        let stdin = case["stdin_tag"].as_str().map(|t| tags[TAGS.iter().position(|x| *x == t).unwrap()].1.clone());
        let r = zv::run_cli(&args, stdin.as_deref());
        println!("replay result: {r:?}");
        // re-judge through the full space is the authoritative replay: run the quick space restricted to this argv
        let mut st = Stats::default();
        for c in space(true, &sets) { if argv(&c, &sets) == args { judge(&ctx, &c, &tags, &sets, now, &mut st); } }
        for c in hash_space().into_iter().chain(grid_space()).chain(many_space(&sets)).chain(len_space()) { if argv(&c, &sets) == args { judge(&ctx, &c, &tags, &sets, now, &mut st); } }
        finish(&ctx, Coverage::default());
    }
    use rayon::prelude::*;
    let cases = space(ctx.quick(), &sets);
    let s1 = cases.par_iter().map(|c| { let mut st = Stats::default(); judge(&ctx, c, &tags, &sets, now, &mut st); st }).reduce(Stats::default, Stats::merge);
    // the derived components do not depend on which schema will print them: a strided third of the product again under each of the 11
    // standard `--schema` presets (zerv flow refuses the calver ones) (fixed variants without a post / dev / pre-release part among them), read back with --output-format zerv
    let schemas = ["standard", "standard-no-context", "standard-context", "standard-base", "standard-base-context", "standard-base-prerelease", "standard-base-prerelease-context", "standard-base-prerelease-post", "standard-base-prerelease-post-context", "standard-base-prerelease-post-dev", "standard-base-prerelease-post-dev-context"];
    let stride = if ctx.quick() { 41 } else { 7 };
    let sch_work: Vec<(usize, &Case)> = cases.iter().enumerate().filter(|(i, _)| i % stride == 0).map(|(i, c)| ((i / stride) % schemas.len(), c)).collect();
    let s_sch = sch_work.par_iter().map(|(si, c)| {
        let mut st = Stats::default(); st.inc("schema_option_runs");
        AMBIENT.with(|x| *x.borrow_mut() = vec!["--schema".to_string(), schemas[*si].to_string()]);
        judge(&ctx, c, &tags, &sets, now, &mut st);
        AMBIENT.with(|x| x.borrow_mut().clear());
        st
    }).reduce(Stats::default, Stats::merge);
    let hs = hash_space();
    let s2 = hs.par_iter().map(|c| { let mut st = Stats::default(); st.inc("hash_len_runs"); judge(&ctx, c, &tags, &sets, now, &mut st); st }).reduce(Stats::default, Stats::merge);
    let gsp = grid_space();
    let s2g = gsp.par_iter().map(|c| { let mut st = Stats::default(); st.inc("grid_runs"); judge(&ctx, c, &tags, &sets, now, &mut st); st }).reduce(Stats::default, Stats::merge);
    let msp = many_space(&sets);
    let s2m = msp.par_iter().map(|c| { let mut st = Stats::default(); st.inc("many_rules_runs"); judge(&ctx, c, &tags, &sets, now, &mut st); st }).reduce(Stats::default, Stats::merge);
    let lsp = len_space();
    let s2l = lsp.par_iter().map(|c| { let mut st = Stats::default(); st.inc("name_length_runs"); judge(&ctx, c, &tags, &sets, now, &mut st); st }).reduce(Stats::default, Stats::merge);
    let s2 = s2.merge(s2g).merge(s2m).merge(s2l);
    // BranchRules::resolve_for_branch directly (second observation point)
    let mut s3 = Stats::default();
    {
        use zerv::cli::flow::branch_rules::BranchRules;
        for (name, rules) in &sets {
            let br = BranchRules::from_str(&flow::rules_ron(rules)).unwrap_or_else(|e| machinery_error(&format!("rule set {name}: {e}")));
            for b in (0..N_BRANCHES).chain(PROBE_BASE..PROBE_BASE + MANY_PROBES.len()).chain((LEN_BASE..LEN_BASE + len_branches().len()).step_by(7)).filter_map(branch_name) {
                s3.inc("resolve_for_branch_cases");
                let got = br.resolve_for_branch(Some(b));
                let e = flow::expect(&RVars { major: Some(1), ..Default::default() }, rules, &FlowInput { branch: Some(b.to_string()), distance: Some(1), hash_len: 5, ..Default::default() }, now);
                let (el, en) = e.pre.clone().unwrap();
                let gl = got.pre_release_label.to_string();
                let gm = got.post_mode.to_string();
                let em = if e.dev.is_some() { "tag" } else { "commit" };
                let num_ok = match (&en, got.pre_release_num) { (Num::Unspecified, _) => true, (Num::OneOf(_), _) => true, (Num::Exact(n), Some(g)) => *n == g.to_string(), (Num::Exact(n), None) => *n == flow::branch_id(b, 5) };
                if gl != el || gm != em || !num_ok {
                    ctx.violation("resolve_for_branch_mismatch", format!("{b} under {name}"), json!({"kind":"resolve","branch":b,"rules":name}), format!("got ({gl},{:?},{gm}) expected ({el},{en:?},{em})", got.pre_release_num));
                }
            }
        }
    }
    // process conformance slice
    let slice: Vec<&Case> = cases.iter().step_by((cases.len() / 150).max(1)).collect();
    let bad: Vec<(String, String)> = slice.par_iter().filter_map(|c| {
        let args = argv(c, &sets);
        let stdin = if c.stdin { Some(tags[c.tag].1.as_str()) } else { None };
        let r = zv::run_cli(&args, stdin);
        let o = zv::run_bin(&args, stdin, &[], None);
        zv::conforms(&r, &o).err().map(|e| (args.join(" "), e))
    }).collect();
    let mut s4 = Stats::default();
    s4.add("process_conformance_cases", slice.len() as u64);
    for (k, e) in bad { ctx.violation("binary_differs_from_inprocess", k, json!({"kind":"proc"}), e); }
    // determinism
    let d = |()| cases.iter().take(800).map(|c| { let mut st = Stats::default(); judge(&ctx, c, &tags, &sets, now, &mut st); st }).fold(Stats::default(), Stats::merge).digest;
    if d(()) != d(()) { machinery_error("determinism replay diverged"); }

    let all = s1.merge(s_sch).merge(s2).merge(s3).merge(s4.clone());
    let mut cov = Coverage::default();
    cov.states = (cases.len() + hs.len() + gsp.len() + msp.len() + lsp.len()) as u64 + all.get("resolve_for_branch_cases");
    cov.transitions = all.get("runs");
    cov.evaluations = all.get("runs") + all.get("resolve_for_branch_cases");
    cov.traces_validated = cov.evaluations;
    cov.distinct_nontrivial = all.get("active_cases");
    cov.rule = format!("full product tag{TAGS:?} x {} branch names (incl. prefix-without-slash, digit segments, zero-padded, u32-overflowing, non-ASCII, absent; 30 spelled like refs / remotes / CI variables and 40 with the number 1..10 segments deep, on a reduced flag product) x distance[none,0,1,5] x dirty[unset,--dirty,--no-dirty,--clean] x --post x --pre-release-label x --pre-release-num x --post-mode x 6 rule sets{}, run through run_flow_pipeline with --output-format zerv on source none{} and compared field by field with R-FLOW; hash lengths 0..11 x branches x 2 tags against R-SIP; BranchRules::resolve_for_branch directly; dense numeric grid (0..=300, neighbourhoods of 2^8..2^64 and 10^2..10^20) as --distance, --post, --pre-release-num and as the digit segment of release/<g> and feature/<g>/x ({} runs); rule lists of 4..300 rules (deciding rules last / first followed by contradicting ones / spread out, fillers sharing prefixes with the probes) x 12 probe names x ahead|dirty x post mode ({} runs, also through resolve_for_branch); names of every length 1..=300 in three shapes x 2 rule sets x hash length unset/3/9 ({} runs). non-trivial = active (dirty or ahead) cases", N_BRANCHES, if ctx.quick() { " (quick: 4 tags, distance without 5)" } else { "" }, if ctx.quick() { " (+ a strided stdin slice)" } else { " and stdin" }, gsp.len(), msp.len(), lsp.len());
    cov.exhaustive = true;
    cov.samples = vec![json!(argv(&cases[cases.len() / 2], &sets)), json!(argv(&cases[cases.len() - 3], &sets)), json!(argv(&hs[17], &sets))];
    cov.set("clause_counts", all.to_json());
    cov.set("process_conformance_cases", s4.get("process_conformance_cases"));
    cov.assumptions = vec!["R-FLOW transcribes the C04 statement; post when distance is absent, the number for an absent branch or an overflowing digit segment are left open (counted as unspecified_*)".into(), "R-SIP pins the branch id (self-tested against the README value for `main`)".into(), "wall clock pinned".into()];
    finish(&ctx, cov);
}

fn space(quick: bool, sets: &[(&'static str, Vec<Rule>)]) -> Vec<Case> {
    let mut v = vec![];
    let tags: Vec<usize> = if quick { vec![0, 2, 3, 6] } else { (0..TAGS.len()).collect() };
    let distances: Vec<Option<u64>> = if quick { vec![None, Some(0), Some(1)] } else { vec![None, Some(0), Some(1), Some(5)] };
    let mut n = 0usize;
    for &tag in &tags { for branch in 0..N_BRANCHES { for &distance in &distances { for dirty_flag in 0..4 { for post in [None, Some(7u64)] { for label in [None, Some("rc")] { for num in [None, Some(3u32)] { for mode in [None, Some("tag"), Some("commit")] { for rules in 0..N_BASE_SETS {
        if branch >= BASE_BRANCHES.len() && !(distance == Some(1) && dirty_flag == 0 && post.is_none() && label.is_none() && num.is_none()) { continue; }
        n += 1;
        v.push(Case { tag, branch, distance, dirty_flag, post, label, num, mode, rules, hash_len: None, stdin: false });
        if !quick || n % 9 == 0 { v.push(Case { tag, branch, distance, dirty_flag, post, label, num, mode, rules, hash_len: None, stdin: true }); }
    }}}}}}}}}
    v
}

fn hash_space() -> Vec<Case> {
    let mut v = vec![];
    for hash_len in 0..=11usize { for branch in 1..BASE_BRANCHES.len() { for tag in [0usize, 2] { for rules in [0usize, 1] {
        v.push(Case { tag, branch, distance: Some(1), dirty_flag: 0, post: None, label: None, num: None, mode: None, rules, hash_len: Some(hash_len), stdin: false });
    }}}}
    v
}
