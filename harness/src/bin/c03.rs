//! C03 — flow versions sort consistently with history (in-process layers i-iii and a real-git layer iv).
use std::cmp::Ordering;

use rayon::prelude::*;
use serde_json::json;
use zvharness::refmodel::flow::{self, Rule};
use zvharness::refmodel::{pep440 as rp, semver as rsv};
use zvharness::zv::{self, Res};
use zvharness::*;

fn a(v: &[&str]) -> Vec<String> { v.iter().map(|s| s.to_string()).collect() }

const TAGS: [(&str, [u64; 3]); 4] = [("1.2.3", [1, 2, 3]), ("0.0.0", [0, 0, 0]), ("v10.20.30", [10, 20, 30]), ("1.0.4294967294", [1, 0, 4294967294])];
const BRANCHES: [Option<&str>; 14] = [None, Some("main"), Some("develop"), Some("release/1"), Some("release/x"), Some("releasex"), Some("feature/7/foo"), Some("99"), Some("a/b/10"), Some("fé"), Some("staging"), Some("qa/5"), Some("release/hotfix/7"), Some("release/hotfix/payments")];
/// presets that omit the pre-release part by the user's explicit choice: upper bound is non-strict
const NO_PRE: [&str; 2] = ["standard-base", "standard-base-context"];
/// presets that print the post counter (commit chains must be strictly increasing)
fn prints_post(p: &str) -> bool { matches!(p, "standard" | "standard-no-context" | "standard-context") || p.contains("-post") }

fn rule_sets() -> Vec<(&'static str, Vec<Rule>)> {
    vec![
        ("default", flow::default_rules()),
        ("staging+qa", vec![Rule { pattern: "staging".into(), label: "beta", number: Some(2), mode: "commit" }, Rule { pattern: "qa/*".into(), label: "rc", number: None, mode: "tag" }]),
        ("star-first", vec![Rule { pattern: "*".into(), label: "alpha", number: None, mode: "commit" }]),
        ("a-shadows-ab", vec![Rule { pattern: "a/*".into(), label: "beta", number: None, mode: "commit" }, Rule { pattern: "a/b/*".into(), label: "rc", number: None, mode: "tag" }]),
        // a wildcard rule whose directory part has two segments, in commit mode, ahead of broader rules in tag mode
        ("nested-first", vec![Rule { pattern: "release/hotfix/*".into(), label: "beta", number: None, mode: "commit" }, Rule { pattern: "release/*".into(), label: "rc", number: None, mode: "tag" }, Rule { pattern: "*".into(), label: "alpha", number: None, mode: "tag" }]),
    ]
}

#[derive(Clone, Debug)]
struct Case { tag: usize, branch: usize, distance: Option<u64>, dirty_flag: usize, mode: Option<&'static str>, rules: usize, hash_len: Option<usize>, label: Option<&'static str>, post: Option<u64>, preset: &'static str, fmt: &'static str }

fn argv(c: &Case, sets: &[(&'static str, Vec<Rule>)]) -> Vec<String> {
    let mut v = a(&["flow", "--source", "none", "--tag-version", TAGS[c.tag].0]);
    if let Some(b) = BRANCHES[c.branch] { v.extend(a(&["--bumped-branch", b])); }
    if let Some(d) = c.distance { v.extend(a(&["--distance", &d.to_string()])); }
    match c.dirty_flag { 1 => v.push("--dirty".into()), 2 => v.push("--no-dirty".into()), 3 => v.push("--clean".into()), _ => {} }
    if let Some(m) = c.mode { v.extend(a(&["--post-mode", m])); }
    if c.rules != 0 { v.extend(a(&["--branch-rules", &flow::rules_ron(&sets[c.rules].1)])); }
    if let Some(h) = c.hash_len { v.extend(a(&["--hash-branch-len", &h.to_string()])); }
    if let Some(l) = c.label { v.extend(a(&["--pre-release-label", l])); }
    if let Some(p) = c.post { v.extend(a(&["--post", &p.to_string()])); }
    v.extend(a(&["--schema", c.preset, "--output-format", c.fmt, "--bumped-commit-hash", "g1a2b3c4d5e"]));
    v
}

/// compare a rendered version with X.Y.Z given as numbers; None if the output is not a version
fn cmp_to(fmt: &str, out: &str, xyz: [u64; 3]) -> Option<Ordering> {
    let base = format!("{}.{}.{}", xyz[0], xyz[1], xyz[2]);
    if fmt == "semver" {
        Some(rsv::cmp(&rsv::parse(out)?, &rsv::parse(&base)?))
    } else {
        Some(rp::cmp_std(&rp::parse(out)?, &rp::parse(&base)?))
    }
}

fn cmp_versions(fmt: &str, x: &str, y: &str) -> Option<Ordering> {
    if fmt == "semver" { Some(rsv::cmp(&rsv::parse(x)?, &rsv::parse(y)?)) } else { Some(rp::cmp_std(&rp::parse(x)?, &rp::parse(y)?)) }
}

fn judge(ctx: &Ctx, c: &Case, sets: &[(&'static str, Vec<Rule>)], st: &mut Stats) -> Option<String> {
    st.inc("runs");
    let args = argv(c, sets);
    let r = zv::run_cli(&args, None);
    let key = args[1..].join(" ");
    let case = json!({"kind":"flow","args":args});
    let clean_flag = c.dirty_flag == 3;
    let out = match r {
        Err(p) => { ctx.violation(&format!("panic@{}", p.file()), key, case, format!("{} at {}", p.message, p.location)); return None; }
        Ok(Res::Ok(o)) => o,
        Ok(other) => {
            if clean_flag && c.distance.is_some() { st.inc("rejected_as_expected"); return None; }
            // the known hash-length overflow belongs to C04; any other rejection is reported here
            if c.hash_len == Some(10) { st.inc("hash10_rejected"); return None; }
            ctx.violation("flow_rejected", key, case, format!("{other:?}"));
            return None;
        }
    };
    st.observe(&(&key, &out));
    // C01 cross-feed: every flow output must be well-formed in its format
    if let Some(why) = zvharness::refmodel::malformed(c.fmt, &out) { ctx.violation("flow_output_malformed", key.clone(), case.clone(), format!("{out:?}: {why}")); }
    let (_, xyz) = TAGS[c.tag];
    let dirty = match c.dirty_flag { 1 => true, _ => false };
    let distance = if clean_flag { 0 } else { c.distance.unwrap_or(0) };
    let active = dirty || distance > 0;
    let base = format!("{}.{}.{}", xyz[0], xyz[1], xyz[2]);
    if !active {
        st.inc("clean_at_tag_cases");
        // context presets add build metadata; the version proper must be exactly X.Y.Z
        let core = out.split('+').next().unwrap_or("");
        // an explicit --post override is a user-supplied component, not flow's derivation (oracle scope)
        if c.post.is_some() { st.inc("clean_with_explicit_post_skipped"); return Some(out); }
        if core != base { ctx.violation("clean_checkout_not_exactly_tag", key, case, format!("printed {out:?}, tag is {base}")); }
        return Some(out);
    }
    st.inc("active_cases");
    // presets that omit the pre-release part by explicit choice print X.Y.(Z+1)[+context]: their public part is
    // compared (a PEP 440 local segment sorts above the bare release), with a non-strict upper bound
    let public = if NO_PRE.contains(&c.preset) { out.split('+').next().unwrap_or("").to_string() } else { out.clone() };
    let lower = cmp_to(c.fmt, &public, xyz);
    let upper = cmp_to(c.fmt, &public, [xyz[0], xyz[1], xyz[2] + 1]);
    match (lower, upper) {
        (Some(lo), Some(up)) => {
            if lo != Ordering::Greater { ctx.violation("not_above_base_tag", key.clone(), case.clone(), format!("{out} is not greater than {base}")); }
            let strict = !NO_PRE.contains(&c.preset);
            if up == Ordering::Greater || (strict && up == Ordering::Equal) {
                ctx.violation("not_below_next_patch", key, case, format!("{out} is not below {}.{}.{}", xyz[0], xyz[1], xyz[2] + 1));
            }
        }
        _ => ctx.violation("output_not_a_version", key, case, format!("printed {out:?}")),
    }
    Some(out)
}

fn main() {
    let ctx = Ctx::from_args("C03", "model_checking");
    let _ = ctx.pinned_now();
    let sets = rule_sets();
    if let Some(case) = ctx.replay_case() {
        let args: Vec<String> = case["args"].as_array().map(|v| v.iter().map(|x| x.as_str().unwrap().to_string()).collect()).unwrap_or_default();
        println!("replay: {:?}", zv::run_cli(&args, None));
        let mut st = Stats::default();
        for c in space(false, &sets) { if argv(&c, &sets) == args { judge(&ctx, &c, &sets, &mut st); } }
        finish(&ctx, Coverage::default());
    }
    let quick = ctx.quick();
    let mut layer_secs: Vec<(&str, f64)> = vec![];
    // (i) bounds over the product
    let cases = space(quick, &sets);
    let s1 = cases.par_iter().map(|c| { let mut st = Stats::default(); judge(&ctx, c, &sets, &mut st); st }).reduce(Stats::default, Stats::merge);

    layer_secs.push(("i", ctx.start.elapsed().as_secs_f64()));
    // (ii) distance chains in commit post-mode: strictly increasing where the preset prints the post counter
    // (also without --post-mode, where the first matching rule of the set says commit mode)
    let rule_mode_is_commit = |branch: usize, rules: usize| -> bool {
        let e = flow::expect(&zvharness::refmodel::ren::RVars { major: Some(1), minor: Some(0), patch: Some(0), ..Default::default() }, &sets[rules].1, &flow::FlowInput { branch: BRANCHES[branch].map(String::from), distance: Some(1), hash_len: 5, ..Default::default() }, 0);
        e.active && e.dev.is_none()
    };
    let chain_jobs: Vec<(usize, usize, usize, &'static str, &'static str, Option<&'static str>)> = { let mut v = vec![]; for tag in 0..TAGS.len() { for branch in 0..BRANCHES.len() { for rules in 0..sets.len() { for preset in zv::STANDARD_PRESETS { for fmt in ["semver", "pep440"] { v.push((tag, branch, rules, preset, fmt, Some("commit"))); if rule_mode_is_commit(branch, rules) { v.push((tag, branch, rules, preset, fmt, None)); } } } } } } v };
    let s2 = chain_jobs.par_iter().map(|&(tag, branch, rules, preset, fmt, mode)| {
        let mut st = Stats::default();
        let mut prev: Option<(u64, String)> = None;
        for d in 0..=6u64 {
            let c = Case { tag, branch, distance: Some(d), dirty_flag: 0, mode, rules, hash_len: None, label: None, post: None, preset, fmt };
            let Some(out) = judge(&ctx, &c, &sets, &mut st) else { continue };
            if let Some((pd, pv)) = &prev {
                st.inc("chain_steps");
                let o = cmp_versions(fmt, &out, pv);
                let ok = match o { Some(Ordering::Greater) => true, Some(Ordering::Equal) => !prints_post(preset) && *pd > 0, _ => false };
                if !ok {
                    ctx.violation("commit_chain_not_increasing", format!("{} {:?} {} {} [{}]: d={}→{}", TAGS[tag].0, BRANCHES[branch], sets[rules].0, preset, fmt, pd, d),
                        json!({"kind":"chain","args":argv(&c, &sets)}), format!("{pv} then {out}"));
                }
            }
            prev = Some((d, out));
        }
        st
    }).reduce(Stats::default, Stats::merge);

    layer_secs.push(("ii", ctx.start.elapsed().as_secs_f64()));
    // (iii) a clean checkout at a pre-release tag of the shapes flow produces yields that tag unchanged
    let s3 = cases.par_iter().filter(|c| c.dirty_flag != 1 && c.mode != Some("tag") && matches!(c.preset, "standard" | "standard-no-context" | "standard-base-prerelease-post" | "standard-base-prerelease")).map(|c| {
        let mut st = Stats::default();
        let args = argv(c, &sets);
        let Ok(Res::Ok(v)) = zv::run_cli(&args, None) else { return st };
        let tagv = v.split('+').next().unwrap().to_string();
        // shapes without a dev part only
        if tagv.contains("dev") || tagv == format!("{}.{}.{}", TAGS[c.tag].1[0], TAGS[c.tag].1[1], TAGS[c.tag].1[2]) { return st; }
        st.inc("tag_feedback_cases");
        let mut a2 = a(&["flow", "--source", "none", "--tag-version", &tagv, "--clean", "--schema", c.preset, "--output-format", c.fmt]);
        if c.fmt == "pep440" { a2.extend(a(&["--input-format", "pep440"])); }
        if let Some(b) = BRANCHES[c.branch] { a2.extend(a(&["--bumped-branch", b])); }
        match zv::run_cli(&a2, None) {
            Ok(Res::Ok(o)) => if o != tagv { ctx.violation("prerelease_tag_not_reproduced", a2[1..].join(" "), json!({"kind":"feedback","args":a2}), format!("clean checkout at tag {tagv} printed {o}")); },
            other => ctx.violation("prerelease_tag_rejected", a2[1..].join(" "), json!({"kind":"feedback","args":a2}), format!("{other:?}")),
        }
        // (v) non-initial states: the pre-release version flow produced becomes the base tag; commits added after it on
        // the same branch (same rules and flags, commit post-mode) must give strictly greater versions, step by step
        if c.post.is_none() && prints_post(c.preset) {
            let mut prev = tagv.clone();
            for d in 1..=3u64 {
                let mut a3 = a(&["flow", "--source", "none", "--tag-version", &tagv, "--distance", &d.to_string(), "--post-mode", "commit", "--schema", c.preset, "--output-format", c.fmt, "--bumped-commit-hash", "g1a2b3c4d5e"]);
                if c.fmt == "pep440" { a3.extend(a(&["--input-format", "pep440"])); }
                if let Some(b) = BRANCHES[c.branch] { a3.extend(a(&["--bumped-branch", b])); }
                if c.rules != 0 { a3.extend(a(&["--branch-rules", &flow::rules_ron(&sets[c.rules].1)])); }
                if let Some(h) = c.hash_len { a3.extend(a(&["--hash-branch-len", &h.to_string()])); }
                if let Some(l) = c.label { a3.extend(a(&["--pre-release-label", l])); }
                st.inc("prerelease_tag_chain_steps");
                match zv::run_cli(&a3, None) {
                    Ok(Res::Ok(o)) => {
                        if cmp_versions(c.fmt, &o, &prev) != Some(Ordering::Greater) { ctx.violation("commit_after_prerelease_tag_not_increasing", a3[1..].join(" "), json!({"kind":"feedback-chain","args":a3}), format!("{prev} then {o} (base tag {tagv}, {d} commit(s) after it)")); }
                        let (_, xyz) = TAGS[c.tag];
                        if cmp_to(c.fmt, &o, [xyz[0], xyz[1], xyz[2] + 1]) != Some(Ordering::Less) { ctx.violation("not_below_next_patch", a3[1..].join(" "), json!({"kind":"feedback-chain","args":a3}), format!("{o} (from pre-release tag {tagv}) is not below the next patch release")); }
                        prev = o;
                    }
                    Ok(_) if c.hash_len == Some(10) => { st.inc("hash10_rejected"); break; }
                    other => { ctx.violation("prerelease_tag_rejected", a3[1..].join(" "), json!({"kind":"feedback-chain","args":a3}), format!("{other:?}")); break; }
                }
            }
        }
        st
    }).reduce(Stats::default, Stats::merge);

    layer_secs.push(("iii+v", ctx.start.elapsed().as_secs_f64()));
    // (iv) real git histories: bounds against the model's nearest final-release tag, and first-parent commit steps
    let s_git = git_layer(&ctx, quick);

    layer_secs.push(("iv-git", ctx.start.elapsed().as_secs_f64()));
    // process conformance slice
    let slice: Vec<&Case> = cases.iter().step_by((cases.len() / 100).max(1)).collect();
    let bad: Vec<(String, String)> = slice.par_iter().filter_map(|c| { let args = argv(c, &sets); let r = zv::run_cli(&args, None); let o = zv::run_bin(&args, None, &[], None); zv::conforms(&r, &o).err().map(|e| (args.join(" "), e)) }).collect();
    let mut s4 = Stats::default();
    s4.add("process_conformance_cases", slice.len() as u64);
    for (k, e) in bad { ctx.violation("binary_differs_from_inprocess", k, json!({"kind":"proc"}), e); }
    let d = |()| cases.iter().take(600).map(|c| { let mut st = Stats::default(); judge(&ctx, c, &sets, &mut st); st }).fold(Stats::default(), Stats::merge).digest;
    if d(()) != d(()) { machinery_error("determinism replay diverged"); }

    let all = s1.merge(s2).merge(s3).merge(s4.clone()).merge(s_git);
    let mut cov = Coverage::default();
    cov.states = cases.len() as u64 + chain_jobs.len() as u64 * 7 + all.get("tag_feedback_cases") + all.get("git_states");
    cov.transitions = all.get("runs") + all.get("tag_feedback_cases") + all.get("chain_steps") + all.get("prerelease_tag_chain_steps");
    cov.evaluations = all.get("runs") + all.get("tag_feedback_cases");
    cov.traces_validated = cov.evaluations;
    cov.distinct_nontrivial = all.get("active_cases");
    cov.rule = format!("(i) full product final-release tags {:?} x {} branches x distance x dirty flag x post-mode x {} rule sets x hash lengths x --pre-release-label x --post x 11 standard presets x 2 formats through run_flow_pipeline, each output compared by independent comparators (R-SV precedence / standard PEP 440 order) with X.Y.Z and X.Y.(Z+1); (ii) distance chains 0..6 in commit mode for every (tag, branch, rule set, preset, format): strictly increasing where the preset prints post; (iii) every dev-less pre-release output fed back as --tag-version --clean must be reproduced, and (v) used as base tag, 1..3 further commits on the same branch in commit post-mode must give strictly increasing versions above it and below X.Y.(Z+1). (iv) real git: every placement of <= 2 final-release tags (and of one release tagged three times as v1.0.0 / v1.0 / v1) on the commits of every explored DAG shape (C02's shape BFS) x HEAD at every branch tip x work-tree states, `zerv flow -C` in both formats bounded by the model's nearest tag, plus a commit step on the checked-out branch that must increase the version. non-trivial = active (dirty or ahead) runs", TAGS.iter().map(|t| t.0).collect::<Vec<_>>(), BRANCHES.len(), sets.len());
    cov.set("cumulative_seconds_after_layer", json!(layer_secs.iter().map(|(n, t)| json!({"layer": n, "t": (t * 10.0).round() / 10.0})).collect::<Vec<_>>()));
    cov.exhaustive = true;
    cov.samples = vec![json!(argv(&cases[cases.len() / 3], &sets)), json!(argv(&cases[cases.len() - 5], &sets))];
    cov.set("clause_counts", all.to_json());
    cov.set("process_conformance_cases", s4.get("process_conformance_cases"));
    cov.assumptions = vec!["independent comparators R-SV and R-PEP key_std".into(), "for the two presets that omit the pre-release part by explicit user choice the upper bound is non-strict; chain strictness only where the preset prints the post counter".into(), "wall clock pinned".into()];
    finish(&ctx, cov);
}

fn space(quick: bool, sets: &[(&'static str, Vec<Rule>)]) -> Vec<Case> {
    let mut v = vec![];
    let tags: Vec<usize> = if quick { vec![0, 3] } else { (0..TAGS.len()).collect() };
    let rules: Vec<usize> = if quick { vec![0, 1] } else { (0..sets.len()).collect() };
    let hls: Vec<Option<usize>> = if quick { vec![None, Some(1)] } else { vec![None, Some(1), Some(9), Some(10)] };
    let distances: Vec<Option<u64>> = if quick { vec![None, Some(0), Some(2)] } else { vec![None, Some(0), Some(1), Some(5)] };
    let extras: Vec<(Option<&'static str>, Option<u64>)> = if quick { vec![(None, None)] } else { vec![(None, None), (Some("rc"), None), (None, Some(7)), (Some("beta"), Some(0))] };
    for &tag in &tags { for branch in 0..BRANCHES.len() { for &distance in &distances { for dirty_flag in 0..4 { for mode in [None, Some("tag"), Some("commit")] { for &rules in &rules { for &hash_len in &hls { for &(label, post) in &extras { for preset in zv::STANDARD_PRESETS { for fmt in ["semver", "pep440"] {
        v.push(Case { tag, branch, distance, dirty_flag, mode, rules, hash_len, label, post, preset, fmt });
    }}}}}}}}}}
    v
}


/// layer (iv): real git
fn git_layer(ctx: &Ctx, quick: bool) -> Stats {
    use zvharness::gitx::{self, DateMode, Head, Repo, Shape, Tag, WorkTree};
    for (k, v) in gitx::git_env() { unsafe { std::env::set_var(k, v) }; }
    let root = gitx::scratch_root();
    let _ = std::fs::remove_dir_all(&root);
    std::fs::create_dir_all(&root).unwrap_or_else(|e| machinery_error(&format!("scratch: {e}")));
    let (all_shapes, _) = gitx::explore_shapes(4, if quick { 1 } else { 2 });
    let mut seen = std::collections::BTreeSet::new();
    let shapes: Vec<&Shape> = all_shapes.iter().filter(|s| seen.insert((s.parents.clone(), s.branches.clone()))).filter(|s| !quick || s.parents.len() <= 3 || s.has_merge()).collect();
    // histories outside the BFS alphabet: merge commits where a fast-forward was possible, criss-cross and octopus merges
    let specials = gitx::special_shapes();
    let n_bfs_shapes = shapes.len();
    let shapes: Vec<&Shape> = shapes.into_iter().chain(specials.iter()).collect();
    let names = [("v1.0.0", [1u64, 0, 0]), ("v2.0.0", [2, 0, 0])];
    // work units: (shape, date mode, chunk of tag placements) - each unit owns one materialised repository, so that the
    // few large shapes do not serialise the layer
    struct Unit<'a> { si: usize, shape: &'a Shape, mi: usize, mode: DateMode, labelings: Vec<Vec<Tag>> }
    let mut units: Vec<Unit> = vec![];
    for (si, shape) in shapes.iter().enumerate() {
        let n = shape.parents.len();
        let modes: Vec<DateMode> = if shape.has_merge() { vec![DateMode::Increasing, DateMode::ZigZag] } else { vec![DateMode::Increasing] };
        // placements: v1.0.0 alone on any commit; v1.0.0 and v2.0.0 on any pair of commits
        let mut labelings: Vec<Vec<Tag>> = (0..n).map(|c| vec![Tag { name: "v1.0.0".into(), target: c, annotated: c % 2 == 1 }]).collect();
        let special = si >= n_bfs_shapes;
        if !special { for a in 0..n { for b in 0..n { labelings.push(vec![Tag { name: "v1.0.0".into(), target: a, annotated: false }, Tag { name: "v2.0.0".into(), target: b, annotated: true }]); } } }
        // the release commit also carries shorter spellings of the same version (floating tags v1 / v1.0): equal under
        // PEP 440, so whichever is taken as base, the result must still be measured from 1.0.0
        if !special { for c in 0..n { labelings.push(vec![Tag { name: "v1.0.0".into(), target: c, annotated: false }, Tag { name: "v1.0".into(), target: c, annotated: false }, Tag { name: "v1".into(), target: c, annotated: c % 2 == 0 }]); } }
        for (mi, mode) in modes.iter().enumerate() { for chunk in labelings.chunks(4) { units.push(Unit { si, shape, mi, mode: *mode, labelings: chunk.to_vec() }); } }
    }
    let st = units.par_iter().enumerate().map(|(ui, u)| {
        let mut st = Stats::default();
        let (si, shape, mi, mode, labelings) = (u.si, u.shape, u.mi, &u.mode, &u.labelings);
        let n = shape.parents.len();
        {
            let mut repo = Repo::create(&root, &format!("f{si}m{mi}u{ui}"), shape, &gitx::dates(n, *mode));
            let mut prev_shadow: Vec<String> = vec![];
            for (li, tags) in labelings.iter().enumerate() {
                for r in prev_shadow.drain(..) { gitx::git(&repo.dir, &["update-ref", "-d", &r], None); }
                repo.set_tags(tags);
                // in every other unit the repository also has a branch (not checked out) and a remote named exactly like each tag, as a
                // maintenance branch `v1.0.0` would be: git then abbreviates the tag to `tags/v1.0.0` wherever a short ref name is printed
                let shadow: Vec<String> = if (ui + li) % 2 == 1 { tags.iter().flat_map(|t| [format!("refs/heads/{}", t.name), format!("refs/remotes/{}/HEAD", t.name)]).collect() } else { vec![] };
                for r in &shadow { gitx::git(&repo.dir, &["update-ref", r, &repo.shas[0]], None); st.inc("git_shadow_refs"); }
                prev_shadow = shadow.clone();
                for (b, &tip) in &shape.branches {
                    let head = Head::Branch(b.clone());
                    repo.set_head(&head);
                    let reach = shape.ancestors_or_self(tip);
                    let tagged: Vec<&Tag> = tags.iter().filter(|t| reach.contains(&t.target)).collect();
                    let nearest: Vec<&&Tag> = tagged.iter().filter(|t| !tagged.iter().any(|u| u.target != t.target && shape.ancestors_or_self(u.target).contains(&t.target))).collect();
                    if nearest.is_empty() { continue; }
                    // highest tag per nearest commit
                    let bases: Vec<[u64; 3]> = nearest.iter().map(|t| { let same: Vec<&&Tag> = tagged.iter().filter(|u| u.target == t.target).collect(); same.iter().map(|u| names.iter().find(|x| x.0 == u.name).map(|x| x.1).unwrap_or([1, 0, 0])).max().unwrap() }).collect();
                    let wts: &[WorkTree] = if tags.len() == 1 && n >= 4 && quick { &[WorkTree::Clean, WorkTree::Untracked, WorkTree::TouchedTracked, WorkTree::UserIgnoredUntracked] } else if tags.len() == 1 { &[WorkTree::Clean, WorkTree::Untracked, WorkTree::ModifiedTracked, WorkTree::GitlinkMoved, WorkTree::StagedModWorktreeAsHead, WorkTree::TouchedTracked, WorkTree::UserIgnoredUntracked, WorkTree::InfoExcludedUntracked] } else if tags.len() == 3 { &[WorkTree::Clean, WorkTree::Untracked] } else { &[WorkTree::Clean] };
                    for &wt in wts {
                        repo.reset_worktree();
                        repo.set_worktree(wt, "f0");
                        st.inc("git_states");
                        let dir = repo.dir.to_string_lossy().to_string();
                        let at_tag = nearest.iter().any(|t| t.target == tip);
                        let mut clean_versions: Vec<(String, String)> = vec![];
                        for fmt in ["semver", "pep440"] {
                            st.inc("runs");
                            let args = ["flow", "-C", &dir, "--output-format", fmt];
                            let key = format!("ops {:?} dates {mode:?} tags {:?} head {b} worktree {wt:?} [{fmt}]", shape.ops, tags.iter().map(|t| format!("{}@{}", t.name, t.target)).collect::<Vec<_>>());
                            let case = json!({"kind":"git-flow","ops":shape.ops,"tags":tags.iter().map(|t| format!("{}@{}", t.name, t.target)).collect::<Vec<_>>(),"head":b,"worktree":format!("{wt:?}"),"format":fmt});
                            match zv::run_cli(&args, None) {
                                Ok(Res::Ok(out)) => {
                                    if at_tag && !wt.dirty() {
                                        st.inc("clean_at_tag_cases");
                                        let base = bases.iter().map(|x| format!("{}.{}.{}", x[0], x[1], x[2])).collect::<Vec<_>>();
                                        if !base.contains(&out.split('+').next().unwrap_or("").to_string()) { ctx.violation("git_clean_checkout_not_exactly_tag", key, case, format!("printed {out}, tag is {base:?}")); }
                                    } else {
                                        st.inc("active_cases");
                                        let ok = bases.iter().any(|x| cmp_to(fmt, &out, *x) == Some(Ordering::Greater) && cmp_to(fmt, &out, [x[0], x[1], x[2] + 1]) == Some(Ordering::Less));
                                        if !ok { ctx.violation("git_version_outside_base_tag_window", key, case, format!("printed {out}; nearest final-release tag(s) {bases:?}")); }
                                    }
                                    if !wt.dirty() { clean_versions.push((fmt.to_string(), out)); }
                                }
                                other => ctx.violation("git_flow_failed", key, case, format!("{other:?}")),
                            }
                        }
                        // commit step on the checked-out branch (clean tree, single nearest base): strictly greater
                        if !wt.dirty() && bases.len() == 1 && !b.starts_with("release") {
                            repo.reset_worktree();
                            let mut cmd = std::process::Command::new("git");
                            cmd.args(["commit", "-q", "--allow-empty", "-m", "step"]).current_dir(&repo.dir).env_clear().stdin(std::process::Stdio::null());
                            for (k, v) in gitx::git_env() { cmd.env(k, v); }
                            cmd.env("GIT_COMMITTER_DATE", "1600009999 +0000").env("GIT_AUTHOR_DATE", "1600009999 +0000");
                            if cmd.output().map(|o| o.status.success()).unwrap_or(false) {
                                for (fmt, v0) in &clean_versions {
                                    st.inc("git_commit_steps");
                                    let args = ["flow", "-C", &dir, "--output-format", fmt];
                                    match zv::run_cli(&args, None) {
                                        Ok(Res::Ok(v1)) => if cmp_versions(fmt, &v1, v0) != Some(Ordering::Greater) { ctx.violation("git_commit_step_not_increasing", format!("ops {:?} tags {:?} head {b} [{fmt}]", shape.ops, tags.iter().map(|t| format!("{}@{}", t.name, t.target)).collect::<Vec<_>>()), json!({"kind":"git-step"}), format!("{v0} then {v1} after one more commit")); },
                                        other => ctx.violation("git_flow_failed", format!("after commit step on {b}"), json!({"kind":"git-step"}), format!("{other:?}")),
                                    }
                                }
                                gitx::git(&repo.dir, &["update-ref", &format!("refs/heads/{b}"), &repo.shas[tip]], None);
                                gitx::git(&repo.dir, &["reset", "-q", "--hard"], None);
                            }
                        }
                    }
                    repo.reset_worktree();
                    // the history of the checked-out branch, read backwards along first parents: with one tag below all of it and the
                    // default (commit post-mode) rules, every commit has a strictly greater version than its first parent - also
                    // when the commits it adds are all merge commits. The branch ref is moved back commit by commit.
                    if tags.len() == 1 && !b.starts_with("release") {
                        let tagged_at = tags[0].target;
                        let mut chain = vec![tip];
                        while let Some(&fp) = shape.parents[*chain.last().unwrap()].first() { if fp == tagged_at || !shape.ancestors_or_self(fp).contains(&tagged_at) { break; } chain.push(fp); }
                        if chain.len() >= 2 && shape.ancestors_or_self(tip).contains(&tagged_at) && tip != tagged_at {
                            let dir = repo.dir.to_string_lossy().to_string();
                            let mut vers: Vec<Vec<String>> = vec![];
                            for &c in &chain {
                                gitx::git(&repo.dir, &["update-ref", &format!("refs/heads/{b}"), &repo.shas[c]], None);
                                gitx::git(&repo.dir, &["reset", "-q", "--hard"], None);
                                let mut row = vec![];
                                for fmt in ["semver", "pep440"] { st.inc("runs"); st.inc("first_parent_chain_runs"); match zv::run_cli(&["flow", "-C", &dir, "--output-format", fmt], None) { Ok(Res::Ok(v)) => row.push(v), other => { ctx.violation("git_flow_failed", format!("first-parent walk on {b} at commit {c}"), json!({"kind":"git-chain"}), format!("{other:?}")); row.push(String::new()); } } }
                                vers.push(row);
                            }
                            gitx::git(&repo.dir, &["update-ref", &format!("refs/heads/{b}"), &repo.shas[tip]], None);
                            gitx::git(&repo.dir, &["reset", "-q", "--hard"], None);
                            for w in 0..chain.len() - 1 { for (fi, fmt) in ["semver", "pep440"].iter().enumerate() {
                                let (child, parent) = (&vers[w][fi], &vers[w + 1][fi]);
                                if child.is_empty() || parent.is_empty() { continue; }
                                st.inc("first_parent_steps");
                                if cmp_versions(fmt, child, parent) != Some(Ordering::Greater) {
                                    ctx.violation("git_commit_step_not_increasing", format!("ops {:?} tags {:?} branch {b}: commit {} after its first parent {} [{fmt}]", shape.ops, tags.iter().map(|t| format!("{}@{}", t.name, t.target)).collect::<Vec<_>>(), chain[w], chain[w + 1]), json!({"kind":"git-chain","ops":shape.ops}), format!("{parent} then {child}"));
                                }
                            }}
                        }
                    }
                }
            }
            repo.remove();
        }
        st
    }).reduce(Stats::default, Stats::merge);
    // a linked worktree (its `.git` is a file): the main work tree sits clean on the tag, the linked one is ahead of it
    let mut st = st;
    {
        let shape = Shape { parents: vec![vec![], vec![0], vec![1]], branches: [("main".to_string(), 0), ("feature/y".to_string(), 2)].into_iter().collect(), cur: "main".into(), ops: vec!["branch feature/y".into(), "commit".into(), "commit".into(), "checkout main".into()] };
        let mut repo = Repo::create(&root, "lw", &shape, &gitx::dates(3, DateMode::Increasing));
        repo.set_tags(&[Tag { name: "v1.0.0".into(), target: 0, annotated: false }]);
        repo.set_head(&Head::Branch("main".into()));
        for path in [root.join("lw_side"), repo.dir.join("ignored_nested_wt")] {
            gitx::git(&repo.dir, &["worktree", "add", "-q", "-f", path.to_str().unwrap(), "feature/y"], None);
            let dir = path.to_string_lossy().to_string();
            let mut prev: Option<(String, String)> = None;
            for fmt in ["semver", "pep440"] {
                st.inc("git_states"); st.inc("runs");
                let key = format!("linked worktree {} on feature/y, 2 commits after v1.0.0 [{fmt}]", if path.starts_with(&repo.dir) { "nested in the main work tree" } else { "beside the repository" });
                match zv::run_cli(&["flow", "-C", &dir, "--output-format", fmt], None) {
                    Ok(Res::Ok(out)) => { st.inc("active_cases"); if !(cmp_to(fmt, &out, [1, 0, 0]) == Some(Ordering::Greater) && cmp_to(fmt, &out, [1, 0, 1]) == Some(Ordering::Less)) { ctx.violation("git_version_outside_base_tag_window", key, json!({"kind":"git-linked-worktree","format":fmt}), format!("printed {out}; base tag v1.0.0, the linked worktree is 2 commits ahead")); } prev = Some((fmt.to_string(), out)); }
                    other => ctx.violation("git_flow_failed", key, json!({"kind":"git-linked-worktree"}), format!("{other:?}")),
                }
            }
            let _ = prev;
            gitx::git(&repo.dir, &["worktree", "remove", "--force", path.to_str().unwrap()], None);
        }
        repo.remove();
    }
    let _ = std::fs::remove_dir_all(&root);
    st
}
