//! C01 — every emitted version string is well-formed in the requested format.
use std::str::FromStr;

use rayon::prelude::*;
use serde_json::json;
use zerv::schema::ZervSchemaPreset;
use zerv::version::{PEP440, SemVer};
use zvharness::refmodel::malformed;
use zvharness::refmodel::ren::{RComp, RSchema, RVar, RVars};
use zvharness::zv::{self, Res};
use zvharness::*;

const POSITIONS: [&str; 6] = ["branch", "commit_hash", "last_hash", "last_branch", "custom", "literal"];

fn base_vars() -> RVars {
    RVars { major: Some(1), minor: Some(2), patch: Some(3), epoch: Some(1), pre: Some(("rc", Some(2))), post: Some(3), dev: Some(4), distance: Some(5), dirty: Some(true),
        bumped_branch: Some("main".into()), bumped_commit_hash: Some("g1a2b3c4d5e".into()), bumped_timestamp: Some(1709247600), last_branch: Some("main".into()),
        last_commit_hash: Some("g0a0b0c0d0e".into()), last_timestamp: Some(1700000000), custom: json!({"k": "v"}), ..Default::default() }
}

fn place(pos: &str, x: &str) -> RVars {
    let mut v = base_vars();
    match pos {
        "branch" => v.bumped_branch = Some(x.into()),
        "commit_hash" => v.bumped_commit_hash = Some(x.into()),
        "last_hash" => v.last_commit_hash = Some(x.into()),
        "last_branch" => v.last_branch = Some(x.into()),
        "custom" => v.custom = json!({"k": x}),
        _ => {}
    }
    v
}

/// custom schemas: every text-carrying component in every section it may legally appear in
fn custom_schemas(lit: &str) -> Vec<(String, RSchema)> {
    use RComp::{Str, Var as V};
    let base = vec![V(RVar::Major), V(RVar::Minor), V(RVar::Patch)];
    let texts = vec![V(RVar::BumpedBranch), V(RVar::BumpedCommitHash), V(RVar::BumpedCommitHashShort), V(RVar::LastBranch), V(RVar::LastCommitHash), V(RVar::LastCommitHashShort), V(RVar::Custom("k".into())), Str(lit.to_string())];
    let mut out = vec![];
    // all text components at once, per section
    out.push(("all_in_core".to_string(), RSchema { core: [base.clone(), texts.clone()].concat(), extra_core: vec![V(RVar::Epoch), V(RVar::PreRelease)], build: vec![] }));
    out.push(("all_in_extra_core".to_string(), RSchema { core: base.clone(), extra_core: [vec![V(RVar::PreRelease)], texts.clone(), vec![V(RVar::Post)]].concat(), build: vec![] }));
    out.push(("all_in_build".to_string(), RSchema { core: base.clone(), extra_core: vec![V(RVar::Dev)], build: texts.clone() }));
    out.push(("text_first_in_core".to_string(), RSchema { core: [texts.clone(), base.clone()].concat(), extra_core: vec![], build: vec![] }));
    out.push(("text_only".to_string(), RSchema { core: vec![], extra_core: texts.clone(), build: texts.clone() }));
    // a core that is not empty but holds no integer component: the release / major.minor.patch must still be there
    out.push(("text_core_no_integer".to_string(), RSchema { core: texts.clone(), extra_core: vec![V(RVar::Epoch), V(RVar::PreRelease), V(RVar::Post), V(RVar::Dev)], build: texts.clone() }));
    out.push(("literal_core".to_string(), RSchema { core: vec![Str(lit.to_string())], extra_core: vec![], build: vec![] }));
    out
}

fn all_presets() -> Vec<&'static str> {
    zv::STANDARD_PRESETS.iter().chain(zv::CALVER_PRESETS.iter()).copied().collect()
}

fn judge_obj(ctx: &Ctx, label: &str, s: &RSchema, v: &RVars, pos: &str, x: &str, is_preset: bool, st: &mut Stats) {
    let z = match bind::zerv(s, v) { Ok(z) => z, Err(e) => { ctx.violation("valid_schema_refused", label.to_string(), json!({"kind":"obj"}), e); return; } };
    for fmt in ["semver", "pep440"] {
        st.inc("renders");
        let got = if fmt == "semver" { catch(|| SemVer::from(z.clone()).to_string()) } else { catch(|| PEP440::from(z.clone()).to_string()) };
        let case = json!({"kind":"text","position":pos,"text":x,"schema":label,"format":fmt});
        let key = format!("{x:?} as {pos} under {label} [{fmt}]");
        match got {
            Err(p) => ctx.violation(&format!("panic@{}", p.file()), key, case, format!("{} at {}", p.message, p.location)),
            Ok(out) => {
                st.observe(&(fmt, &out));
                if let Some(why) = malformed(fmt, &out) {
                    ctx.violation(&format!("{fmt}_malformed"), key, case, format!("emitted {out:?}: {why}"));
                    continue;
                }
                // zerv's own parser accepts it
                let own = if fmt == "semver" { SemVer::from_str(&out).is_ok() } else { PEP440::from_str(&out).is_ok() };
                if !own {
                    ctx.violation(&format!("{fmt}_rejected_by_own_parser"), key, case, format!("emitted {out:?}"));
                    continue;
                }
                if is_preset {
                    st.inc("rerender_checks");
                    match zv::run_cli(&["render", "-f", fmt, "--output-format", fmt, "--", &out], None) {
                        Ok(Res::Ok(r)) => if r != out { ctx.violation("preset_output_not_rerender_stable", key, case, format!("{out:?} re-renders as {r:?}")); },
                        other => ctx.violation("preset_output_rerender_failed", key, case, format!("{out:?}: {other:?}")),
                    }
                }
            }
        }
    }
}

fn explore_text(ctx: &Ctx, x: &str, st: &mut Stats) {
    st.inc("texts");
    for pos in POSITIONS {
        let v = place(pos, x);
        if pos != "literal" {
            for p in all_presets() {
                let zv_vars = bind::vars(&v);
                let sch = match catch(|| ZervSchemaPreset::from_str(p).map(|pp| pp.schema_with_zerv(&zv_vars))) { Ok(Ok(s)) => bind::rschema(&s), _ => { ctx.violation("preset_failed", p.to_string(), json!({"kind":"preset"}), "schema_with_zerv failed".into()); continue; } };
                // only presets that print the position are informative; others are identical for every x
                let prints_text = !sch.build.is_empty();
                if !prints_text && !(x.is_empty()) { continue; }
                judge_obj(ctx, p, &sch, &v, pos, x, true, st);
            }
        }
        let lit = if pos == "literal" { x } else { "lit" };
        for (name, s) in custom_schemas(lit) {
            judge_obj(ctx, &name, &s, &v, pos, x, false, st);
        }
    }
}

fn cli_case(ctx: &Ctx, args: &[String], stdin: Option<&str>, fmt: &str, prefix: &str, st: &mut Stats) -> Result<Res, PanicInfo> {
    st.inc("cli_runs");
    let r = zv::run_cli(args, stdin);
    let key = format!("{args:?}");
    let case = json!({"kind":"cli","args":args,"stdin":stdin,"format":fmt,"prefix":prefix});
    match &r {
        Err(p) => ctx.violation(&format!("panic@{}", p.file()), key, case, format!("{} at {}", p.message, p.location)),
        Ok(Res::Ok(out)) => {
            match out.strip_prefix(prefix) {
                None => ctx.violation("prefix_missing", key, case, format!("stdout {out:?}")),
                Some(rest) => if let Some(why) = malformed(fmt, rest) { ctx.violation(&format!("{fmt}_malformed"), key, case, format!("emitted {out:?}: {why}")); },
            }
        }
        _ => { st.inc("cli_rejected"); }
    }
    r
}

/// the same command under the conditions in which tools start to decorate their output: colour-forcing environment variables
/// and a pseudo terminal as stdout (`script -qec`; the terminal turns \n into \r\n, nothing else may differ). Returns a
/// description of the first difference from `plain`.
fn terminal_conditions_differ(args: &[String], plain: &[u8]) -> Option<String> {
    let profiles: [&[(&str, &str)]; 7] = [&[("CLICOLOR_FORCE", "1")], &[("FORCE_COLOR", "1")], &[("FORCE_COLOR", "3"), ("COLORTERM", "truecolor")], &[("CLICOLOR", "1"), ("TERM", "xterm-256color"), ("COLORTERM", "truecolor")],
        &[("CARGO_TERM_COLOR", "always"), ("CLICOLOR_FORCE", "yes")], &[("NO_COLOR", "1")], &[("TERM", "dumb"), ("CLICOLOR_FORCE", "1")]];
    for env in profiles {
        let o = zv::run_bin(args, None, env, None);
        if o.stdout != plain { return Some(format!("stdout under {env:?} is {:?}, plainly {:?}", truncate(&o.stdout_str(), 120), String::from_utf8_lossy(plain))); }
    }
    // pseudo terminal
    let quoted: Vec<String> = std::iter::once(proc::zerv_bin().to_string_lossy().to_string()).chain(args.iter().cloned()).map(|a| format!("'{}'", a.replace('\'', "'\\''"))).collect();
    for term in ["xterm-256color", "dumb"] {
        let mut env = proc::base_env();
        env.retain(|(k, _)| k != "TERM"); env.push(("TERM".into(), term.into()));
        let o = proc::run(&proc::Run { program: std::path::Path::new("/usr/bin/script"), args: vec!["-qec".into(), quoted.join(" "), "/dev/null".into()], stdin: None, env, cwd: None, timeout: std::time::Duration::from_secs(30) }).unwrap_or_else(|e| machinery_error(&format!("cannot spawn script: {e}")));
        let got = o.stdout_str().replace("\r\n", "\n");
        if got.as_bytes() != plain { return Some(format!("stdout on a pseudo terminal (TERM={term}) is {:?}, through a pipe {:?}", truncate(&got, 120), String::from_utf8_lossy(plain))); }
    }
    None
}

fn main() {
    let ctx = Ctx::from_args("C01", "model_checking");
    let _ = ctx.pinned_now();
    if let Some(case) = ctx.replay_case() {
        let mut st = Stats::default();
        match case["kind"].as_str() {
            Some("text") => explore_text(&ctx, case["text"].as_str().unwrap(), &mut st),
            Some("cli") => { let args: Vec<String> = case["args"].as_array().unwrap().iter().map(|a| a.as_str().unwrap().to_string()).collect(); let _ = cli_case(&ctx, &args, case["stdin"].as_str(), case["format"].as_str().unwrap(), case["prefix"].as_str().unwrap_or(""), &mut st); }
            _ => machinery_error("bad replay kind"),
        }
        finish(&ctx, Coverage::default());
    }
    let quick = ctx.quick();
    let sigma10: Vec<&str> = vec!["a", "A", "0", "7", ".", "-", "+", "é", "٣", "€"];
    let l = if quick { 3 } else { 5 };
    let s1 = for_each_string(&sigma10, l, |x, _n, st| explore_text(&ctx, x, st));
    // special texts: long zero-padded digit runs around the integer widths, long text, separators only
    let specials: Vec<String> = ["00012345678901234567890123", "0000000000000000000000", "18446744073709551616", "018446744073709551615", "04294967296", "4294967296", "build/00012345678901234567890123/x",
        "a.00000000000000000000000001", "1e5", "0x1F", "-", "..", "+-+", " ", " a b ", "\t\n", "a\nb", "wip_1a2", "g1a2b3c", "G1A2B3C4D5", "Feat/0042_x", "release/1.2.3-rc.1+build", "ſ", "\u{212A}", "İ", "ß", "Ǆ", "🙂🙂🙂🙂", "e\u{301}", "٣٣٣٣٣٣٣٣٣"]
        .iter().map(|s| s.to_string()).chain([ "x".repeat(300), "0".repeat(300), "9".repeat(64), "é".repeat(9) ]).collect();
    let s2 = specials.par_iter().map(|x| { let mut st = Stats::default(); st.inc("special_texts"); explore_text(&ctx, x, &mut st); st }).reduce(Stats::default, Stats::merge);

    // numbers in every numeric variable x every preset + custom schemas
    let nums = [0u64, 1, 4294967295, 4294967296, u64::MAX];
    let mut s3 = Stats::default();
    for n in nums { for field in 0..9 {
        let mut v = base_vars();
        match field { 0 => v.major = Some(n), 1 => v.minor = Some(n), 2 => v.patch = Some(n), 3 => v.epoch = Some(n), 4 => v.pre = Some(("alpha", Some(n))), 5 => v.post = Some(n), 6 => v.dev = Some(n), 7 => v.distance = Some(n), _ => v.bumped_timestamp = Some(n) }
        s3.inc("numeric_cases");
        for p in all_presets() {
            let zv_vars = bind::vars(&v);
            if let Ok(Ok(s)) = catch(|| ZervSchemaPreset::from_str(p).map(|pp| pp.schema_with_zerv(&zv_vars))) {
                // re-render stability is asserted where every number fits the format (otherwise rejection is legitimate)
                judge_obj(&ctx, p, &bind::rschema(&s), &v, "number", &format!("field{field}={n}"), n <= u32::MAX as u64, &mut s3);
            }
        }
        for (name, s) in custom_schemas("lit") { judge_obj(&ctx, &name, &s, &v, "number", &format!("field{field}={n}"), false, &mut s3); }
    }}

    // unset variables: every preset and custom schema with the primary components unset, with everything unset, and with
    // only the secondary components set (a version must still come out well-formed: 0 / 0.0.0 stand in)
    for (vname, v) in [("primaries_unset", RVars { major: None, minor: None, patch: None, ..base_vars() }), ("all_unset", RVars { custom: json!({}), ..Default::default() }),
        ("only_secondaries", RVars { epoch: Some(2), pre: Some(("beta", None)), post: Some(4), dev: Some(7), custom: json!({}), ..Default::default() }), ("only_context", RVars { distance: Some(3), dirty: Some(true), bumped_branch: Some("main".into()), bumped_commit_hash: Some("gabcdef012345".into()), custom: json!({}), ..Default::default() })] {
        s3.inc("numeric_cases");
        for p in all_presets() {
            let zv_vars = bind::vars(&v);
            if let Ok(Ok(sc)) = catch(|| ZervSchemaPreset::from_str(p).map(|pp| pp.schema_with_zerv(&zv_vars))) { judge_obj(&ctx, p, &bind::rschema(&sc), &v, "unset", vname, false, &mut s3); }
        }
        for (name, sc) in custom_schemas("lit") { judge_obj(&ctx, &name, &sc, &v, "unset", vname, false, &mut s3); }
    }

    // CLI layer (in-process run_version_pipeline): sources none and stdin, flags, --output-prefix, overrides/bumps
    let mut cli_jobs: Vec<(Vec<String>, Option<String>, &str, &str)> = vec![];
    let short_texts: Vec<String> = { let m = std::sync::Mutex::new(vec![]); for_each_string(&sigma10, 2, |x, _n, _st| m.lock().unwrap().push(x.to_string())); let mut v = m.into_inner().unwrap(); v.sort(); v };
    let stdin_doc = bind::zerv(&custom_schemas("li.t")[0].1, &base_vars()).unwrap().to_string();
    for x in short_texts.iter().chain(specials.iter().take(12)) {
        for fmt in ["semver", "pep440"] {
            for schema in ["standard-context", "calver-base-prerelease-post-dev-context", "standard-base-context"] {
                let a = |v: &[&str]| v.iter().map(|s| s.to_string()).collect::<Vec<String>>();
                cli_jobs.push((a(&["version", "--source", "none", "--tag-version", "1.2.3", "--distance", "2", "--schema", schema, "--output-format", fmt, "--bumped-branch", x, "--bumped-commit-hash", x, "--custom", &json!({"k": x}).to_string()]), None, fmt, ""));
                cli_jobs.push((a(&["version", "--source", "stdin", "--schema", schema, "--output-format", fmt, "--bumped-branch", x, "--bumped-commit-hash", x, "--output-prefix", "rel-", "--bump-patch", "--post", "7"]), Some(stdin_doc.clone()), fmt, "rel-"));
            }
            let ron = format!("(core:[var(Major),str({}),var(custom(\"k\"))],extra_core:[var(BumpedBranch),var(PreRelease)],build:[var(BumpedCommitHashShort),str({})])", json!(x), json!(x));
            let a = |v: &[&str]| v.iter().map(|s| s.to_string()).collect::<Vec<String>>();
            cli_jobs.push((a(&["version", "--source", "stdin", "--schema-ron", &ron, "--output-format", fmt, "--bumped-branch", x, "--bumped-commit-hash", x, "--custom", &json!({"k": x}).to_string(), "--bump-major", "--pre-release-label", "beta"]), Some(stdin_doc.clone()), fmt, ""));
        }
    }
    // custom variables of every JSON type in every section, through version and flow, plus flow with a custom schema
    for val in ["-3", "1.5", "1e300", "-0.0", "null", "true", "false", "[1,2]", "{\"a\":1}", "\"007\"", "18446744073709551615", "-9223372036854775808", "\"\"", "\"é\"", "0", "\"1.2.3\"", "\"+\"", "\"a b\"", "123456789012345678901234567890"] {
        for fmt in ["semver", "pep440"] {
            let a = |v: &[&str]| v.iter().map(|s| s.to_string()).collect::<Vec<String>>();
            let ron = "(core:[var(Major),var(custom(\"k\")),var(Minor)],extra_core:[var(custom(\"k\")),var(PreRelease),var(custom(\"n.k\"))],build:[var(custom(\"k\")),var(custom(\"missing\"))])";
            let custom = format!("{{\"k\": {val}, \"n\": {{\"k\": {val}}}}}");
            cli_jobs.push((a(&["version", "--source", "none", "--tag-version", "1.2.3-rc.1", "--schema-ron", ron, "--custom", &custom, "--output-format", fmt]), None, fmt, ""));
            cli_jobs.push((a(&["flow", "--source", "none", "--tag-version", "1.2.3", "--distance", "2", "--bumped-branch", "feature/7", "--schema-ron", ron, "--custom", &custom, "--output-format", fmt]), None, fmt, ""));
            cli_jobs.push((a(&["flow", "--source", "stdin", "--dirty", "--schema-ron", ron, "--custom", &custom, "--output-format", fmt, "--output-prefix", "v"]), Some(stdin_doc.clone()), fmt, "v"));
        }
    }
    let s4 = cli_jobs.par_iter().map(|(args, stdin, fmt, prefix)| { let mut st = Stats::default(); let _ = cli_case(&ctx, args, stdin.as_deref(), fmt, prefix, &mut st); st }).reduce(Stats::default, Stats::merge);
    // --output-prefix layer: every prefix over a 6-symbol alphabet up to length 3 (+ specials) x commands x formats;
    // stdout must be exactly prefix ++ (the same run without --output-prefix)
    let mut prefixes: Vec<String> = { let m = std::sync::Mutex::new(vec![]); for_each_string(&[" ", "v", "\t", "-", "é", "1"], 3, |x, _n, _st| m.lock().unwrap().push(x.to_string())); let mut v = m.into_inner().unwrap(); v.sort(); v };
    prefixes.extend(["rel-", "release/", "  v  ", "{{ major }}", "%s", "\\", "\"", "v1.2.3-", "+", "\u{a0}v", "\r"].iter().map(|s| s.to_string()));
    let a = |v: &[&str]| v.iter().map(|s| s.to_string()).collect::<Vec<String>>();
    let prefix_bases: Vec<(Vec<String>, Option<String>)> = vec![
        (a(&["version", "--source", "none", "--tag-version", "1.2.3-rc.1", "--distance", "2", "--bumped-branch", "main"]), None),
        (a(&["version", "--source", "stdin"]), Some(stdin_doc.clone())),
        (a(&["flow", "--source", "none", "--tag-version", "1.2.3", "--distance", "1", "--bumped-branch", "develop"]), None),
        (a(&["render", "1!2.3.4rc5.post6.dev7+L"]), None),
    ];
    let s6 = prefixes.par_iter().map(|px| {
        let mut st = Stats::default();
        for (base, stdin) in &prefix_bases { for fmt in ["semver", "pep440"] {
            st.inc("prefix_cases");
            let mut plain = base.clone(); plain.extend(a(&["--output-format", fmt]));
            let mut with = plain.clone(); with.push(format!("--output-prefix={px}"));
            let (r0, r1) = (zv::run_cli(&plain, stdin.as_deref()), zv::run_cli(&with, stdin.as_deref()));
            let key = format!("{with:?}");
            let case = json!({"kind":"cli","args":with,"stdin":stdin,"format":fmt,"prefix":px});
            match (r0, r1) {
                (Ok(Res::Ok(v)), Ok(Res::Ok(out))) => { if out != format!("{px}{v}") { ctx.violation("prefix_not_verbatim", key, case, format!("stdout {out:?}, expected {:?}", format!("{px}{v}"))); } }
                (_, Err(p)) => ctx.violation(&format!("panic@{}", p.file()), key, case, p.message),
                (Ok(Res::Ok(_)), Ok(other)) => ctx.violation("prefix_makes_run_fail", key, case, format!("{other:?}")),
                _ => { st.inc("cli_rejected"); }
            }
        }}
        st
    }).reduce(Stats::default, Stats::merge);
    // the same through the real binary for a slice of prefixes: stdout bytes are exactly prefix ++ version ++ "\n"
    for px in prefixes.iter().step_by(9) {
        let plain = a(&["version", "--source", "none", "--tag-version", "1.2.3", "--output-format", "semver"]);
        let mut with = plain.clone(); with.push(format!("--output-prefix={px}"));
        let (o0, o1) = (zv::run_bin(&plain, None, &[], None), zv::run_bin(&with, None, &[], None));
        if o0.status != 0 || o1.status != 0 || o1.stdout_str() != format!("{px}{}", o0.stdout_str()) { ctx.violation("prefix_not_verbatim_binary", format!("{with:?}"), json!({"kind":"proc"}), format!("plain {:?} with prefix {:?}", o0.stdout_str(), o1.stdout_str())); }
    }
    let mut s5 = Stats::default();
    // git source through the real binary, incl. a shallow repository (a .git/shallow boundary between the tag and the root,
    // HEAD ahead of the tag), a detached HEAD and a dirty tree: stdout is exactly one well-formed line, also with -v
    {
        use zvharness::gitx::{self, DateMode, Head, Repo, Shape, Tag, WorkTree};
        let root = gitx::scratch_root().join("c01git");
        let _ = std::fs::create_dir_all(&root);
        let shape = Shape { parents: vec![vec![], vec![0], vec![1], vec![2]], branches: [("main".to_string(), 3)].into_iter().collect(), cur: "main".into(), ops: vec![] };
        for (name, shallow_at, head, wt) in [("full", None, Head::Branch("main".into()), WorkTree::Clean), ("shallow-ahead", Some(1usize), Head::Branch("main".into()), WorkTree::Clean), ("shallow-at-tag", Some(2), Head::Detached(2), WorkTree::Clean), ("shallow-dirty", Some(1), Head::Branch("main".into()), WorkTree::Untracked)] {
            let mut repo = Repo::create(&root, name, &shape, &gitx::dates(4, DateMode::Increasing));
            repo.set_tags(&[Tag { name: "v1.2.3".into(), target: 2, annotated: false }, Tag { name: "v1.0.0".into(), target: 1, annotated: true }]);
            repo.set_head(&head);
            repo.set_worktree(wt, "f0");
            if let Some(c) = shallow_at { std::fs::write(repo.dir.join(".git/shallow"), format!("{}\n", repo.shas[c])).unwrap(); }
            let dir = repo.dir.to_string_lossy().to_string();
            for sub in ["version", "flow"] { for fmt in ["semver", "pep440"] { for verbose in [false, true] {
                let mut args: Vec<String> = if verbose { vec!["-v".into()] } else { vec![] };
                args.extend([sub, "-C", &dir, "--output-format", fmt].iter().map(|s| s.to_string()));
                let o = zv::run_bin(&args, None, &[], None);
                s5.inc("process_conformance_cases"); s5.inc("git_source_runs");
                let out = o.stdout_str();
                let key = format!("[{name}] {}", args.join(" "));
                if o.status != 0 { ctx.violation("git_source_failed", key, json!({"kind":"git","repo":name}), truncate(&o.stderr_str(), 200)); continue; }
                if out.matches('\n').count() != 1 || !out.ends_with('\n') { ctx.violation("stdout_not_exactly_one_line", key, json!({"kind":"git","repo":name}), format!("stdout {:?}", truncate(&out, 200))); continue; }
                if let Some(why) = malformed(fmt, out.trim_end_matches('\n')) { ctx.violation(&format!("{fmt}_malformed"), key.clone(), json!({"kind":"git","repo":name}), format!("emitted {out:?}: {why}")); }
                if !verbose { s5.add("terminal_condition_runs", 9); if let Some(d) = terminal_conditions_differ(&args, &o.stdout) { ctx.violation("stdout_depends_on_terminal_conditions", key, json!({"kind":"git","repo":name}), d); } }
            }}}
            repo.remove();
        }
        // every work-tree state of the git model (modified, staged, untracked, ignored, renamed, mode change, gitlink moved, submodule states,
        // files named like revisions, stale index, unmerged paths left by a conflict ...) one commit ahead of the tag: git talks about some of these
        // states on its own stdout / stderr; zerv's stdout stays exactly one well-formed line
        let sw = WorkTree::ALL.par_iter().enumerate().map(|(i, &wt)| {
            let mut st = Stats::default();
            let mut repo = Repo::create(&root, &format!("wt{i}"), &shape, &gitx::dates(4, DateMode::Increasing));
            repo.set_tags(&[Tag { name: "v1.2.3".into(), target: 2, annotated: i % 2 == 0 }]);
            repo.set_head(&Head::Branch("main".into()));
            repo.set_worktree(wt, "f0");
            let dir = repo.dir.to_string_lossy().to_string();
            for sub in ["version", "flow"] { for fmt in ["semver", "pep440"] {
                let args: Vec<String> = [sub, "-C", &dir, "--output-format", fmt].iter().map(|s| s.to_string()).collect();
                let mut env = gitx::git_env(); for k in ["LD_PRELOAD", "ZERV_VERIF_NOW"] { if let Ok(v) = std::env::var(k) { env.push((k.into(), v)); } }
                let envr: Vec<(&str, &str)> = env.iter().map(|(k, v)| (k.as_str(), v.as_str())).collect();
                let o = zv::run_bin(&args, None, &envr, None);
                st.inc("process_conformance_cases"); st.inc("git_source_runs"); st.inc("git_worktree_state_runs");
                let out = o.stdout_str();
                let key = format!("[work tree {wt:?}] {}", args.join(" ").replace(&dir, "<repo>"));
                if o.status != 0 { ctx.violation("git_source_failed", key, json!({"kind":"git","worktree":format!("{wt:?}")}), truncate(&o.stderr_str(), 200)); continue; }
                if out.matches('\n').count() != 1 || !out.ends_with('\n') { ctx.violation("stdout_not_exactly_one_line", key, json!({"kind":"git","worktree":format!("{wt:?}")}), format!("stdout {:?}", truncate(&out, 200))); continue; }
                if let Some(why) = malformed(fmt, out.trim_end_matches('\n')) { ctx.violation(&format!("{fmt}_malformed"), key.clone(), json!({"kind":"git","worktree":format!("{wt:?}")}), format!("emitted {out:?}: {why}")); }
            }}
            repo.remove();
            st
        }).reduce(Stats::default, Stats::merge);
        s5 = s5.merge(sw);
        let _ = std::fs::remove_dir_all(&root);
    }
    // binary slice: exactly one line on stdout
    let slice: Vec<&(Vec<String>, Option<String>, &str, &str)> = cli_jobs.iter().step_by((cli_jobs.len() / 150).max(1)).collect();
    let bad: Vec<(String, String)> = slice.par_iter().filter_map(|(args, stdin, _fmt, _p)| {
        let r = zv::run_cli(args, stdin.as_deref());
        let o = zv::run_bin(args, stdin.as_deref(), &[], None);
        let mut errs = zv::conforms(&r, &o).err();
        if o.status == 0 && o.stdout_str().matches('\n').count() != 1 { errs = Some(format!("stdout is not exactly one line: {:?}", o.stdout_str())); }
        // the one-line clause holds whatever the log level: -v and RUST_LOG must leave stdout byte-identical
        if errs.is_none() && o.status == 0 {
            let mut va = vec!["-v".to_string()]; va.extend(args.iter().cloned());
            let ov = zv::run_bin(&va, stdin.as_deref(), &[], None);
            let oe = zv::run_bin(args, stdin.as_deref(), &[("RUST_LOG", "trace")], None);
            if ov.stdout != o.stdout || oe.stdout != o.stdout { errs = Some(format!("stdout changes with the log level: plain {:?}, -v {:?}, RUST_LOG=trace {:?}", o.stdout_str(), truncate(&ov.stdout_str(), 120), truncate(&oe.stdout_str(), 120))); }
        }
        if errs.is_none() && o.status == 0 && args.len() % 3 == 0 && stdin.is_none() { errs = terminal_conditions_differ(args, &o.stdout); }
        errs.map(|e| (format!("{args:?}"), e))
    }).collect();
    s5.add("process_conformance_cases", slice.len() as u64);
    for (k, e) in bad { ctx.violation("binary_differs_from_inprocess", k, json!({"kind":"proc"}), e); }

    let d = |()| for_each_string(&sigma10, 2, |x, _n, st| explore_text(&ctx, x, st)).digest;
    if d(()) != d(()) { machinery_error("determinism replay diverged"); }

    let all = s1.clone().merge(s2).merge(s3).merge(s4).merge(s5.clone()).merge(s6);
    let mut cov = Coverage::default();
    cov.states = all.get("texts") * POSITIONS.len() as u64 + all.get("numeric_cases") + all.get("cli_runs") + all.get("prefix_cases");
    cov.transitions = all.get("renders") + all.get("cli_runs");
    cov.evaluations = all.get("renders") + all.get("cli_runs") + all.get("rerender_checks");
    cov.traces_validated = cov.evaluations;
    cov.distinct_nontrivial = all.get("texts") + all.get("numeric_cases");
    cov.rule = format!("every string over {sigma10:?} up to length {l} plus {} special texts (zero-padded digit runs around u32/u64, 300-char text, control characters, case-folding look-alikes, combining marks) placed in each of {} text positions in turn, rendered under every preset that prints the position (of 22) and 7 custom schemas (text components in core / extra_core / build / leading / text-only / a core without any integer component / a literal-only core); 4 unset-variable assignments under every preset and custom schema in both formats via SemVer::from / PEP440::from; numbers [0,1,2^32-1,2^32,2^64-1] in 9 numeric variables; {} in-process CLI runs (sources none+stdin, --schema/--schema-ron, --custom, --output-prefix, overrides and bumps) and a binary slice; every --output-prefix over [space, v, TAB, -, é, 1] up to length 3 plus 11 special prefixes x version(none, stdin) / flow / render x both formats: stdout == prefix ++ unprefixed output. Oracle: ASCII + reference grammar (R-SV / R-PEP normal form) + accepted by zerv's own parser + re-render fixed point for presets. non-trivial = distinct texts / numeric cases", specials.len(), POSITIONS.len(), cli_jobs.len());
    cov.exhaustive = true;
    cov.samples = vec![json!({"text":"é-0","position":"branch","schema":"standard-context"}), json!({"text":"00012345678901234567890123","position":"custom","schema":"all_in_extra_core"}), json!(cli_jobs[cli_jobs.len() / 2].0)];
    cov.set("clause_counts", all.to_json());
    cov.set("process_conformance_cases", s5.get("process_conformance_cases"));
    cov.assumptions = vec!["reference grammars R-SV and R-PEP (validated in C08/C09)".into(), "alphabet, length bound and special-text pool as stated; git source is covered by C02's states, whose outputs are validated with the same predicate".into()];
    finish(&ctx, cov);
}
