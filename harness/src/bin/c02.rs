//! C02 — git state extraction is faithful to the repository history (real git, model-checked states).
use std::cmp::Ordering;
use std::str::FromStr;

use rayon::prelude::*;
use serde_json::json;
use zerv::version::Zerv;
use zvharness::gitx::{self, DateMode, Head, Repo, Shape, Tag, WorkTree};
use zvharness::refmodel::{malformed, pep440 as rp, semver as rsv};
use zvharness::zv::{self, Res};
use zvharness::*;

#[derive(Clone, Copy, PartialEq, Debug)]
enum Fmt { Sem, Pep }

fn sem_ok(t: &str) -> bool { rsv::accepts(t) && rsv::parse(t).map(|p| p.core.iter().all(|n| rsv::fits_u64(n))).unwrap_or(false) }
fn pep_ok(t: &str) -> bool { rp::parse(t).map(|p| p.numbers().iter().all(|n| rp::fits_u32(n))).unwrap_or(false) }

/// valid tags of one commit per format the input format admits. In auto mode the statement does not say how the
/// format is detected (the pinned code takes the format accepting more of the commit's tags, SemVer on ties), so a tag
/// is acceptable when it is a highest valid tag of its commit under *either* format: only what the statement fixes is
/// demanded.
fn valid_tags<'a>(tags: &[&'a Tag], input: &str) -> Vec<(Vec<&'a Tag>, Fmt)> {
    let sem: Vec<&Tag> = tags.iter().copied().filter(|t| sem_ok(&t.name)).collect();
    let pep: Vec<&Tag> = tags.iter().copied().filter(|t| pep_ok(&t.name)).collect();
    let mut v = vec![];
    if input != "pep440" && !sem.is_empty() { v.push((sem, Fmt::Sem)); }
    if input != "semver" && !pep.is_empty() { v.push((pep, Fmt::Pep)); }
    v
}

fn cmp_tag(a: &str, b: &str, f: Fmt) -> Ordering {
    match f { Fmt::Sem => rsv::cmp(&rsv::parse(a).unwrap(), &rsv::parse(b).unwrap()), Fmt::Pep => rp::cmp_c11(&rp::parse(a).unwrap(), &rp::parse(b).unwrap()) }
}

struct StateRef<'a> { shape: &'a Shape, tags: &'a [Tag], head: &'a Head, wt: WorkTree, repo: &'a Repo, label: String, /// directory given to -C when it is not the repository's main work tree (linked worktree, separate git dir)
    cdir: Option<std::path::PathBuf> }

fn head_commit(s: &StateRef) -> usize { match s.head { Head::Branch(b) => s.shape.branches[b], Head::Detached(c) => *c } }

/// Judge one materialised state under one input format.
fn judge(ctx: &Ctx, s: &StateRef, input: &str, st: &mut Stats) -> Option<(String, u64)> {
    st.inc("evaluations");
    let dir = s.cdir.as_ref().unwrap_or(&s.repo.dir).to_string_lossy().to_string();
    let args = ["version", "-C", &dir, "--input-format", input, "--output-format", "zerv"];
    let r = zv::run_cli(&args, None);
    let key = format!("{} [input-format {input}]", s.label);
    let case = json!({"kind":"git","ops":s.shape.ops,"tags":s.tags.iter().map(|t| json!({"name":t.name,"commit":t.target,"annotated":t.annotated})).collect::<Vec<_>>(),"head":format!("{:?}", s.head),"worktree":format!("{:?}", s.wt),"dates":s.repo.dates,"input_format":input,"sha256":s.repo.sha256});
    let hc = head_commit(s);
    let reach = s.shape.ancestors_or_self(hc);
    // nearest validly tagged commits
    let per_commit: Vec<(usize, Vec<(Vec<&Tag>, Fmt)>)> = reach.iter().map(|&c| { let ts: Vec<&Tag> = s.tags.iter().filter(|t| t.target == c).collect(); (c, valid_tags(&ts, input)) }).filter(|x| !x.1.is_empty()).collect();
    let nearest: Vec<&(usize, Vec<(Vec<&Tag>, Fmt)>)> = per_commit.iter().filter(|(c, _)| !per_commit.iter().any(|(d, _)| d != c && s.shape.ancestors_or_self(*d).contains(c))).collect();
    let out = match r {
        Err(p) => { ctx.violation(&format!("panic@{}", p.file()), key, case, format!("{} at {}", p.message, p.location)); return None; }
        Ok(Res::Ok(o)) => o,
        Ok(other) => {
            if nearest.is_empty() { st.inc("no_tag_reported_as_such"); } else { ctx.violation("valid_tag_not_found", key, case, format!("{other:?}; nearest tagged commits {:?}", nearest.iter().map(|n| n.0).collect::<Vec<_>>())); }
            return None;
        }
    };
    st.observe(&(&key, out.len()));
    if nearest.is_empty() { ctx.violation("version_without_valid_tag", key, case, "a repository without a valid version tag reachable from HEAD was given a version".into()); return None; }
    let z = match Zerv::from_str(&out) { Ok(z) => z, Err(e) => { ctx.violation("unreadable_output", key, case, e.to_string()); return None; } };
    let v = &z.vars;
    let tag = v.last_tag_version.clone().unwrap_or_default();
    st.inc("tagged_evaluations");
    let mut diffs: Vec<(&str, String)> = vec![];
    let tagged = s.tags.iter().find(|t| t.name == tag);
    match tagged {
        None => diffs.push(("base_tag_unknown", format!("reported tag {tag:?} does not exist"))),
        Some(t) => {
            if !reach.contains(&t.target) { diffs.push(("base_tag_unreachable", format!("tag {tag} is on commit {} which is not reachable from HEAD (commit {hc})", t.target))); }
            else {
                match nearest.iter().find(|n| n.0 == t.target) {
                    None => diffs.push(("base_tag_not_nearest", format!("tag {tag} (commit {}) is not on a nearest validly tagged commit; nearest: {:?}", t.target, nearest.iter().map(|n| (n.0, n.1.iter().flat_map(|f| f.0.iter().map(|t| t.name.as_str())).collect::<Vec<_>>())).collect::<Vec<_>>()))),
                    Some(n) => {
                        let fmts: Vec<&(Vec<&Tag>, Fmt)> = n.1.iter().filter(|(ts, _)| ts.iter().any(|x| x.name == tag)).collect();
                        if fmts.is_empty() { diffs.push(("base_tag_not_valid_for_format", format!("tag {tag} is not valid under the format in effect"))); }
                        else if fmts.iter().all(|(ts, f)| ts.iter().any(|x| cmp_tag(&x.name, &tag, *f) == Ordering::Greater)) { diffs.push(("base_tag_not_highest", format!("tag {tag} chosen although commit {} also carries {:?}", t.target, fmts.iter().flat_map(|f| f.0.iter().map(|t| t.name.as_str())).collect::<Vec<_>>()))); }
                    }
                }
                let want_dist = reach.difference(&s.shape.ancestors_or_self(t.target)).count() as u64;
                if v.distance != Some(want_dist) { diffs.push(("distance_mismatch", format!("distance {:?}, history says {want_dist} (tag {tag} on commit {})", v.distance, t.target))); }
                let want_hash = format!("g{}", s.repo.shas[t.target]);
                if v.last_commit_hash.as_deref() != Some(&want_hash) { diffs.push(("tag_commit_hash_mismatch", format!("last_commit_hash {:?}, tagged commit is {want_hash}", v.last_commit_hash))); }
                if v.last_timestamp != Some(s.repo.dates[t.target] as u64) { diffs.push(("tag_commit_time_mismatch", format!("last_timestamp {:?}, tagged commit's time is {}", v.last_timestamp, s.repo.dates[t.target]))); }
            }
        }
    }
    if v.dirty != Some(s.wt.dirty()) { diffs.push(("dirty_mismatch", format!("dirty {:?}, work tree is {:?}", v.dirty, s.wt))); }
    let want_branch = match s.head { Head::Branch(b) => Some(b.clone()), Head::Detached(_) => None };
    if v.bumped_branch != want_branch { diffs.push(("branch_mismatch", format!("branch {:?}, HEAD is {:?}", v.bumped_branch, s.head))); }
    let want_head = format!("g{}", s.repo.shas[hc]);
    if v.bumped_commit_hash.as_deref() != Some(&want_head) { diffs.push(("head_hash_mismatch", format!("bumped_commit_hash {:?}, HEAD is {want_head}", v.bumped_commit_hash))); }
    // a dirty tree replaces the commit time by the (pinned) wall clock by design
    if !s.wt.dirty() && v.bumped_timestamp != Some(s.repo.dates[hc] as u64) { diffs.push(("head_time_mismatch", format!("bumped_timestamp {:?}, HEAD commit time is {}", v.bumped_timestamp, s.repo.dates[hc]))); }
    for (class, d) in &diffs { ctx.violation(class, key.clone(), case.clone(), d.clone()); }
    if diffs.is_empty() { tagged.map(|t| (tag.clone(), reach.difference(&s.shape.ancestors_or_self(t.target)).count() as u64)) } else { None }
}

/// C01 cross-feed: the rendered version for this state is well-formed in both formats
fn judge_rendered(ctx: &Ctx, s: &StateRef, st: &mut Stats) {
    let dir = s.repo.dir.to_string_lossy().to_string();
    for fmt in ["semver", "pep440"] {
        st.inc("render_evaluations");
        if let Ok(Res::Ok(o)) = zv::run_cli(&["version", "-C", &dir, "--output-format", fmt], None) {
            if let Some(why) = malformed(fmt, &o) { ctx.violation("rendered_version_malformed", format!("{} [{fmt}]", s.label), json!({"kind":"git-render"}), format!("{o:?}: {why}")); }
        }
    }
}

fn tag_alphabet(full: bool) -> Vec<(&'static str, bool)> {
    let mut v = vec![("v1.0.0", false), ("v2.0.0", false), ("v0.5.0", true), ("1.5.0rc1", false)];
    if full { v.push(("nonversion", false)); }
    v
}

/// all partial placements of at most `max` distinct tag names on commits
fn labelings(n_commits: usize, alpha: &[(&'static str, bool)], max: usize) -> Vec<Vec<Tag>> {
    let mut out: Vec<Vec<Tag>> = vec![vec![]];
    fn go(i: usize, n: usize, alpha: &[(&'static str, bool)], max: usize, cur: &mut Vec<Tag>, out: &mut Vec<Vec<Tag>>) {
        if i == alpha.len() { return; }
        go(i + 1, n, alpha, max, cur, out);
        if cur.len() < max {
            for c in 0..n {
                cur.push(Tag { name: alpha[i].0.to_string(), target: c, annotated: alpha[i].1 });
                out.push(cur.clone());
                go(i + 1, n, alpha, max, cur, out);
                cur.pop();
            }
        }
    }
    go(0, n_commits, alpha, max, &mut vec![], &mut out);
    out.sort(); out.dedup();
    out
}

fn main() {
    // isolate every git child zerv spawns in-process from user/system configuration
    for (k, v) in gitx::git_env() { unsafe { std::env::set_var(k, v) }; }
    let ctx = Ctx::from_args("C02", "model_checking");
    let _ = ctx.pinned_now();
    let quick = ctx.quick();
    let root = gitx::scratch_root();
    let _ = std::fs::remove_dir_all(&root);
    std::fs::create_dir_all(&root).unwrap_or_else(|e| machinery_error(&format!("scratch: {e}")));
    if let Some(case) = ctx.replay_case() {
        // rebuild exactly the recorded repository state and judge it alone
        let ops: Vec<String> = case["ops"].as_array().map(|v| v.iter().filter_map(|x| x.as_str().map(String::from)).collect()).unwrap_or_default();
        let shape = gitx::shape_from_ops(&ops).unwrap_or_else(|e| machinery_error(&format!("replay: {e}")));
        let dates: Vec<i64> = case["dates"].as_array().map(|v| v.iter().filter_map(|x| x.as_i64()).collect()).unwrap_or_else(|| gitx::dates(shape.parents.len(), DateMode::Increasing));
        let tags: Vec<Tag> = case["tags"].as_array().map(|v| v.iter().map(|t| Tag { name: t["name"].as_str().unwrap_or("").to_string(), target: t["commit"].as_u64().unwrap_or(0) as usize, annotated: t["annotated"].as_bool().unwrap_or(false) }).collect()).unwrap_or_default();
        let hs = case["head"].as_str().unwrap_or("");
        let head = if let Some(r) = hs.strip_prefix("Detached(") { Head::Detached(r.trim_end_matches(')').parse().unwrap_or(0)) } else { Head::Branch(hs.trim_start_matches("Branch(\"").trim_end_matches("\")").to_string()) };
        let wt = WorkTree::ALL.into_iter().find(|w| format!("{w:?}") == case["worktree"].as_str().unwrap_or("Clean")).unwrap_or(WorkTree::Clean);
        let mut repo = Repo::create_fmt(&root, "replay", &shape, &dates, case["sha256"].as_bool().unwrap_or(false));
        repo.set_tags(&tags); repo.set_head(&head); repo.set_worktree(wt, "f0");
        let mut st = Stats::default();
        let sr = StateRef { shape: &shape, tags: &tags, head: &head, wt, repo: &repo, label: format!("replay ops {ops:?} tags {:?} head {head:?} worktree {wt:?}", tags.iter().map(|t| format!("{}@{}", t.name, t.target)).collect::<Vec<_>>()), cdir: None };
        judge(&ctx, &sr, case["input_format"].as_str().unwrap_or("auto"), &mut st);
        println!("replayed 1 repository state ({} git evaluations)", st.get("evaluations"));
        repo.remove();
        let _ = std::fs::remove_dir_all(&root);
        finish(&ctx, Coverage::default());
    }

    let mut layer_secs: Vec<(&str, f64)> = vec![];
    // layer A: shapes
    let (nc, nb) = if quick { (4, 1) } else { (4, 2) };
    let (all_shapes, shape_transitions) = gitx::explore_shapes(nc, nb);
    // quick keeps every shape with <= 3 commits and the merge shapes with 4
    // cross-check of the explorer itself (not of zerv): stateright's BFS over the same operation system and
    // bounds must reach the same number of unique states
    let sr_states = gitx::sr::unique_states(nc, nb);
    if sr_states != all_shapes.len() { machinery_error(&format!("shape explorer disagrees with stateright: {} vs {sr_states} unique states", all_shapes.len())); }
    // HEAD is enumerated separately in layer B, so shapes differing only in the branch checked out during
    // construction describe the same set of repositories: one representative per (DAG, branch refs)
    let mut seen_dag = std::collections::BTreeSet::new();
    let shapes: Vec<&Shape> = all_shapes.iter().filter(|s| seen_dag.insert((s.parents.clone(), s.branches.clone()))).filter(|s| !quick || s.parents.len() <= 3 || s.has_merge()).collect();
    // histories outside the BFS alphabet (merge commits where a fast-forward was possible, criss-cross and octopus merges): one
    // version name on every commit in turn (thorough: two names, two tags)
    let specials = gitx::special_shapes();
    let n_bfs_shapes = shapes.len();
    let shapes: Vec<&Shape> = shapes.into_iter().chain(specials.iter()).collect();
    let alpha = tag_alphabet(!quick);
    let tmax = if quick { 2 } else { 2 };
    let wall_cap = std::time::Duration::from_secs(if quick { 240 } else { 1500 });
    let capped = std::sync::atomic::AtomicBool::new(false);

    // work units: (shape, date mode, chunk of labelings) — each unit owns one materialised repository
    struct Unit<'a> { si: usize, shape: &'a Shape, mi: usize, mode: DateMode, labelings: Vec<Vec<Tag>>, first_of_shape: bool }
    let mut units: Vec<Unit> = vec![];
    for (si, shape) in shapes.iter().enumerate() {
        let n = shape.parents.len();
        let modes: Vec<DateMode> = if shape.has_merge() && quick { vec![DateMode::Increasing, DateMode::ZigZag, DateMode::Equal] } else if shape.has_merge() { vec![DateMode::Increasing, DateMode::Decreasing, DateMode::ZigZag, DateMode::Equal] } else if quick { vec![DateMode::Increasing] } else { vec![DateMode::Increasing, DateMode::Decreasing] };
        // quick: 4-commit shapes get the three plain version names only (the PEP 440-only name is covered on smaller shapes and in layer C)
        let special = si >= n_bfs_shapes;
        let a: Vec<(&'static str, bool)> = if special { alpha.iter().take(if quick { 1 } else { 2 }).cloned().collect() } else if quick && n >= 4 { alpha.iter().take(3).cloned().collect() } else { alpha.clone() };
        let labs = labelings(n, &a, if special && quick { 1 } else { tmax });
        let modes: Vec<DateMode> = if special && quick { vec![DateMode::Increasing, DateMode::Equal] } else { modes };
        for (mi, mode) in modes.iter().enumerate() {
            for (ci, chunk) in labs.chunks(24).enumerate() {
                units.push(Unit { si, shape, mi, mode: *mode, labelings: chunk.to_vec(), first_of_shape: mi == 0 && ci == 0 });
            }
        }
    }
    let s_main = units.par_iter().enumerate().map(|(ui, u)| {
        let mut st = Stats::default();
        if u.first_of_shape { st.inc("shapes"); if u.shape.has_merge() { st.inc("merge_shapes"); } }
        if ctx.start.elapsed() > wall_cap { capped.store(true, std::sync::atomic::Ordering::Relaxed); return st; }
        let shape = u.shape;
        let n = shape.parents.len();
        let mut repo = Repo::create(&root, &format!("u{ui}s{}m{}", u.si, u.mi), shape, &gitx::dates(n, u.mode));
        st.inc("repos_materialised");
        // HEAD positions: every branch tip attached; detached at every commit (first date mode only)
        let mut heads: Vec<Head> = shape.branches.keys().map(|b| Head::Branch(b.clone())).collect();
        if u.mi == 0 { heads.extend((0..n).map(Head::Detached)); }
        for tags in &u.labelings {
            repo.set_tags(tags);
            st.inc("labelings");
            for head in &heads {
                repo.set_head(head);
                st.inc("states");
                let label = format!("ops {:?} dates {:?} tags {:?} head {:?}", shape.ops, u.mode, tags.iter().map(|t| format!("{}@{}{}", t.name, t.target, if t.annotated { "(annotated)" } else { "" })).collect::<Vec<_>>(), head);
                let sr = StateRef { shape, tags, head, wt: WorkTree::Clean, repo: &repo, label, cdir: None };
                // all three input formats on states that carry a tag only one format accepts; auto otherwise
                let inputs: &[&str] = if tags.iter().any(|t| t.name == "1.5.0rc1") || tags.is_empty() { &["auto", "semver", "pep440"] } else { &["auto"] };
                for input in inputs { judge(&ctx, &sr, input, &mut st); }
                if tags.len() == 1 && matches!(head, Head::Branch(_)) && u.mi == 0 { judge_rendered(&ctx, &sr, &mut st); }
            }
        }
        repo.remove();
        st
    }).reduce(Stats::default, Stats::merge);

    layer_secs.push(("AB", ctx.start.elapsed().as_secs_f64()));
    // layer C: per-commit tag logic — every subset of 8 names on one commit, HEAD on it / one commit after
    let names8: [(&str, bool); 8] = [("v1.0.0", false), ("1.0.0", false), ("v1.1.0", true), ("v1.1.0-rc.1", false), ("1.1.0rc1", false), ("1.1.0.post1", false), ("v1.1.0+build", false), ("nonversion", false)];
    let linear = Shape { parents: vec![vec![], vec![0], vec![1]], branches: [("main".to_string(), 2)].into_iter().collect(), cur: "main".into(), ops: vec!["commit".into(), "commit".into()] };
    let max_subset = if quick { 4 } else { 8 };
    let subsets: Vec<u32> = (0u32..256).filter(|m| (m.count_ones() as usize) <= max_subset).collect();
    // (every chunk of subsets alternately in a SHA-1 and a SHA-256 repository; thorough: both)
    let fmt_chunks: Vec<(usize, &[u32], bool)> = subsets.chunks(16).enumerate().flat_map(|(ci, c)| if quick { vec![(ci, c, ci % 2 == 1)] } else { vec![(ci, c, false), (ci, c, true)] }).collect();
    let s_c = fmt_chunks.par_iter().map(|&(ci, chunk, sha256)| {
        let mut st = Stats::default();
        let mut repo = Repo::create_fmt(&root, &format!("c{ci}{}", if sha256 { "x" } else { "" }), &linear, &gitx::dates(3, DateMode::Increasing), sha256);
        if sha256 { st.inc("sha256_repositories"); }
        // nested annotated tags (a tag of a tag, of a tag): the quick tier nests in every fourth chunk (depth 2) and the one after
        // it (depth 3); the thorough tier repeats every chunk at depths 1, 2, 3
        let depths: Vec<usize> = if quick { vec![match ci % 4 { 2 => 2, 3 => 3, _ => 1 }] } else { vec![1, 2, 3] };
        for &depth in &depths {
        repo.set_nesting(depth);
        if depth > 1 { st.inc("nested_tag_chunks"); }
        for &mask in chunk {
            let tags: Vec<Tag> = (0..8).filter(|i| mask & (1 << i) != 0).map(|i| Tag { name: names8[i].0.to_string(), target: 1, annotated: names8[i].1 }).collect();
            repo.set_tags(&tags);
            for head in [Head::Detached(1), Head::Branch("main".into())] {
                repo.set_head(&head);
                st.inc("states"); st.inc("per_commit_states");
                let label = format!("tags on one commit {:?} head {:?}{}{}", tags.iter().map(|t| t.name.as_str()).collect::<Vec<_>>(), head, if sha256 { " [sha256 object format]" } else { "" }, if depth > 1 { format!(" [annotated tags nested {depth} deep]") } else { String::new() });
                let sr = StateRef { shape: &linear, tags: &tags, head: &head, wt: WorkTree::Clean, repo: &repo, label, cdir: None };
                for input in ["auto", "semver", "pep440"] { judge(&ctx, &sr, input, &mut st); }
            }
        }
        }
        repo.remove();
        st
    }).reduce(Stats::default, Stats::merge);

    layer_secs.push(("C", ctx.start.elapsed().as_secs_f64()));
    // layer D: work tree states x baseline repositories
    let baselines: Vec<(&Shape, Vec<Tag>, Head)> = {
        let mut v: Vec<(&Shape, Vec<Tag>, Head)> = vec![];
        v.push((&linear, vec![Tag { name: "v1.0.0".into(), target: 2, annotated: false }], Head::Branch("main".into())));
        v.push((&linear, vec![Tag { name: "v1.0.0".into(), target: 0, annotated: true }], Head::Branch("main".into())));
        v.push((&linear, vec![Tag { name: "v1.0.0".into(), target: 1, annotated: false }], Head::Detached(1)));
        v.push((&linear, vec![], Head::Branch("main".into())));
        if let Some(m) = all_shapes.iter().find(|s| s.has_merge()) { v.push((m, vec![Tag { name: "1.5.0rc1".into(), target: 0, annotated: false }], Head::Branch(m.cur.clone()))); }
        v
    };
    let s_d = baselines.par_iter().enumerate().map(|(bi, (shape, tags, head))| {
        let mut st = Stats::default();
        // the second baseline lives in a SHA-256 repository
        let mut repo = Repo::create_fmt(&root, &format!("d{bi}"), shape, &gitx::dates(shape.parents.len(), DateMode::Increasing), bi == 1);
        repo.set_tags(tags);
        for wt in WorkTree::ALL {
            // (a SHA-1 repository nested in a SHA-256 superproject is not a sub-module git can compare: those states stay SHA-1 only)
            if repo.sha256 && matches!(wt, WorkTree::GitlinkMoved | WorkTree::GitlinkMovedStaged | WorkTree::SubmoduleCheckedOutClean | WorkTree::SubmoduleUntrackedInside | WorkTree::SubmoduleModifiedInside) { continue; }
            repo.set_head(head);
            repo.reset_worktree();
            let tracked = format!("f{}", 0);
            repo.set_worktree(wt, &tracked);
            st.inc("states"); st.inc("worktree_states");
            let label = format!("worktree {wt:?} on ops {:?} tags {:?} head {head:?}{}", shape.ops, tags.iter().map(|t| t.name.as_str()).collect::<Vec<_>>(), if repo.sha256 { " [sha256 object format]" } else { "" });
            let sr = StateRef { shape, tags, head, wt, repo: &repo, label, cdir: None };
            for input in ["auto", "pep440"] { judge(&ctx, &sr, input, &mut st); }
            repo.reset_worktree();
        }
        repo.remove();
        st
    }).reduce(Stats::default, Stats::merge);

    layer_secs.push(("D", ctx.start.elapsed().as_secs_f64()));
    // layer E: reference names — branch names with '/', '.', non-ASCII, and names that collide with a tag name
    let branch_names = ["feature/x", "release/1.2", "v1.0.0", "stable", "a.b-c_d", "fé", "1.5.0rc1", "heads/main", "tags/v1.0.0", "HEAD2", "main/sub"];
    let s_e = branch_names.par_iter().enumerate().map(|(bi, name)| {
        let mut st = Stats::default();
        // "main/sub" cannot coexist with "main" (ref directory/file conflict): the other branch is called "trunk" there
        let other = if name.starts_with("main/") { "trunk" } else { "main" };
        let shape = Shape { parents: vec![vec![], vec![0], vec![1]], branches: [(other.to_string(), 1), (name.to_string(), 2)].into_iter().collect(), cur: name.to_string(), ops: vec!["commit".into(), format!("branch {name}"), "commit".into()] };
        let mut repo = Repo::create(&root, &format!("e{bi}"), &shape, &gitx::dates(3, DateMode::Increasing));
        let base = Tag { name: "v1.0.0".into(), target: 0, annotated: false };
        let mut tagsets: Vec<Vec<Tag>> = vec![vec![base.clone()]];
        if *name != "v1.0.0" {
            // a tag with the branch's own short name, lightweight and annotated, on the middle commit and on the tip
            for (target, annotated) in [(1, false), (2, false), (1, true)] { tagsets.push(vec![base.clone(), Tag { name: name.to_string(), target, annotated }]); }
        }
        for (ti, tags) in tagsets.iter().enumerate() {
            repo.set_tags(tags);
            // every other tag set is stored as packed refs (what `git gc` / a fresh clone leaves behind)
            if ti % 2 == 1 { gitx::git(&repo.dir, &["pack-refs", "--all"], None); st.inc("packed_ref_states"); }
            for head in [Head::Branch(name.to_string()), Head::Branch(other.to_string()), Head::Detached(2)] {
                repo.set_head(&head);
                st.inc("states"); st.inc("refname_states");
                let label = format!("branch {name:?} tags {:?} head {:?}", tags.iter().map(|t| format!("{}@{}{}", t.name, t.target, if t.annotated { "(annotated)" } else { "" })).collect::<Vec<_>>(), head);
                let sr = StateRef { shape: &shape, tags, head: &head, wt: WorkTree::Clean, repo: &repo, label, cdir: None };
                for input in ["auto", "semver", "pep440"] { judge(&ctx, &sr, input, &mut st); }
            }
        }
        // a remote-tracking ref with the branch's own short name (refs/remotes/<name>): another way for a short name to be ambiguous
        {
            let tags = vec![base.clone()];
            repo.set_tags(&tags);
            gitx::git(&repo.dir, &["update-ref", &format!("refs/remotes/{name}"), &repo.shas[0]], None);
            for head in [Head::Branch(name.to_string()), Head::Detached(2)] {
                repo.set_head(&head);
                st.inc("states"); st.inc("refname_states");
                let label = format!("branch {name:?} with remote-tracking ref refs/remotes/{name}, tags [\"v1.0.0@0\"] head {head:?}");
                let sr = StateRef { shape: &shape, tags: &tags, head: &head, wt: WorkTree::Clean, repo: &repo, label, cdir: None };
                for input in ["auto", "semver"] { judge(&ctx, &sr, input, &mut st); }
            }
        }
        repo.remove();
        st
    }).reduce(Stats::default, Stats::merge);

    layer_secs.push(("E", ctx.start.elapsed().as_secs_f64()));
    // layer F: checkout kinds whose `.git` is a file, not a directory - a linked worktree (`git worktree add`), also nested
    // inside the main work tree, and a work tree with a separate git directory; the facts are those of *that* checkout
    let s_f = {
        let mut st = Stats::default();
        let shape = Shape { parents: vec![vec![], vec![0], vec![1], vec![1]], branches: [("main".to_string(), 2), ("feature/x".to_string(), 3)].into_iter().collect(), cur: "main".into(), ops: vec!["commit".into(), "branch feature/x".into(), "commit".into(), "checkout main".into(), "commit".into()] };
        let mut repo = Repo::create(&root, "lw_main", &shape, &gitx::dates(4, DateMode::Increasing));
        let tags = vec![Tag { name: "v1.0.0".into(), target: 0, annotated: false }, Tag { name: "v2.0.0".into(), target: 2, annotated: true }];
        repo.set_tags(&tags);
        repo.set_head(&Head::Branch("main".into()));
        for (kind, path) in [("linked worktree beside the repository", root.join("lw_side")), ("linked worktree nested in the main work tree", repo.dir.join("ignored_nested_wt"))] {
            gitx::git(&repo.dir, &["worktree", "add", "-q", "-f", path.to_str().unwrap(), "feature/x"], None);
            for wt in [WorkTree::Clean, WorkTree::Untracked] {
                if wt == WorkTree::Untracked { std::fs::write(path.join("untracked.txt"), "x").unwrap(); }
                let head = Head::Branch("feature/x".into());
                st.inc("states"); st.inc("checkout_kind_states");
                let sr = StateRef { shape: &shape, tags: &tags, head: &head, wt, repo: &repo, label: format!("{kind}, {wt:?}: branch feature/x at commit 3, tags v1.0.0@0 v2.0.0@2 (main work tree on main at commit 2)"), cdir: Some(path.clone()) };
                for input in ["auto", "semver"] { judge(&ctx, &sr, input, &mut st); }
            }
            gitx::git(&repo.dir, &["worktree", "remove", "--force", path.to_str().unwrap()], None);
        }
        // the main work tree itself must be unaffected by having had linked worktrees
        { let head = Head::Branch("main".into()); let sr = StateRef { shape: &shape, tags: &tags, head: &head, wt: WorkTree::Clean, repo: &repo, label: "main work tree after linked worktrees".into(), cdir: None }; st.inc("states"); judge(&ctx, &sr, "auto", &mut st); }
        repo.remove();
        // separate git directory: `.git` is a file pointing elsewhere
        {
            let linear2 = Shape { parents: vec![vec![], vec![0]], branches: [("main".to_string(), 1)].into_iter().collect(), cur: "main".into(), ops: vec!["commit".into()] };
            let mut r2 = Repo::create(&root, "sep_src", &linear2, &gitx::dates(2, DateMode::Increasing));
            let tags2 = vec![Tag { name: "v1.2.3".into(), target: 0, annotated: true }];
            r2.set_tags(&tags2);
            r2.set_head(&Head::Branch("main".into()));
            let gd = root.join("sep_gitdir");
            let _ = std::fs::remove_dir_all(&gd);
            std::fs::rename(r2.dir.join(".git"), &gd).unwrap_or_else(|e| machinery_error(&format!("separate git dir: {e}")));
            std::fs::write(r2.dir.join(".git"), format!("gitdir: {}\n", gd.display())).unwrap();
            let head = Head::Branch("main".into());
            st.inc("states"); st.inc("checkout_kind_states");
            let sr = StateRef { shape: &linear2, tags: &tags2, head: &head, wt: WorkTree::Clean, repo: &r2, label: "work tree with a separate git directory (.git is a file)".into(), cdir: None };
            for input in ["auto", "pep440"] { judge(&ctx, &sr, input, &mut st); }
            let _ = std::fs::remove_dir_all(&gd);
            r2.remove();
        }
        st
    };

    // process conformance slice: the real binary with -C, absolute and relative, from another cwd
    let mut s_p = Stats::default();
    {
        let mut repo = Repo::create(&root, "proc", &linear, &gitx::dates(3, DateMode::Increasing));
        repo.set_tags(&[Tag { name: "v1.2.3".into(), target: 1, annotated: true }]);
        repo.set_head(&Head::Branch("main".into()));
        let dir = repo.dir.to_string_lossy().to_string();
        for extra in [vec![], vec!["--output-format", "pep440"], vec!["--output-format", "zerv"], vec!["--input-format", "semver", "--schema", "calver"]] {
            let mut args = vec!["version", "-C", &dir]; args.extend(extra.iter());
            let r = zv::run_cli(&args, None);
            let o = zv::run_bin(&args, None, &[], Some(std::path::Path::new("/")));
            s_p.inc("process_conformance_cases");
            if let Err(e) = zv::conforms(&r, &o) { ctx.violation("binary_differs_from_inprocess", args.join(" "), json!({"kind":"proc"}), e); }
            // relative -C from the parent directory and plain cwd inside the repository
            let o2 = zv::run_bin(&[&["version", "-C", "proc"], &extra[..]].concat(), None, &[], Some(&root));
            let o3 = zv::run_bin(&[&["version"], &extra[..]].concat(), None, &[], Some(&repo.dir));
            s_p.inc("process_conformance_cases");
            if o2.stdout != o.stdout || o3.stdout != o.stdout { ctx.violation("cwd_dependence", args.join(" "), json!({"kind":"proc"}), format!("abs {:?} rel {:?} cwd {:?}", o.stdout_str(), o2.stdout_str(), o3.stdout_str())); }
        }
        repo.remove();
    }
    layer_secs.push(("F", ctx.start.elapsed().as_secs_f64()));
    // layer G: long histories - the nearest tag lies tens of thousands of commits behind HEAD (any cap on how much history
    // is listed or counted, any narrow counter, shows here and only here)
    let mut s_g = Stats::default();
    {
        let n = if quick { 100_001usize } else { 300_001 };
        let ops: Vec<String> = vec!["commit".to_string(); n - 1];
        let shape = gitx::shape_from_ops(&ops).unwrap_or_else(|e| machinery_error(&e));
        let mut repo = Repo::create(&root, "long", &shape, &gitx::dates(n, DateMode::Increasing));
        let mid = n / 2;
        let placements: Vec<(Vec<Tag>, Head)> = vec![
            (vec![Tag { name: "v1.0.0".into(), target: 0, annotated: false }], Head::Branch("main".into())),
            (vec![Tag { name: "v1.0.0".into(), target: 0, annotated: true }], Head::Detached(10_000)),
            (vec![Tag { name: "v1.0.0".into(), target: 0, annotated: false }, Tag { name: "not-a-version".into(), target: n - 2, annotated: false }], Head::Detached(70_000)),
            (vec![Tag { name: "v1.0.0".into(), target: 0, annotated: false }, Tag { name: "v1.1.0".into(), target: mid, annotated: true }, Tag { name: "v9.0.0".into(), target: n - 1, annotated: false }], Head::Detached(n - 2)),
        ];
        for (tags, head) in &placements {
            repo.set_tags(tags);
            repo.set_head(head);
            s_g.inc("states"); s_g.inc("long_history_states");
            let sr = StateRef { shape: &shape, tags, head, wt: WorkTree::Clean, repo: &repo, label: format!("long history of {n} commits, tags {:?} head {head:?}", tags.iter().map(|t| format!("{}@{}", t.name, t.target)).collect::<Vec<_>>()), cdir: None };
            judge(&ctx, &sr, "auto", &mut s_g);
        }
        repo.remove();
    }
    // layer H: crowded repositories - tens to hundreds of version tags on each of several commits (written in an order in
    // which the greatest is neither the first nor the last name git lists), hundreds of higher-versioned tags on a side
    // branch that HEAD cannot reach, non-version names in between; HEAD on main's tip, between and below the tagged commits,
    // and on the side branch. Thresholds in the number of candidates per commit or of refs in the repository show here.
    let mut s_h = Stats::default();
    {
        let mut ops: Vec<String> = vec!["commit".to_string(); 10];
        ops.push("branch side".into()); ops.extend(vec!["commit".to_string(); 6]);
        ops.push("checkout main".into()); ops.extend(vec!["commit".to_string(); 20]);
        let shape = gitx::shape_from_ops(&ops).unwrap_or_else(|e| machinery_error(&e));
        let n = shape.parents.len();
        let mut repo = Repo::create(&root, "crowd", &shape, &gitx::dates(n, DateMode::Increasing));
        let main_tagged = [0usize, 5, 10, 20, 30];
        let side_commits: Vec<usize> = (11..=16).collect();
        let counts: &[usize] = if quick { &[12, 33, 65, 130] } else { &[1, 2, 9, 10, 11, 12, 31, 32, 33, 63, 64, 65, 99, 100, 101, 127, 128, 129, 255, 256, 257, 600] };
        for &k in counts {
            let mut tags: Vec<Tag> = vec![];
            for &c in &main_tagged {
                for j in 0..k {
                    // third number j: 9 < 10 < 100 numerically but "v1.c.10" < "v1.c.9" as text; a pre-release and a build spelling mixed in
                    let name = match j % 11 { 3 => format!("v1.{c}.{j}-rc.{j}"), 7 => format!("1.{c}.{j}"), _ => format!("v1.{c}.{j}") };
                    tags.push(Tag { name, target: c, annotated: j % 7 == 0 });
                }
                tags.push(Tag { name: format!("build-{c}"), target: c, annotated: false });
                tags.push(Tag { name: format!("v1.{c}"), target: c, annotated: false });
            }
            for &c in &side_commits { for j in 0..k { tags.push(Tag { name: format!("v9.{c}.{j}"), target: c, annotated: j % 5 == 0 }); } }
            repo.set_tags(&tags);
            for head in [Head::Branch("main".into()), Head::Detached(30), Head::Detached(25), Head::Detached(10), Head::Detached(3), Head::Branch("side".into()), Head::Detached(13)] {
                repo.set_head(&head);
                s_h.inc("states"); s_h.inc("crowded_states");
                let sr = StateRef { shape: &shape, tags: &tags, head: &head, wt: WorkTree::Clean, repo: &repo, label: format!("crowded repository: {k} version tags on each of commits {main_tagged:?} and on side commits 11..16 ({} tags), head {head:?}", tags.len()), cdir: None };
                for input in ["auto", "semver"] { judge(&ctx, &sr, input, &mut s_h); }
            }
        }
        repo.remove();
    }
    layer_secs.push(("H", ctx.start.elapsed().as_secs_f64()));
    let _ = std::fs::remove_dir_all(&root);

    layer_secs.push(("G+process", ctx.start.elapsed().as_secs_f64()));
    let all = s_main.merge(s_c).merge(s_g).merge(s_h).merge(s_d).merge(s_e).merge(s_f).merge(s_p.clone());
    let was_capped = capped.load(std::sync::atomic::Ordering::Relaxed);
    let mut cov = Coverage::default();
    cov.states = all.get("states");
    cov.transitions = shape_transitions + all.get("labelings") + all.get("states");
    cov.evaluations = all.get("evaluations") + all.get("render_evaluations");
    cov.traces_validated = all.get("states");
    cov.distinct_nontrivial = all.get("tagged_evaluations");
    cov.rule = format!("layer A: BFS over commit / branch&checkout / checkout / merge(ff or true merge) from a one-commit repository, commits <= {nc}, extra branches <= {nb}: {} distinct shapes ({} used{}), {} explorer transitions; layer B: every placement of <= {tmax} tags from {:?} on any commits x HEAD at every branch tip and detached at every commit x date modes (increasing; zig-zag and all-equal for merge shapes, thorough also decreasing); layer C: every subset of <= {max_subset} of 8 names {:?} on one commit x 2 HEAD positions x 3 input formats, the chunks of subsets alternately (thorough: both) in SHA-1 and SHA-256 repositories (64-digit object names), annotated tags written as ordinary tag objects or nested 2 and 3 deep (a tag of a tag; quick: every fourth chunk each, thorough: all); layer D: 30 work-tree states (incl. unmerged paths left by a conflict - UU, UD, AA - as the only change; untracked files covered only by the user-level core.excludesFile or by .git/info/exclude) x {} baseline repositories; layer E: 11 branch names (with '/', '.', non-ASCII, equal to a version tag / a non-version tag / a ref-namespace word) x a tag of the same short name (absent, lightweight or annotated, on the middle commit or the tip) x HEAD on that branch / the other branch / detached x 3 input formats; layer F: checkouts whose .git is a file (linked worktree beside and nested inside the main work tree, separate git directory) clean and with an untracked file; layer G: a linear history of 100001 (thorough 300001) commits with the nearest valid tag 9999 .. 100000 commits behind HEAD; layer H: crowded repositories - 12 .. 130 (thorough 1 .. 600) version tags (numeric third numbers, pre-release and v-less spellings, every seventh annotated) plus non-version names on each of five commits of a 37-commit history, as many higher-versioned tags on an unreachable side branch, HEAD at seven positions x 2 input formats. Every state is materialised in real git by fast-import, conformance-checked with `git log --all` / `for-each-ref` / `symbolic-ref` / `status --porcelain=v2`, and judged against R-GIT (nearest validly tagged commit, highest tag under R-SV / C11 order (auto mode: highest under either format that accepts it), distance = |reach(HEAD) minus reach(tag)|, dirty, branch, hashes, times). non-trivial = evaluations that have a valid reachable tag", all_shapes.len(), shapes.len(), if quick { ": all with <= 3 commits plus the 4-commit merge shapes" } else { "" }, shape_transitions, alpha.iter().map(|a| a.0).collect::<Vec<_>>(), names8.iter().map(|a| a.0).collect::<Vec<_>>(), baselines.len());
    cov.set("cumulative_seconds_after_layer", json!(layer_secs.iter().map(|(n, t)| json!({"layer": n, "t": (t * 10.0).round() / 10.0})).collect::<Vec<_>>()));
    cov.exhaustive = !was_capped;
    cov.samples = vec![json!({"ops":["branch b1","commit","checkout main","commit","merge b1"],"dates":"decreasing","tags":["v2.0.0@1","v1.0.0@0"],"head":"main"}), json!({"one_commit_tags":["v1.0.0","1.1.0rc1","1.1.0.post1"],"input_format":"auto"}), json!({"worktree":"IgnoredOnly","head":"detached"})];
    cov.set("clause_counts", all.to_json());
    cov.set("wall_cap_hit", was_capped);
    cov.set("explorer_cross_check", json!({"engine":"stateright 0.31 spawn_bfs","unique_states":sr_states,"own_bfs_states":all_shapes.len()}));
    cov.set("process_conformance_cases", s_p.get("process_conformance_cases"));
    cov.assumptions = vec!["R-GIT (harness/src/gitx.rs + the oracle in c02.rs); which of several equal-precedence tags / which member of the nearest-tag antichain is reported is left open".into(), "shallow clones are explored by C01 / C13 only".into(), "tag validity judged by the reference recognisers R-SV / R-PEP".into()];
    finish(&ctx, cov);
}
