//! C09 — the PEP 440 parser accepts exactly Appendix B (ASCII, case-insensitive) and prints the
//! normal form with every number preserved.
use std::cmp::Ordering;
use std::str::FromStr;

use rayon::prelude::*;
use serde_json::json;
use zerv::version::PEP440;
use zvharness::refmodel::pep440 as rp;
use zvharness::*;

fn judge(x: &str, with_check_cmd: bool, st: &mut Stats) -> Option<(String, String)> {
    let model = rp::parse(x);
    // model validation: the iterative (possessive) form of the grammar used for long inputs agrees with the recursive matcher
    if x.len() <= rp::LONG_INPUT {
        st.inc("model_forms_compared");
        if rp::parse_with(x, true) != model { machinery_error(&format!("R-PEP: possessive and backtracking grammar forms disagree on {x:?}")); }
    }
    let got = match catch(|| PEP440::from_str(x).map(|v| (v.to_string(), v))) {
        Ok(g) => g,
        Err(p) => return Some((format!("panic@{}", p.file()), format!("panic {} at {}", p.message, p.location))),
    };
    st.observe(&(x, got.as_ref().ok().map(|g| &g.0)));
    if model.is_some() { st.inc("model_accepts"); } else { st.inc("model_rejects"); }
    match (&got, &model) {
        (Ok((printed, v)), Some(mp)) => {
            st.inc("clause_normal_form");
            let want = mp.normal();
            if *printed != want {
                let big = mp.numbers().iter().any(|n| !rp::fits_u32(n));
                let class = if big { "number_silently_altered" } else { "normal_form_mismatch" };
                return Some((class.into(), format!("prints {printed:?}, PEP 440 normal form is {want:?}")));
            }
            // idempotence and equality with the original
            st.inc("clause_idempotence");
            match catch(|| PEP440::from_str(printed).map(|v2| (v2.to_string(), v2.cmp(v), v2 == *v))) {
                Ok(Ok((p2, ord, eq))) => {
                    if p2 != *printed {
                        return Some(("normalisation_not_idempotent".into(), format!("{printed:?} re-prints as {p2:?}")));
                    }
                    if ord != Ordering::Equal || !eq {
                        return Some(("normal_form_not_equal_to_original".into(), format!("parse({printed:?}) vs parse({x:?}): cmp {ord:?}, == {eq}")));
                    }
                }
                Ok(Err(e)) => return Some(("normal_form_rejected".into(), format!("own output {printed:?} rejected: {e}"))),
                Err(p) => return Some((format!("panic@{}", p.file()), format!("panic re-parsing {printed:?}: {}", p.message))),
            }
        }
        (Ok((printed, _)), None) => {
            return Some(("accepts_outside_grammar".into(), format!("accepted, prints {printed:?}")));
        }
        (Err(_), Some(mp)) => {
            if mp.numbers().iter().any(|n| !rp::fits_u32(n)) {
                st.inc("rejected_above_u32");
            } else {
                return Some(("rejects_valid".into(), format!("rejected; PEP 440 normal form is {:?}", mp.normal())));
            }
        }
        (Err(_), None) => {}
    }
    if with_check_cmd {
        st.inc("clause_check_cmd");
        let r = match catch(|| zv::check(x, Some("pep440"))) {
            Ok(r) => r,
            Err(p) => return Some((format!("panic@{}", p.file()), format!("check panic {} at {}", p.message, p.location))),
        };
        match (&r, &got) {
            (Ok(text), Ok((printed, _))) => {
                // the statement fixes verdict and normal form, not the wording: the report must show the normal form
                let ok = text.contains(printed.as_str());
                if !ok {
                    return Some(("check_text_mismatch".into(), format!("check says {text:?} for input {x:?} with normal form {printed:?}")));
                }
            }
            (Err(_), Err(_)) => {}
            _ => return Some(("check_verdict_mismatch".into(), format!("check ok={} parser ok={}", r.is_ok(), got.is_ok()))),
        }
    }
    None
}

fn report(ctx: &Ctx, x: &str, kind: &str, v: Option<(String, String)>, st: &mut Stats) {
    if let Some((class, detail)) = v {
        st.inc("violating_evaluations");
        ctx.violation(&class, format!("{x:?}"), json!({"input": x, "kind": kind}), detail);
    }
}

static CWD_LAYER_RUNS: std::sync::atomic::AtomicU64 = std::sync::atomic::AtomicU64::new(0);
static STDIN_LAYER_RUNS: std::sync::atomic::AtomicU64 = std::sync::atomic::AtomicU64::new(0);

fn main() {
    let ctx = Ctx::from_args("C09", "model_checking");
    if let Some(case) = ctx.replay_case() {
        let x = case["input"].as_str().unwrap().to_string();
        let mut st = Stats::default();
        let v = judge(&x, true, &mut st);
        report(&ctx, &x, "replay", v, &mut st);
        finish(&ctx, Coverage::default());
    }
    let quick = ctx.quick();
    // (a) char-level trie
    let sigma18: Vec<&str> = vec!["0", "1", "a", "b", "c", "r", "p", "o", "s", "t", "e", "v", "d", ".", "-", "_", "+", "!"];
    let la = if quick { 5 } else { 6 };
    let sa = for_each_string(&sigma18, la, |x, n, st| {
        st.inc("strings_a");
        let v = judge(x, n <= 4, st);
        report(&ctx, x, "a", v, st);
    });
    // (b) token-level trie (labels, separators, case variants, case-folding look-alikes)
    let tokens: Vec<&str> = vec!["0", "1", "01", "a", "b", "c", "rc", "alpha", "beta", "pre", "preview", "post", "rev", "r", "dev",
        ".", "-", "_", "+", "!", "v", "x", "A", "RC", "ſ", "\u{212A}", "é", "٣"];
    let lb = if quick { 4 } else { 5 };
    let sb = for_each_string(&tokens, lb, |x, n, st| {
        st.inc("strings_b");
        let v = judge(x, n <= 3, st);
        report(&ctx, x, "b", v, st);
    });
    // (b2) edit closure: every string the model accepts among the token strings of depth <= 3, with every single-character
    // insertion and substitution over all printable ASCII plus a few non-ASCII characters (a regex class typo such as
    // [A-z], a wrong separator class, ... shows up one edit away from the language)
    let sb2 = {
        let base: Vec<String> = { let m = std::sync::Mutex::new(std::collections::BTreeSet::new()); for_each_string(&tokens, 3, |x, _n, _st| { if rp::parse(x).is_some() { m.lock().unwrap().insert(x.to_string()); } }); m.into_inner().unwrap().into_iter().collect() };
        let syms: Vec<char> = (0x20u8..0x7f).map(|b| b as char).chain(['\t', '\n', 'é', '٣', 'ſ', '\u{212A}', '\u{a0}']).collect();
        use rayon::prelude::*;
        base.par_iter().map(|b| {
            let mut st = Stats::default();
            st.inc("edit_base_strings");
            let chars: Vec<char> = b.chars().collect();
            let mut buf = String::new();
            for i in 0..=chars.len() { for &e in &syms {
                buf.clear(); buf.extend(&chars[..i]); buf.push(e); buf.extend(&chars[i..]);
                st.inc("edits");
                let v = judge(&buf, false, &mut st); report(&ctx, &buf, "b2", v, &mut st);
                if i < chars.len() && e != chars[i] {
                    buf.clear(); buf.extend(&chars[..i]); buf.push(e); buf.extend(&chars[i + 1..]);
                    st.inc("edits");
                    let v = judge(&buf, false, &mut st); report(&ctx, &buf, "b2", v, &mut st);
                }
            }}
            st
        }).reduce(Stats::default, Stats::merge)
    };
    // (b3) decorations: what tools and people put around a version (ref paths, requirement operators, quotes, file and
    // revision suffixes, white space) on either side of every accepted token string of depth <= 3, parser and check command
    let sb3 = {
        let base: Vec<String> = { let m = std::sync::Mutex::new(std::collections::BTreeSet::new()); for_each_string(&tokens, 3, |x, _n, _st| { if rp::parse(x).is_some() { m.lock().unwrap().insert(x.to_string()); } }); m.into_inner().unwrap().into_iter().collect() };
        let pre_dec = ["refs/tags/", "refs/heads/", "refs/", "tags/", "origin/", "release-", "release/", "version-", "version ", "version=", "ver", "vv", "v.", "=", "==", "===", "^", "~", "~=", ">=", "@", "#", "\"", "'", "pep440:", "tag:", "r", "/", "./", "+", "-", ".", " ", "\n", "\t", "\u{a0}"];
        let post_dec = ["^{}", "^0", "~1", "/", "\"", "'", ".tar.gz", ".whl", ",", ";", ":", "@", "!", "*", ".x", ".*", "-SNAPSHOT", "+", "-", ".", " ", "\n", "\r\n", "\u{a0}"];
        use rayon::prelude::*;
        base.par_iter().map(|b| {
            let mut st = Stats::default();
            for x in pre_dec.iter().map(|d| format!("{d}{b}")).chain(post_dec.iter().map(|d| format!("{b}{d}"))).chain([format!("\"{b}\""), format!("'{b}'"), format!("refs/tags/{b}^{{}}"), format!(" {b} ")]) {
                st.inc("decorated_cases");
                let v = judge(&x, true, &mut st); report(&ctx, &x, "b3", v, &mut st);
            }
            st
        }).reduce(Stats::default, Stats::merge)
    };
    let sb = sb.merge(sb2).merge(sb3);
    // (c) full product of spelling variants
    let epoch = ["", "0!", "1!", "01!"];
    let release: &[&str] = if quick { &["1", "1.0", "01.2"] } else { &["1", "1.0", "01.2", "1.2.3.4", "0"] };
    let sep = ["", ".", "-", "_"];
    let pre_l = ["", "a", "b", "c", "rc", "alpha", "beta", "pre", "preview", "A", "RC", "Alpha"];
    let num: &[&str] = &["", "0", "1", "01"];
    let post: &[&str] = if quick { &["", "-1", ".post1", "post", "-post-1", "_rev.2", "r3", ".POST"] } else { &["", "-1", "-01", ".post1", "post", "-post-1", "_rev.2", "r3", ".POST", ".post.", "rev_"] };
    let dev: &[&str] = if quick { &["", ".dev", "dev1", "-dev-01"] } else { &["", ".dev", "dev1", "-dev-01", "_DEV_", ".dev."] };
    let local: &[&str] = if quick { &["", "+a", "+1", "+01", "+A-b_1"] } else { &["", "+a", "+1", "+01", "+a.1", "+A-b_1", "+a..b", "+0a.00"] };
    let vp = ["", "v", "V"];
    let dims = [epoch.len(), release.len(), sep.len(), pre_l.len(), sep.len(), num.len(), post.len(), dev.len(), local.len(), vp.len()];
    let sc = for_each_product(&dims, |i, st| {
        // pre separator / number only make sense with a label, but the full product is kept: the
        // label-less combinations are grammar-violating strings the parser must reject
        let x = format!("{}{}{}{}{}{}{}{}{}{}", vp[i[9]], epoch[i[0]], release[i[1]], sep[i[2]], pre_l[i[3]], sep[i[4]], num[i[5]], post[i[6]], dev[i[7]], local[i[8]]);
        st.inc("strings_c");
        let v = judge(&x, i[9] == 0 && i[0] <= 1, st);
        report(&ctx, &x, "c", v, st);
    });
    // (d) boundary numerals in every numeric slot
    let nums = ["0", "00", "4294967295", "4294967296", "04294967295", "99999999999", "18446744073709551616", "340282366920938463463374607431768211456",
        // leading zeros in front of numbers at and above the integer widths (normalisation must still strip them)
        "04294967296", "00099999999999", "0018446744073709551616", "0340282366920938463463374607431768211456", "000115792089237316195423570985008687907853269984665640564039457584007913129639936", "000000000000000000000000000001", "0000000000000000000000000000000",
        // trailing zeros below, at and above the integer widths (digits may be stripped from the front only)
        "10", "100", "1000000", "4294967290", "10000000000", "42949672960", "18446744073709551610", "184467440737095516160", "100000000000000000000", "0010000000000", "00100", "0100000000000000000000"];
    let templates = ["{N}", "{N}.0", "1.{N}", "1.0.{N}.1", "{N}!1.0", "1.0a{N}", "1.0rc.{N}", "1.0.post{N}", "1.0-{N}", "1.0.dev{N}", "1.0+{N}", "1.0+a.{N}", "1.0+{N}.a",
        "{N}!{N}.{N}a{N}.post{N}.dev{N}+{N}"];
    // plus the dense grid (numpool), plain and with one leading zero
    let grid: Vec<String> = numpool::grid().into_iter().flat_map(|n| [n.clone(), format!("0{n}")]).collect();
    let nums: Vec<&str> = nums.iter().copied().chain(grid.iter().map(|s| s.as_str())).collect();
    let sd = Stats::default();
    // long inputs (a parser that looks at a bounded prefix, or echoes a shortened copy): lengths around 2^8, 2^10, 2^12, 2^16
    // sizes: the neighbourhood of every power of two up to 2^22 (thorough 2^24) and of every power of ten up to 10^6
    let mut lens: Vec<usize> = vec![120, 126, 250, 254, 300];
    lens.extend(numpool::sizes(if ctx.quick() { 22 } else { 24 }, 6));
    let s_long = lens.par_iter().map(|&n| {
        let mut sd = Stats::default();
        for x in [format!("1.0+{}", "a".repeat(n)), format!("1.0+{}!", "a".repeat(n)), format!("1.0+{}.B-c_01", "a".repeat(n)), format!("1{}", ".2".repeat(n / 2)), format!("1{}.", ".2".repeat(n / 2)),
            format!("1.0.dev{}7", "0".repeat(n)), format!("1.0a{}1.post2", "0".repeat(n)), format!("{}1!2.0", "0".repeat(n)), format!("1.0+{}", "a.0".repeat(n / 3)), format!("1.0+{}..b", "a".repeat(n)),
            format!("1.0rc1{}", "-".repeat(n)), format!("v{}", "1.".repeat(n / 2) + "0")] {
            sd.inc("long_inputs");
            let v = judge(&x, n <= 4096, &mut sd);
            report(&ctx, &x, "long", v, &mut sd);
        }
        sd
    }).reduce(Stats::default, Stats::merge);
    let mut sd = sd.merge(s_long);
    for t in templates {
        for n in &nums {
            let x = t.replace("{N}", n);
            sd.inc("boundary_cases");
            let v = judge(&x, true, &mut sd);
            report(&ctx, &x, "d", v, &mut sd);
        }
    }


    // the string under test is the argument and nothing else: whatever stands on stdin (nothing, a valid version, another
    // spelling, garbage, the argument itself), with or without `--` before the argument, the verdict and the shown version are
    // those of the argument - also for arguments that other tools read as "take it from stdin" (`-`, `@-`, `/dev/stdin`)
    {
        let bin = proc::zerv_bin();
        let subjects = ["-", "--", "@-", "/dev/stdin", "stdin", "", " ", "1.2.3", "V1.0RC", "1..0", "-1", "-v", "+", "."];
        let stdins: [Option<&str>; 7] = [None, Some(""), Some("1.2.3\n"), Some("V1.0RC"), Some("not a version\n"), Some("-\n"), Some("1.2.3\nV1.0RC\n")];
        let jobs: Vec<(&str, Option<&str>, bool)> = subjects.iter().flat_map(|s| stdins.iter().flat_map(move |i| [(*s, *i, true), (*s, *i, false)])).filter(|(s, _, dd)| *dd || !(s.starts_with('-') && s.len() > 1)).collect();
        let outs: Vec<((&str, Option<&str>, bool), proc::Out)> = jobs.par_iter().map(|&(s, i, dd)| {
            let mut args: Vec<String> = vec!["check".into(), "--format".into(), "pep440".into()];
            if dd { args.push("--".into()); }
            args.push(s.to_string());
            let o = proc::run(&proc::Run { program: &bin, args, stdin: i.map(|x| x.as_bytes().to_vec()), env: proc::base_env(), cwd: None, timeout: std::time::Duration::from_secs(10) }).unwrap_or_else(|e| machinery_error(&format!("spawn zerv: {e}")));
            ((s, i, dd), o)
        }).collect();
        let mut sx = Stats::default();
        for ((s, i, dd), o) in outs {
            if o.timed_out { machinery_error("zerv check timed out"); }
            sx.inc("check_stdin_state_runs");
            let inproc = zv::check(s, Some("pep440"));
            let same = match &inproc { Ok(t) => o.status == 0 && o.stdout_str() == format!("{t}\n"), Err(_) => o.status != 0 && o.stdout.is_empty() };
            if !same { ctx.violation("check_verdict_depends_on_stdin", format!("check {}{s:?} with stdin {i:?}", if dd { "-- " } else { "" }), json!({"input": s, "stdin": i, "kind": "proc-stdin"}), format!("binary exit {} stdout {:?}; the argument alone gives {:?}", o.status, o.stdout_str(), inproc)); }
        }
        STDIN_LAYER_RUNS.store(sx.get("check_stdin_state_runs"), std::sync::atomic::Ordering::Relaxed);
    }
    // ... and nothing in the start directory either: zerv is started in a directory that holds a regular file named exactly like the
    // argument (VERSION, release, version.txt, 1.2.3, -, ...) whose content is a valid version (one line, several lines, with a BOM),
    // plus the usual project files; verdict and shown version are those of the argument
    {
        let bin = proc::zerv_bin();
        let names = ["VERSION", "version", "release", "latest", "version.txt", ".version", "HEAD", "main", "Cargo.toml", "pyproject.toml", "package.json", "-", "@-", "stdin", "a", "v", "1", "1.2.3", "1.0", "V1.0RC", "1..0", "+", "~", "zerv.toml", ".zerv"];
        let contents = ["9.9.9\n", "9.9.9", "V1.0RC\nnot a version\n", "\u{feff}9.9.9\n", "version = \"9.9.9\"\n"];
        let dirs: Vec<std::path::PathBuf> = contents.iter().enumerate().map(|(ci, content)| {
            let d = zvharness::gitx::scratch_root().join(format!("pep440-cwd-{ci}"));
            std::fs::create_dir_all(&d).unwrap_or_else(|e| machinery_error(&format!("mkdir {d:?}: {e}")));
            for n in names.iter() { std::fs::write(d.join(&n), content).unwrap_or_else(|e| machinery_error(&format!("write {n:?}: {e}"))); }
            d
        }).collect();
        let jobs: Vec<(&str, usize, bool)> = names.iter().flat_map(|n| (0..dirs.len()).flat_map(move |ci| [(*n, ci, true), (*n, ci, false)])).collect();
        let outs: Vec<((&str, usize, bool), proc::Out)> = jobs.par_iter().map(|&(n, ci, with_format)| {
            let mut args: Vec<String> = vec!["check".into()];
            if with_format { args.extend(["--format".to_string(), "pep440".to_string()]); }
            args.push("--".into()); args.push(n.to_string());
            let o = proc::run(&proc::Run { program: &bin, args, stdin: None, env: proc::base_env(), cwd: Some(&dirs[ci]), timeout: std::time::Duration::from_secs(10) }).unwrap_or_else(|e| machinery_error(&format!("spawn zerv: {e}")));
            ((n, ci, with_format), o)
        }).collect();
        let mut n_runs = 0u64;
        for ((n, ci, with_format), o) in outs {
            if o.timed_out { machinery_error("zerv check timed out"); }
            n_runs += 1;
            let inproc = zv::check(n, if with_format { Some("pep440") } else { None });
            let same = match &inproc { Ok(t) => o.status == 0 && o.stdout_str() == format!("{t}\n"), Err(_) => o.status != 0 && o.stdout.is_empty() };
            if !same { ctx.violation("check_verdict_depends_on_start_directory", format!("check {}-- {n:?} started in a directory holding a file {n:?} with content {:?}", if with_format { "--format pep440 " } else { "" }, contents[ci]), json!({"input": n, "kind": "proc-cwd", "content": contents[ci]}), format!("binary exit {} stdout {:?}; the argument alone gives {:?}", o.status, o.stdout_str(), inproc)); }
        }
        for d in dirs { let _ = std::fs::remove_dir_all(d); }
        let _ = std::fs::remove_dir(zvharness::gitx::scratch_root());
        CWD_LAYER_RUNS.store(n_runs, std::sync::atomic::Ordering::Relaxed);
    }
    // process conformance slice through the real binary
    let bin = proc::zerv_bin();
    if !bin.exists() { machinery_error(&format!("zerv binary missing at {bin:?}")); }
    let slice: Vec<String> = ["1.0", "v1.0A1", "1.0-1", "1.0.POST", "01!01.02alpha01+A-b_01", "1.0poſt1", "1.0+\u{212A}", "1..0", "1.0a.", "1.0RC1", "1.0dev", "4294967296.0", "1.0a99999999999", "", "1.0+", "2!1.0.POST3"]
        .iter().map(|s| s.to_string()).collect();
    let mut sp = Stats::default();
    let res: Vec<(String, proc::Out)> = slice.par_iter().map(|s| {
        let o = proc::run(&proc::Run { program: &bin, args: vec!["check".into(), "--format".into(), "pep440".into(), "--".into(), s.clone()],
            stdin: None, env: proc::base_env(), cwd: None, timeout: std::time::Duration::from_secs(10) })
            .unwrap_or_else(|e| machinery_error(&format!("spawn zerv: {e}")));
        (s.clone(), o)
    }).collect();
    for (s, o) in res {
        if o.timed_out { machinery_error("zerv check timed out"); }
        sp.inc("process_conformance_cases");
        let inproc = zv::check(&s, Some("pep440"));
        let same = match &inproc { Ok(t) => o.status == 0 && o.stdout_str() == format!("{t}\n"), Err(_) => o.status != 0 && o.stdout.is_empty() };
        if !same {
            ctx.violation("check_binary_mismatch", format!("{s:?}"), json!({"input": s, "kind": "proc"}), format!("binary exit {} stdout {:?}; in-process {:?}", o.status, o.stdout_str(), inproc.as_ref().ok()));
        }
    }

    // reference-model validation against `packaging` (ASCII corpus): (a) up to 4, (b) up to 3 tokens, (c) strided
    let mut corpus: Vec<String> = vec![];
    {
        let m = std::sync::Mutex::new(&mut corpus);
        for_each_string(&sigma18, 4, |x, _n, _st| { m.lock().unwrap().push(x.to_string()); });
        for_each_string(&tokens, 3, |x, _n, _st| { if x.is_ascii() { m.lock().unwrap().push(x.to_string()); } });
        for_each_product(&dims, |i, _st| {
            if (i[0] + i[2] * 3 + i[4] * 5 + i[9]) % 4 != 0 { return; }
            let x = format!("{}{}{}{}{}{}{}{}{}{}", vp[i[9]], epoch[i[0]], release[i[1]], sep[i[2]], pre_l[i[3]], sep[i[4]], num[i[5]], post[i[6]], dev[i[7]], local[i[8]]);
            m.lock().unwrap().push(x);
        });
    }
    for t in templates { for n in &nums { corpus.push(t.replace("{N}", n)); } }
    let corpus_path_s = format!("{}/target/c09_corpus.jsonl", verif_root());
    let corpus_path = corpus_path_s.as_str();
    let mut xcheck_cases = 0u64;
    {
        use std::io::Write;
        let mut f = std::io::BufWriter::new(std::fs::File::create(corpus_path).unwrap_or_else(|e| machinery_error(&format!("corpus: {e}"))));
        for x in &corpus {
            let want = rp::parse(x).map(|p| p.normal());
            writeln!(f, "{}", json!([x, want])).unwrap();
        }
    }
    match std::process::Command::new("python3-vt").arg(format!("{}/py/pep440_xcheck.py", verif_root())).arg(corpus_path).stdin(std::process::Stdio::null()).output() {
        Ok(o) => {
            let out = String::from_utf8_lossy(&o.stdout).to_string();
            if !o.status.success() {
                machinery_error(&format!("reference model disagrees with packaging (the model is wrong, not zerv):\n{out}{}", String::from_utf8_lossy(&o.stderr)));
            }
            xcheck_cases = out.split("xcheck_cases=").nth(1).and_then(|s| s.split_whitespace().next()).and_then(|s| s.parse().ok()).unwrap_or(0);
        }
        Err(_) => eprintln!("note: python3-vt not available, packaging cross-check skipped"),
    }
    let _ = std::fs::remove_file(corpus_path);

    let d = |()| for_each_string(&sigma18, 3, |x, _n, st| { let _ = judge(x, true, st); });
    if d(()).digest != d(()).digest { machinery_error("determinism replay diverged"); }

    let all = sa.clone().merge(sb.clone()).merge(sc.clone()).merge(sd.clone()).merge(sp.clone());
    let mut cov = Coverage::default();
    cov.states = sa.get("strings_a") + sb.get("strings_b") + sc.get("strings_c") + sd.get("boundary_cases");
    cov.transitions = cov.states;
    cov.evaluations = cov.states;
    cov.traces_validated = cov.states;
    cov.distinct_nontrivial = all.get("model_accepts");
    cov.rule = format!("(a) every string over {sigma18:?} up to length {la}; (b) every sequence of up to {lb} tokens from {tokens:?}; (b3) every accepted token string of depth <= 3 with 36 leading and 24 trailing decorations (ref paths, requirement operators, quotes, file and revision suffixes, white space), parser and check command; (c) the full product epoch{epoch:?} x release{release:?} x sep x pre-label{pre_l:?} x sep x number{num:?} x post{post:?} x dev{dev:?} x local{local:?} x prefix{vp:?}; (d) boundary numerals x numeric slots. non-trivial = evaluations the reference grammar accepts (so the normal-form / idempotence / equality clauses fire)");
    cov.exhaustive = true;
    cov.samples = vec![json!("1.0-post_1.dev+A-b_01"), json!("v01!01.2_Alpha.01-1.dev+01"), json!("1.0poſt1"), json!("4294967296!1.0")];
    cov.set("check_stdin_state_runs", STDIN_LAYER_RUNS.load(std::sync::atomic::Ordering::Relaxed));
    cov.set("check_start_directory_runs", CWD_LAYER_RUNS.load(std::sync::atomic::Ordering::Relaxed));
    cov.set("check_start_directory_layer", json!("25 arguments (project-file names, stdin-like words, valid and invalid versions) x 5 contents of a same-named regular file in the start directory x with / without --format, through the binary: verdict and shown version are those of the argument"));
    cov.set("clause_counts", all.to_json());
    cov.set("model_xcheck_cases", xcheck_cases);
    cov.set("process_conformance_cases", sp.get("process_conformance_cases"));
    cov.set("bounds", json!({"a_len": la, "b_tokens": lb, "c_product": product_size(&dims)}));
    cov.assumptions = vec![
        "reference model R-PEP = Appendix-B regex AST + backtracking matcher (harness/src/refmodel/pep440.rs), validated against packaging 26.3 by py/pep440_xcheck.py on the ASCII part of the corpus".into(),
        "rejection (never alteration) of numbers above u32 is treated as a representation limit".into(),
        "inputs with surrounding white space are outside the statement and not explored".into(),
    ];
    finish(&ctx, cov);
}
