//! C08 — the SemVer parser accepts exactly SemVer 2.0.0 (ASCII, optional `v`) and loses nothing.
use std::str::FromStr;

use serde_json::json;
use zerv::version::SemVer;
use zvharness::refmodel::semver as rsv;
use zvharness::*;

/// Judge one string. Returns (class, detail) on violation.
fn judge(x: &str, with_check_cmd: bool, st: &mut Stats) -> Option<(String, String)> {
    let want = rsv::accepts(x);
    let got = match catch(|| SemVer::from_str(x).map(|v| v.to_string())) {
        Ok(g) => g,
        Err(p) => return Some((format!("panic@{}", p.file()), format!("panic {} at {}", p.message, p.location))),
    };
    st.observe(&(x, got.as_ref().ok()));
    if want { st.inc("model_accepts"); } else { st.inc("model_rejects"); }
    match (&got, want) {
        (Ok(printed), true) => {
            st.inc("clause_lossless");
            let expect = x.strip_prefix('v').unwrap_or(x);
            if printed != expect {
                return Some(("not_lossless".into(), format!("printed {printed:?}, input {x:?}")));
            }
        }
        (Ok(printed), false) => {
            return Some(("accepts_outside_grammar".into(), format!("accepted, prints {printed:?}")));
        }
        (Err(_), true) => {
            // a finite integer range is a representation limit: rejection is allowed only when a
            // numeric field (core number or numeric pre-release identifier) exceeds u64
            let p = rsv::parse(x).unwrap();
            let big = p.core.iter().any(|n| !rsv::fits_u64(n))
                || p.pre.iter().any(|i| rsv::is_numeric(i) && !rsv::fits_u64(i))
                || p.build.iter().any(|i| rsv::is_numeric(i) && !i.starts_with('0') && !rsv::fits_u64(i));
            if big {
                st.inc("rejected_above_u64");
            } else {
                return Some(("rejects_valid".into(), "rejected a grammatical SemVer string".to_string()));
            }
        }
        (Err(_), false) => {}
    }
    if with_check_cmd {
        st.inc("clause_check_cmd");
        let r = match catch(|| zv::check(x, Some("semver"))) {
            Ok(r) => r,
            Err(p) => return Some((format!("panic@{}", p.file()), format!("check panic {} at {}", p.message, p.location))),
        };
        match (&r, &got) {
            (Ok(text), Ok(printed)) => {
                // the statement fixes the verdict, not the wording: the report must show the parsed version (the input
                // without its `v`) somewhere, whatever the surrounding text says
                if !text.contains(printed.as_str()) {
                    return Some(("check_text_mismatch".into(), format!("check says {text:?}, which does not show the parsed version {printed:?}")));
                }
            }
            (Err(_), Err(_)) => {}
            _ => return Some(("check_verdict_mismatch".into(), format!("check ok={} parser ok={}", r.is_ok(), got.is_ok()))),
        }
    }
    None
}

fn report(ctx: &Ctx, x: &str, kind: &str, v: Option<(String, String)>, st: &mut Stats) {
    if let Some((class, detail)) = v {
        st.inc("violating_evaluations");
        ctx.violation(&class, format!("{x:?}"), json!({"input": x, "kind": kind}), detail);
    }
}

/// Every string the reference DFA accepts up to `max_len` over `alpha` (DFS with dead-prefix pruning).
fn accepted_language(alpha: &[char], max_len: usize) -> Vec<String> {
    fn go(alpha: &[char], max_len: usize, s: rsv::St, buf: &mut String, out: &mut Vec<String>) {
        if rsv::accepting(s) {
            out.push(buf.clone());
        }
        if buf.len() == max_len {
            return;
        }
        for &c in alpha {
            if let Some(n) = rsv::step(s, c) {
                buf.push(c);
                go(alpha, max_len, n, buf, out);
                buf.pop();
            }
        }
    }
    let mut out = vec![];
    go(alpha, max_len, rsv::St::Start, &mut String::new(), &mut out);
    out
}

static CWD_LAYER_RUNS: std::sync::atomic::AtomicU64 = std::sync::atomic::AtomicU64::new(0);
static STDIN_LAYER_RUNS: std::sync::atomic::AtomicU64 = std::sync::atomic::AtomicU64::new(0);

fn main() {
    let ctx = Ctx::from_args("C08", "model_checking");
    if let Some(case) = ctx.replay_case() {
        let x = case["input"].as_str().unwrap().to_string();
        let mut st = Stats::default();
        let v = judge(&x, true, &mut st);
        report(&ctx, &x, "replay", v, &mut st);
        finish(&ctx, Coverage::default());
    }
    let sigma9: Vec<&str> = vec!["0", "1", "a", "-", ".", "+", "v", "V", "٣", "é"];
    let (la, lcheck, lb) = if ctx.quick() { (7, 5, 9) } else { (9, 6, 11) };

    // (a) every string over Sigma9 up to length la
    let sa = for_each_string(&sigma9, la, |x, n, st| {
        st.inc("strings_a");
        let v = judge(x, n <= lcheck, st);
        report(&ctx, x, "a", v, st);
    });

    // (b) grammar-guided, deviation <= 1: every accepted string up to lb over {0 1 2 a - . +} (and v),
    //     plus every single-symbol insertion / deletion / substitution from Sigma9 + {A, 9}
    let lang = accepted_language(&['0', '1', '2', 'a', '-', '.', '+', 'v'], lb);
    // white-space symbols are edit symbols too (SemVer has none; a trimming front end would accept them): edits that
    // introduce one are also put through the check command
    let edit_syms: Vec<char> = vec!['0', '1', 'a', 'A', '9', '-', '.', '+', 'v', 'V', '٣', 'é', '\u{212A}', 'ſ', 'İ', '_', '^', '[', ']', '\\', '`', '@', '/', ':', '~', '!', '*', '{', '}', '|', '=', ',', ';', '\'', '"', '#', '$', '%', '&', '(', ')', '<', '>', '?', 'z', 'Z', 'g', 'G', ' ', '\n', '\t', '\r', '\u{a0}'];
    use rayon::prelude::*;
    let sb = lang
        .par_iter()
        .map(|s| {
            let mut st = Stats::default();
            st.inc("accepted_base_strings");
            let v = judge(s, false, &mut st);
            report(&ctx, s, "b0", v, &mut st);
            let chars: Vec<char> = s.chars().collect();
            let mut buf = String::with_capacity(s.len() + 4);
            for i in 0..=chars.len() {
                // insertion at i
                for &e in &edit_syms {
                    buf.clear();
                    buf.extend(&chars[..i]);
                    buf.push(e);
                    buf.extend(&chars[i..]);
                    st.inc("edits");
                    let v = judge(&buf, e.is_whitespace() && chars.len() <= 7, &mut st);
                    report(&ctx, &buf, "b1", v, &mut st);
                }
                if i < chars.len() {
                    // deletion of i
                    buf.clear();
                    buf.extend(&chars[..i]);
                    buf.extend(&chars[i + 1..]);
                    st.inc("edits");
                    let v = judge(&buf, false, &mut st);
                    report(&ctx, &buf, "b1", v, &mut st);
                    // substitution at i
                    for &e in &edit_syms {
                        if e == chars[i] { continue; }
                        buf.clear();
                        buf.extend(&chars[..i]);
                        buf.push(e);
                        buf.extend(&chars[i + 1..]);
                        st.inc("edits");
                        let v = judge(&buf, e.is_whitespace() && chars.len() <= 7, &mut st);
                        report(&ctx, &buf, "b1", v, &mut st);
                    }
                }
            }
            st
        })
        .reduce(Stats::default, Stats::merge);

    // (b2) white-space padding on both sides of every accepted string up to length 7, parser and check command
    let pads = ["", " ", "\n", "\t", "\r\n", "  ", "\u{a0}", "\u{2003}", "\u{feff}"];
    let sb2 = lang.par_iter().filter(|s| s.len() <= 7).map(|s| {
        let mut st = Stats::default();
        for l in pads { for r in pads { if l.is_empty() && r.is_empty() { continue; }
            let x = format!("{l}{s}{r}");
            st.inc("padded_cases");
            let v = judge(&x, true, &mut st);
            report(&ctx, &x, "b2", v, &mut st);
        }}
        st
    }).reduce(Stats::default, Stats::merge);
    // (b2') decorations: what tools and people put around a version (ref paths, requirement operators, quotes, file
    // suffixes, revision suffixes) on either side of every accepted string up to length 7, parser and check command
    let pre_dec = ["refs/tags/", "refs/heads/", "refs/remotes/origin/", "refs/", "tags/", "origin/", "release-", "release/", "version-", "version ", "version=", "ver", "V", "v.", "vv", "=", "==", "^", "~", ">=", "@", "#", "\"", "'", "semver:", "tag:", "r", "rel", "/", "./", "+", "-", "."];
    let post_dec = ["^{}", "^0", "~1", "/", "\"", "'", ".tar.gz", ".zip", ",", ";", ":", "@", "!", "*", ".x", ".*", "-SNAPSHOT", "+", "-", "."];
    let sb2d = lang.par_iter().filter(|s| s.len() <= 7).map(|s| {
        let mut st = Stats::default();
        for x in pre_dec.iter().map(|d| format!("{d}{s}")).chain(post_dec.iter().map(|d| format!("{s}{d}"))).chain([format!("\"{s}\""), format!("'{s}'"), format!("refs/tags/{s}^{{}}")]) {
            st.inc("decorated_cases");
            let v = judge(&x, true, &mut st);
            report(&ctx, &x, "b2d", v, &mut st);
        }
        st
    }).reduce(Stats::default, Stats::merge);
    let sb = sb.merge(sb2).merge(sb2d);

    // (b3) long inputs: lengths around 2^7, 2^8, 2^10, 2^12, 2^16 (a parser working on a bounded prefix or buffer)
    // sizes: the neighbourhood of every power of two up to 2^22 (thorough 2^25 = 32 MiB) and of every power of ten up to 10^6 (10^7)
    let mut lens: Vec<usize> = vec![120, 300];
    lens.extend(numpool::sizes(if ctx.quick() { 22 } else { 25 }, if ctx.quick() { 6 } else { 7 }));
    let sl = lens.par_iter().map(|&n| {
        let mut sl = Stats::default();
        for x in [format!("1.0.0-{}", "a".repeat(n)), format!("1.0.0-{}!", "a".repeat(n)), format!("1.0.0+{}", "a".repeat(n)), format!("1.0.0-a{}", ".a".repeat(n / 2)), format!("1.0.0-a{}.", ".a".repeat(n / 2)),
            format!("1.0.0-a{}..b", "a".repeat(n)), format!("1.0.0+{}.007", "0-".repeat(n / 2)), format!("{}.0.0", "1".repeat(n)), format!("1.0.0-{}1", "0".repeat(n)), format!("v1.0.0-rc.1+{}", "b.".repeat(n / 2) + "b")] {
            sl.inc("long_inputs");
            let v = judge(&x, n <= 4096, &mut sl);
            report(&ctx, &x, "long", v, &mut sl);
        }
        sl
    }).reduce(Stats::default, Stats::merge);
    let sb = sb.merge(sl);

    // (c) boundary numerals in each numeric position
    let nums = ["0", "1", "00", "01", "4294967295", "4294967296", "18446744073709551615",
        "18446744073709551616", "99999999999999999999999", "100000000000000000000000000000",
        // zero-padded numerals below, at and above the integer widths (a numeric identifier never has a leading zero, however
        // long it is; build identifiers may), numerals with trailing zeros, and digit runs that a letter or hyphen makes alphanumeric
        "04294967296", "018446744073709551615", "018446744073709551616", "0018446744073709551616", "099999999999999999999999", "000000000000000000000000000001",
        "0000000000000000000000000000000", "10", "100", "18446744073709551610", "184467440737095516160", "018446744073709551616a", "018446744073709551616-", "99999999999999999999a", "-018446744073709551616"];
    let templates = ["{N}.0.0", "0.{N}.0", "0.0.{N}", "1.0.0-{N}", "1.0.0-a.{N}", "1.0.0-{N}.a", "1.0.0+{N}",
        "1.0.0-x+{N}", "1.0.0+a.{N}", "v{N}.{N}.{N}-{N}+{N}", "1.0.0-rc.{N}.1", "1.0.0-{N}.{N}"];
    let mut sc = Stats::default();
    let mut c_samples = vec![];
    // plus the dense grid (numpool), plain and with one leading zero
    let grid: Vec<String> = numpool::grid().into_iter().flat_map(|n| [n.clone(), format!("0{n}")]).collect();
    let nums: Vec<&str> = nums.iter().copied().chain(grid.iter().map(|s| s.as_str())).collect();
    for t in templates {
        for n in &nums {
            let x = t.replace("{N}", n);
            sc.inc("boundary_cases");
            let v = judge(&x, true, &mut sc);
            report(&ctx, &x, "c", v, &mut sc);
            if c_samples.len() < 3 { c_samples.push(json!(x)); }
        }
    }

    // (d) words: identifiers spelled like the phase names of zerv, PEP 440, Maven and npm, in three cases, alone and joined to a
    // number (glued, dotted, hyphenated, underscored = outside the grammar), in pre-release and build position, singly and in
    // pairs - to SemVer they are ordinary identifiers and come back character for character
    {
        let words = ["alpha", "beta", "rc", "dev", "post", "epoch", "a", "b", "c", "pre", "preview", "snapshot", "final", "nightly", "canary", "next", "v", "x", "r", "p"];
        let numbers = ["", "0", "1", "2", "10", "01", "007", "4294967296", "18446744073709551616"];
        let mut idents: Vec<String> = vec![];
        for w in words { for cased in [w.to_string(), w.to_uppercase(), format!("{}{}", w[..1].to_uppercase(), &w[1..])] { for glue in ["", ".", "-", "_"] { for n in numbers {
            if n.is_empty() && !glue.is_empty() { continue; }
            idents.push(format!("{cased}{glue}{n}"));
            if !n.is_empty() && glue.is_empty() { idents.push(format!("{n}{cased}")); }
        }}}}
        idents.sort(); idents.dedup();
        let templates = ["1.0.0-{W}", "1.0.0-{W}.5", "1.0.0-x.{W}", "1.0.0-0.{W}.x", "1.0.0+{W}", "1.0.0-{W}+{W}", "v1.2.3-{W}.{W}"];
        let cases: Vec<String> = templates.iter().flat_map(|t| idents.iter().map(move |w| t.replace("{W}", w))).collect();
        let sd = cases.par_iter().map(|x| { let mut st = Stats::default(); st.inc("word_cases"); let v = judge(x, true, &mut st); report(&ctx, x, "d", v, &mut st); st }).reduce(Stats::default, Stats::merge);
        // pairs of lower-case word+number identifiers
        let small: Vec<String> = words.iter().flat_map(|w| ["", "1", "10"].iter().map(move |n| format!("{w}{n}"))).collect();
        let pairs: Vec<String> = small.iter().flat_map(|a| small.iter().map(move |b| format!("1.0.0-{a}.{b}"))).collect();
        let sd2 = pairs.par_iter().map(|x| { let mut st = Stats::default(); st.inc("word_cases"); let v = judge(x, false, &mut st); report(&ctx, x, "d", v, &mut st); st }).reduce(Stats::default, Stats::merge);
        sc = sc.merge(sd).merge(sd2);
    }

    // model cross-check: the `semver` crate must agree with R-SV wherever both apply
    // (no `v` prefix, numbers within u64) on all of (a) up to length 6 and the whole (b) base language
    let xc = |x: &str, st: &mut Stats| {
        if x.starts_with('v') { return; }
        let m = rsv::accepts(x);
        let c = semver::Version::parse(x);
        if m && c.is_err() {
            let p = rsv::parse(x).unwrap();
            if p.core.iter().chain(p.pre.iter().filter(|i| rsv::is_numeric(i))).any(|n| !rsv::fits_u64(n)) { return; }
            // the semver crate caps identifiers' lengths? (none expected at these sizes)
            machinery_error(&format!("reference model accepts {x:?} but the semver crate rejects it"));
        }
        if !m && c.is_ok() {
            machinery_error(&format!("reference model rejects {x:?} but the semver crate accepts it"));
        }
        st.inc("model_xcheck_cases");
    };
    let sx = for_each_string(&sigma9, 6.min(la), |x, _n, st| xc(x, st));
    let mut sx2 = Stats::default();
    for s in &lang { xc(s, &mut sx2); }


    // the string under test is the argument and nothing else: whatever stands on stdin (nothing, a valid version, another
    // spelling, garbage, the argument itself), with or without `--` before the argument, the verdict and the shown version are
    // those of the argument - also for arguments that other tools read as "take it from stdin" (`-`, `@-`, `/dev/stdin`)
    {
        let bin = proc::zerv_bin();
        let subjects = ["-", "--", "@-", "/dev/stdin", "stdin", "", " ", "1.2.3", "v1.0.0-rc.1", "1..0", "-1", "-v", "+", "."];
        let stdins: [Option<&str>; 7] = [None, Some(""), Some("1.2.3\n"), Some("v1.0.0-rc.1"), Some("not a version\n"), Some("-\n"), Some("1.2.3\nv1.0.0-rc.1\n")];
        let jobs: Vec<(&str, Option<&str>, bool)> = subjects.iter().flat_map(|s| stdins.iter().flat_map(move |i| [(*s, *i, true), (*s, *i, false)])).filter(|(s, _, dd)| *dd || !(s.starts_with('-') && s.len() > 1)).collect();
        let outs: Vec<((&str, Option<&str>, bool), proc::Out)> = jobs.par_iter().map(|&(s, i, dd)| {
            let mut args: Vec<String> = vec!["check".into(), "--format".into(), "semver".into()];
            if dd { args.push("--".into()); }
            args.push(s.to_string());
            let o = proc::run(&proc::Run { program: &bin, args, stdin: i.map(|x| x.as_bytes().to_vec()), env: proc::base_env(), cwd: None, timeout: std::time::Duration::from_secs(10) }).unwrap_or_else(|e| machinery_error(&format!("spawn zerv: {e}")));
            ((s, i, dd), o)
        }).collect();
        let mut sx = Stats::default();
        for ((s, i, dd), o) in outs {
            if o.timed_out { machinery_error("zerv check timed out"); }
            sx.inc("check_stdin_state_runs");
            let inproc = zv::check(s, Some("semver"));
            let same = match &inproc { Ok(t) => o.status == 0 && o.stdout_str() == format!("{t}\n"), Err(_) => o.status != 0 && o.stdout.is_empty() };
            if !same { ctx.violation("check_verdict_depends_on_stdin", format!("check {}{s:?} with stdin {i:?}", if dd { "-- " } else { "" }), json!({"input": s, "stdin": i, "kind": "proc-stdin"}), format!("binary exit {} stdout {:?}; the argument alone gives {:?}", o.status, o.stdout_str(), inproc)); }
        }
        STDIN_LAYER_RUNS.store(sx.get("check_stdin_state_runs"), std::sync::atomic::Ordering::Relaxed);
    }
    // ... and nothing in the start directory either: zerv is started in a directory that holds a regular file named exactly like the
    // argument (VERSION, release, version.txt, 1.2.3, -, ...) whose content is a valid version (one line, several lines, with a BOM),
    // plus the usual project files; verdict and shown version are those of the argument
    {
        let bin = proc::zerv_bin();
        let names = ["VERSION", "version", "release", "latest", "version.txt", ".version", "HEAD", "main", "Cargo.toml", "pyproject.toml", "package.json", "-", "@-", "stdin", "a", "v", "1", "1.2.3", "1.0", "v1.0.0-rc.1", "1..0", "+", "~", "zerv.toml", ".zerv"];
        let contents = ["9.9.9\n", "9.9.9", "v1.0.0-rc.1\nnot a version\n", "\u{feff}9.9.9\n", "version = \"9.9.9\"\n"];
        let dirs: Vec<std::path::PathBuf> = contents.iter().enumerate().map(|(ci, content)| {
            let d = zvharness::gitx::scratch_root().join(format!("semver-cwd-{ci}"));
            std::fs::create_dir_all(&d).unwrap_or_else(|e| machinery_error(&format!("mkdir {d:?}: {e}")));
            for n in names.iter() { std::fs::write(d.join(&n), content).unwrap_or_else(|e| machinery_error(&format!("write {n:?}: {e}"))); }
            d
        }).collect();
        let jobs: Vec<(&str, usize, bool)> = names.iter().flat_map(|n| (0..dirs.len()).flat_map(move |ci| [(*n, ci, true), (*n, ci, false)])).collect();
        let outs: Vec<((&str, usize, bool), proc::Out)> = jobs.par_iter().map(|&(n, ci, with_format)| {
            let mut args: Vec<String> = vec!["check".into()];
            if with_format { args.extend(["--format".to_string(), "semver".to_string()]); }
            args.push("--".into()); args.push(n.to_string());
            let o = proc::run(&proc::Run { program: &bin, args, stdin: None, env: proc::base_env(), cwd: Some(&dirs[ci]), timeout: std::time::Duration::from_secs(10) }).unwrap_or_else(|e| machinery_error(&format!("spawn zerv: {e}")));
            ((n, ci, with_format), o)
        }).collect();
        let mut n_runs = 0u64;
        for ((n, ci, with_format), o) in outs {
            if o.timed_out { machinery_error("zerv check timed out"); }
            n_runs += 1;
            let inproc = zv::check(n, if with_format { Some("semver") } else { None });
            let same = match &inproc { Ok(t) => o.status == 0 && o.stdout_str() == format!("{t}\n"), Err(_) => o.status != 0 && o.stdout.is_empty() };
            if !same { ctx.violation("check_verdict_depends_on_start_directory", format!("check {}-- {n:?} started in a directory holding a file {n:?} with content {:?}", if with_format { "--format semver " } else { "" }, contents[ci]), json!({"input": n, "kind": "proc-cwd", "content": contents[ci]}), format!("binary exit {} stdout {:?}; the argument alone gives {:?}", o.status, o.stdout_str(), inproc)); }
        }
        for d in dirs { let _ = std::fs::remove_dir_all(d); }
        let _ = std::fs::remove_dir(zvharness::gitx::scratch_root());
        CWD_LAYER_RUNS.store(n_runs, std::sync::atomic::Ordering::Relaxed);
    }
    // process conformance slice: first 200 strings of (b)'s language and 100 rejected edits go through
    // the real binary (`zerv check --format semver -- <s>`)
    let bin = proc::zerv_bin();
    let mut sp = Stats::default();
    if bin.exists() {
        let slice: Vec<String> = lang.iter().step_by((lang.len() / 150).max(1)).take(150).cloned()
            .chain(["1.0.0-01", "1.0", "1.0.0-1٣", "v1.2.3+é", "01.0.0", "1.0.0+", "1.0.0-99999999999999999999999"].iter().map(|s| s.to_string()))
            .collect();
        let res: Vec<(String, proc::Out)> = slice.par_iter().map(|s| {
            let o = proc::run(&proc::Run { program: &bin, args: vec!["check".into(), "--format".into(), "semver".into(), "--".into(), s.clone()],
                stdin: None, env: proc::base_env(), cwd: None, timeout: std::time::Duration::from_secs(10) })
                .unwrap_or_else(|e| machinery_error(&format!("spawn zerv: {e}")));
            (s.clone(), o)
        }).collect();
        for (s, o) in res {
            if o.timed_out { machinery_error("zerv check timed out"); }
            sp.inc("process_conformance_cases");
            let inproc = SemVer::from_str(&s).is_ok();
            if (o.status == 0) != inproc {
                ctx.violation("check_binary_verdict_mismatch", format!("{s:?}"), json!({"input": s, "kind": "proc"}),
                    format!("binary exit {} but in-process parser ok={}", o.status, inproc));
            }
            if o.status == 0 && !o.stdout_str().starts_with(&format!("Version: {s}\n")) {
                ctx.violation("check_binary_text", format!("{s:?}"), json!({"input": s, "kind": "proc"}), format!("stdout {:?}", o.stdout_str()));
            }
        }
    } else {
        machinery_error(&format!("zerv binary missing at {bin:?}"));
    }

    // determinism replay
    let d = |()| for_each_string(&sigma9, 4, |x, _n, st| { let _ = judge(x, true, st); });
    if d(()).digest != d(()).digest { machinery_error("determinism replay diverged"); }

    let all = sa.clone().merge(sb.clone()).merge(sc.clone()).merge(sp.clone());
    let mut cov = Coverage::default();
    cov.states = sa.get("strings_a") + sb.get("accepted_base_strings") + sb.get("edits") + sc.get("boundary_cases");
    cov.transitions = cov.states;
    cov.evaluations = cov.states;
    cov.traces_validated = cov.states;
    cov.distinct_nontrivial = all.get("model_accepts") + sb.get("edits");
    cov.rule = format!("(a) every string over {sigma9:?} up to length {la} (check command on length <= {lcheck}); (b) every string accepted by the reference DFA up to length {lb} over [0 1 2 a - . + v] and each of its single-symbol insertions/deletions/substitutions over {edit_syms:?} (edits introducing white space also through the check command); (b2) every accepted string up to length 7 padded left/right with 8 white-space strings (ASCII and Unicode), parser and check command; (b2') the same strings with 33 leading and 20 trailing decorations (ref paths, requirement operators, quotes, file and revision suffixes); (b3) ten long-input shapes at lengths 120..65536; (c) boundary numerals x numeric positions. non-trivial = strings the reference accepts plus strings within one edit of an accepted one (evaluations, duplicates between (a) and (b) not removed)");
    cov.exhaustive = true;
    cov.samples = vec![json!("1.0.0-0a.٣"), json!(lang[lang.len() / 2]), json!(lang[lang.len() - 1]), c_samples[0].clone()];
    cov.set("check_stdin_state_runs", STDIN_LAYER_RUNS.load(std::sync::atomic::Ordering::Relaxed));
    cov.set("check_start_directory_runs", CWD_LAYER_RUNS.load(std::sync::atomic::Ordering::Relaxed));
    cov.set("check_start_directory_layer", json!("25 arguments (project-file names, stdin-like words, valid and invalid versions) x 5 contents of a same-named regular file in the start directory x with / without --format, through the binary: verdict and shown version are those of the argument"));
    cov.set("clause_counts", all.to_json());
    cov.set("model_xcheck_cases", sx.get("model_xcheck_cases") + sx2.get("model_xcheck_cases"));
    cov.set("process_conformance_cases", sp.get("process_conformance_cases"));
    cov.set("bounds", json!({"a_len": la, "check_cmd_len": lcheck, "b_len": lb, "accepted_language_size": lang.len()}));
    cov.assumptions = vec![
        "reference DFA R-SV (harness/src/refmodel/semver.rs), cross-checked against the semver crate on the whole explored space where both apply".into(),
        "rejection (not alteration) of numerals above u64 is treated as a representation limit, not a violation".into(),
        "strings longer than the bounds or using symbols outside the alphabets are not explored".into(),
    ];
    finish(&ctx, cov);
}
