//! C07 — format conversion is faithful: zerv reads back its own versions unchanged.
use std::cmp::Ordering;

use rayon::prelude::*;
use serde_json::json;
use zvharness::refmodel::{pep440 as rp, semver as rsv};
use zvharness::zv::{self, Res};
use zvharness::*;

fn render(v: &str, from: &str, to: &str) -> Result<Res, PanicInfo> {
    zv::run_cli(&["render", "-f", from, "--output-format", to, "--", v], None)
}

struct Canon {
    core: [String; 3],
    epoch: Option<String>,
    pre: Option<(&'static str, String)>,
    post: Option<String>,
    dev: Option<String>,
    build: &'static str,
}

impl Canon {
    fn semver(&self) -> String {
        let mut ids: Vec<String> = vec![];
        if let Some(e) = &self.epoch { ids.push("epoch".into()); ids.push(e.clone()); }
        if let Some((l, n)) = &self.pre { ids.push(l.to_string()); ids.push(n.clone()); }
        if let Some(p) = &self.post { ids.push("post".into()); ids.push(p.clone()); }
        if let Some(d) = &self.dev { ids.push("dev".into()); ids.push(d.clone()); }
        let mut s = self.core.join(".");
        if !ids.is_empty() { s.push('-'); s.push_str(&ids.join(".")); }
        if !self.build.is_empty() { s.push('+'); s.push_str(self.build); }
        s
    }
    fn pep440(&self) -> String {
        let mut s = String::new();
        // PEP 440 normal form drops an epoch of 0
        if let Some(e) = &self.epoch { if e != "0" { s.push_str(e); s.push('!'); } }
        s.push_str(&self.core.join("."));
        if let Some((l, n)) = &self.pre { s.push_str(match *l { "alpha" => "a", "beta" => "b", _ => "rc" }); s.push_str(n); }
        if let Some(p) = &self.post { s.push_str(".post"); s.push_str(p); }
        if let Some(d) = &self.dev { s.push_str(".dev"); s.push_str(d); }
        if !self.build.is_empty() { s.push('+'); s.push_str(self.build); }
        s
    }
    fn numbers(&self) -> Vec<&str> {
        let mut v: Vec<&str> = self.core.iter().map(|s| s.as_str()).collect();
        if let Some(e) = &self.epoch { v.push(e); }
        if let Some((_, n)) = &self.pre { v.push(n); }
        if let Some(p) = &self.post { v.push(p); }
        if let Some(d) = &self.dev { v.push(d); }
        v
    }
}

fn viol(ctx: &Ctx, class: &str, key: &str, case: serde_json::Value, detail: String) {
    ctx.violation(class, key.to_string(), case, detail);
}

/// clause 1 (+ clause 4 when `in_range` is false): canonical shape round trips
fn judge_canon(ctx: &Ctx, c: &Canon, st: &mut Stats) {
    let s = c.semver();
    let p = c.pep440();
    let fits32 = c.numbers().iter().all(|n| rsv::fits_u32(n));
    let fits64 = c.numbers().iter().all(|n| rsv::fits_u64(n));
    let case = json!({"kind": "canon", "semver": s});
    st.inc("canon_cases");
    let step = |class: &str, input: &str, from: &str, to: &str, want: &str, must_succeed: bool, st: &mut Stats| -> Option<String> {
        st.inc("renders");
        match render(input, from, to) {
            Ok(Res::Ok(got)) => {
                st.observe(&(input, from, to, &got));
                if got != want {
                    let cl = if must_succeed { class.to_string() } else { format!("{class}_silent_change") };
                    viol(ctx, &cl, &format!("{input} [{from}->{to}]"), case.clone(), format!("rendered {got:?}, expected {want:?}"));
                }
                Some(got)
            }
            Ok(other) => {
                if must_succeed { viol(ctx, &format!("{class}_rejected"), &format!("{input} [{from}->{to}]"), case.clone(), format!("{other:?}")); } else { st.inc("out_of_range_rejected"); }
                None
            }
            Err(pn) => { viol(ctx, &format!("panic@{}", pn.file()), &format!("{input} [{from}->{to}]"), case.clone(), format!("{} at {}", pn.message, pn.location)); None }
        }
    };
    // an --output-prefix (or any other presentation option) must not bypass the representability check
    if !fits32 {
        st.inc("renders");
        match zv::run_cli(&["render", "-f", "semver", "--output-format", "pep440", "--output-prefix", "v", "--", &s], None) {
            Ok(Res::Ok(got)) => if got != format!("v{p}") { viol(ctx, "semver_to_pep440_silent_change", &format!("{s} [semver->pep440 --output-prefix v]"), case.clone(), format!("rendered {got:?}, expected an error or {:?}", format!("v{p}"))); },
            Ok(_) => st.inc("out_of_range_rejected"),
            Err(pn) => viol(ctx, &format!("panic@{}", pn.file()), &format!("{s} [prefix]"), case.clone(), pn.message),
        }
    }
    step("semver_to_semver", &s, "semver", "semver", &s, fits64, st);
    step("semver_to_semver_auto", &s, "auto", "semver", &s, fits64, st);
    if let Some(pp) = step("semver_to_pep440", &s, "semver", "pep440", &p, fits32, st) {
        if pp == p {
            // an explicit epoch 0 is a SemVer-side spelling only: PEP 440 drops it, so the way back yields the version without it
            let back = if c.epoch.as_deref() == Some("0") { let mut c2 = Canon { core: c.core.clone(), epoch: None, pre: c.pre.clone(), post: c.post.clone(), dev: c.dev.clone(), build: c.build }; c2.epoch = None; c2.semver() } else { s.clone() };
            step("pep440_back_to_semver", &pp, "pep440", "semver", &back, fits32, st);
            step("pep440_fixed_point", &pp, "pep440", "pep440", &pp, fits32, st);
        }
    }
}

/// clause 2 + 3 for a PEP 440 input string
fn judge_pep(ctx: &Ctx, p: &str, st: &mut Stats) {
    let Some(mp) = rp::parse(p) else { return };
    if mp.numbers().iter().any(|n| !rp::fits_u32(n)) { return; }
    st.inc("pep_cases");
    let case = json!({"kind": "pep", "input": p});
    let run = |input: &str, from: &str, to: &str, st: &mut Stats| -> Option<String> {
        st.inc("renders");
        match render(input, from, to) {
            Ok(Res::Ok(g)) => { st.observe(&(input, from, to, &g)); Some(g) }
            Ok(other) => { viol(ctx, "pep_render_rejected", &format!("{input} [{from}->{to}]"), case.clone(), format!("{other:?}")); None }
            Err(pn) => { viol(ctx, &format!("panic@{}", pn.file()), &format!("{input} [{from}->{to}]"), case.clone(), format!("{} at {}", pn.message, pn.location)); None }
        }
    };
    // PEP 440 rendering is the normal form and a fixed point
    if let Some(r) = run(p, "pep440", "pep440", st) {
        if r != mp.normal() { viol(ctx, "pep_to_pep_not_normal_form", p, case.clone(), format!("rendered {r:?}, normal form {:?}", mp.normal())); }
        if let Some(r2) = run(&r, "pep440", "pep440", st) { if r2 != r { viol(ctx, "pep_rendering_not_fixed_point", &r, case.clone(), format!("{r:?} re-renders as {r2:?}")); } }
    }
    if mp.release.len() > 3 { return; }
    let Some(s1) = run(p, "pep440", "semver", st) else { return };
    if !rsv::accepts(&s1) { viol(ctx, "pep_to_semver_invalid", p, case.clone(), format!("rendered {s1:?} is not SemVer")); return; }
    // SemVer rendering of a PEP 440 input is a fixed point
    if let Some(s2) = run(&s1, "semver", "semver", st) { if s2 != s1 { viol(ctx, "semver_rendering_not_fixed_point", &s1, case.clone(), format!("{s1:?} (from {p:?}) re-renders as {s2:?}")); } }
    let Some(p2) = run(&s1, "semver", "pep440", st) else { return };
    match rp::parse(&p2) {
        None => viol(ctx, "pep_round_trip_invalid", p, case.clone(), format!("{p:?} -> {s1:?} -> {p2:?} is not PEP 440")),
        Some(m2) => {
            st.inc("clause_round_trip_equal");
            if rp::cmp_c11(&mp, &m2) != Ordering::Equal {
                viol(ctx, "pep_round_trip_not_equal", p, case.clone(), format!("{p:?} -> {s1:?} -> {p2:?}: not the same version"));
            } else if mp.release.len() == 3 && p2 != mp.normal() {
                viol(ctx, "pep_round_trip_not_identical", p, case.clone(), format!("{p:?} -> {s1:?} -> {p2:?}, expected {:?}", mp.normal()));
            }
            if let Some(p3) = run(&p2, "pep440", "pep440", st) { if p3 != p2 { viol(ctx, "pep_rendering_not_fixed_point", &p2, case.clone(), format!("{p2:?} re-renders as {p3:?}")); } }
        }
    }
}

/// PEP 440 input with a number above u32: every rendering is an error or carries the exact number
fn judge_pep_out_of_range(ctx: &Ctx, p: &str, st: &mut Stats) {
    let Some(mp) = rp::parse(p) else { return };
    let big: Vec<String> = mp.numbers().iter().filter(|n| !rp::fits_u32(n)).map(|n| { let t = n.trim_start_matches('0'); if t.is_empty() { "0".to_string() } else { t.to_string() } }).collect();
    if big.is_empty() { return; }
    st.inc("pep_out_of_range_cases");
    let case = json!({"kind": "pep_oor", "input": p});
    for to in ["pep440", "semver"] {
        st.inc("renders");
        match render(p, "pep440", to) {
            Ok(Res::Ok(r)) => {
                let exact = if to == "pep440" { r == mp.normal() } else { big.iter().all(|b| r.contains(b.as_str())) };
                if !exact { viol(ctx, "pep_number_silently_changed", &format!("{p} [pep440->{to}]"), case.clone(), format!("rendered {r:?}; the input carries {big:?}")); }
            }
            Ok(_) => st.inc("pep_out_of_range_rejected"),
            Err(pn) => viol(ctx, &format!("panic@{}", pn.file()), &format!("{p} [pep440->{to}]"), case.clone(), format!("{} at {}", pn.message, pn.location)),
        }
    }
}

/// clause 3 for an arbitrary accepted SemVer string: its PEP 440 rendering is a fixed point (and valid)
fn judge_semver_fixed_point(ctx: &Ctx, s: &str, st: &mut Stats) {
    st.inc("semver_fp_cases");
    let case = json!({"kind": "semver_fp", "input": s});
    st.inc("renders");
    let r = match render(s, "semver", "pep440") {
        Ok(Res::Ok(r)) => r,
        Ok(_) => { st.inc("semver_to_pep_rejected"); return; }
        Err(pn) => { viol(ctx, &format!("panic@{}", pn.file()), s, case, format!("{} at {}", pn.message, pn.location)); return; }
    };
    st.observe(&(s, &r));
    // a number that does not fit PEP 440's u32 fields may make the conversion fail, but it is never replaced by another number
    if s.contains("4294967296") && !r.contains("4294967296") { viol(ctx, "semver_to_pep440_number_dropped", s, case.clone(), format!("rendered {r:?}: 4294967296 is gone")); }
    match rp::parse(&r) {
        None => { viol(ctx, "semver_to_pep_invalid", s, case.clone(), format!("rendered {r:?} is not PEP 440")); return; }
        Some(m) => if m.normal() != r { viol(ctx, "semver_to_pep_not_normal", s, case.clone(), format!("rendered {r:?}, normal form {:?}", m.normal())); }
    }
    st.inc("renders");
    match render(&r, "pep440", "pep440") {
        Ok(Res::Ok(r2)) => if r2 != r { viol(ctx, "pep_rendering_not_fixed_point", &r, case.clone(), format!("{r:?} (from {s:?}) re-renders as {r2:?}")); },
        Ok(other) => viol(ctx, "own_pep_rendering_rejected", &r, case.clone(), format!("{r:?} (from {s:?}): {other:?}")),
        Err(pn) => viol(ctx, &format!("panic@{}", pn.file()), &r, case.clone(), format!("{} at {}", pn.message, pn.location)),
    }
    // no panic on the lossy semver -> semver path either
    st.inc("renders");
    if let Err(pn) = render(s, "semver", "semver") { viol(ctx, &format!("panic@{}", pn.file()), s, case, format!("{} at {}", pn.message, pn.location)); }
}

fn canon_space(quick: bool) -> Vec<Canon> {
    let m32 = "4294967295";
    let nums: Vec<&str> = if quick { vec!["0", "1", m32] } else { vec!["0", "1", "10", m32] };
    let epochs: Vec<Option<&str>> = vec![None, Some("0"), Some("1"), Some("7"), Some(m32)];
    let mut pres: Vec<Option<(&'static str, &str)>> = vec![None];
    for l in ["alpha", "beta", "rc"] { for n in ["0", "1", m32] { pres.push(Some((l, n))); } }
    let posts: Vec<Option<&str>> = vec![None, Some("0"), Some("5"), Some(m32)];
    let devs: Vec<Option<&str>> = vec![None, Some("0"), Some("9")];
    // identifiers as zerv emits them: dot-separated lower-case alphanumerics, incl. hash-like ones that start with 0
    let builds: Vec<&'static str> = if quick { vec!["", "a", "a.1", "g1a2b3c", "0a7", "00ff.5"] } else { vec!["", "a", "a.1", "g1a2b3c", "1", "x.y.z", "0a7", "00ff.5", "0a7f3c1.0.00x", "main.2.g0a1b2c3"] };
    let mut out = vec![];
    for x in &nums { for y in &nums { for z in &nums { for e in &epochs { for p in &pres { for po in &posts { for d in &devs { for b in &builds {
        out.push(Canon { core: [x.to_string(), y.to_string(), z.to_string()], epoch: e.map(String::from), pre: p.map(|(l, n)| (l, n.to_string())), post: po.map(String::from), dev: d.map(String::from), build: b });
    }}}}}}}}
    out
}

fn out_of_range_space() -> Vec<Canon> {
    let big = ["4294967296", "18446744073709551615", "18446744073709551616", "99999999999999999999999"];
    let mut out = vec![];
    let base = || Canon { core: ["1".into(), "2".into(), "3".into()], epoch: Some("2".into()), pre: Some(("rc", "4".into())), post: Some("5".into()), dev: Some("6".into()), build: "a.1" };
    for b in big {
        for pos in 0..7 {
            for minimal in [false, true] {
                let mut c = base();
                if minimal { c.epoch = None; c.pre = None; c.post = None; c.dev = None; c.build = ""; }
                match pos {
                    0..=2 => c.core[pos] = b.into(),
                    3 => c.epoch = Some(b.into()),
                    4 => c.pre = Some(("alpha", b.into())),
                    5 => c.post = Some(b.into()),
                    _ => c.dev = Some(b.into()),
                }
                out.push(c);
            }
        }
    }
    out
}

/// dense numeric grid (numpool::grid) in each of the seven numeric positions of a fully populated and of a minimal shape
fn grid_space() -> Vec<Canon> {
    let mut out = vec![];
    let base = || Canon { core: ["1".into(), "2".into(), "3".into()], epoch: Some("2".into()), pre: Some(("rc", "4".into())), post: Some("5".into()), dev: Some("6".into()), build: "a.1" };
    for b in numpool::grid() {
        for pos in 0..7 {
            for minimal in [false, true] {
                let mut c = base();
                if minimal { c.epoch = None; c.pre = None; c.post = None; c.dev = None; c.build = ""; }
                match pos {
                    0..=2 => c.core[pos] = b.clone(),
                    3 => c.epoch = Some(b.clone()),
                    4 => c.pre = Some(("beta", b.clone())),
                    5 => c.post = Some(b.clone()),
                    _ => c.dev = Some(b.clone()),
                }
                out.push(c);
            }
        }
    }
    out
}

fn pep_space(quick: bool) -> Vec<String> {
    let epoch = ["", "0!", "1!", "4294967295!"];
    let release: Vec<&str> = if quick { vec!["1", "1.0", "1.2.3", "01.2"] } else { vec!["1", "0", "1.0", "0.1.0", "1.2.3", "01.2", "1.0.0", "4294967295.0.4294967295", "1.2.3.4", "1.0.0.0"] };
    let pre = ["", "a1", "-ALPHA_1", "rc", "b0", ".pre.2", "c4294967295"];
    let post = ["", "-1", ".post", "_rev.2", "r3", ".post4294967295"];
    let dev = ["", ".dev", "dev1", "-DEV-01"];
    let local: Vec<&str> = if quick { vec!["", "+a", "+1", "+A-b_01"] } else { vec!["", "+a", "+1", "+01", "+A-b_01", "+4294967295", "+0a.00", "+g1a2b3c"] };
    let v = ["", "v"];
    let mut out = vec![];
    for e in epoch { for r in &release { for p in pre { for po in post { for d in dev { for l in &local { for vv in v {
        out.push(format!("{vv}{e}{r}{p}{po}{d}{l}"));
    }}}}}}}
    out
}

fn token_space(max: usize) -> Vec<String> {
    let toks = ["epoch", "alpha", "beta", "rc", "post", "dev", "pre", "0", "1", "5", "x", "4294967296"];
    let mut out = vec![];
    let mut lvl: Vec<Vec<&str>> = vec![vec![]];
    for _ in 0..max {
        let mut next = vec![];
        for l in &lvl { for t in toks { let mut n = l.clone(); n.push(t); next.push(n); } }
        for n in &next { out.push(format!("1.2.3-{}", n.join("."))); }
        lvl = next;
    }
    out
}

fn main() {
    let ctx = Ctx::from_args("C07", "model_checking");
    if let Some(case) = ctx.replay_case() {
        let mut st = Stats::default();
        match case["kind"].as_str() {
            Some("canon") => {
                // rebuild the Canon from its SemVer text via the reference parser
                let s = case["semver"].as_str().unwrap();
                let all: Vec<Canon> = canon_space(false).into_iter().chain(out_of_range_space()).chain(grid_space()).collect();
                match all.iter().find(|c| c.semver() == s) { Some(c) => judge_canon(&ctx, c, &mut st), None => machinery_error("canonical case not in the generated space") }
            }
            Some("pep") => judge_pep(&ctx, case["input"].as_str().unwrap(), &mut st),
            Some("semver_fp") => judge_semver_fixed_point(&ctx, case["input"].as_str().unwrap(), &mut st),
            _ => machinery_error("bad replay kind"),
        }
        finish(&ctx, Coverage::default());
    }
    let quick = ctx.quick();
    let cs = canon_space(quick);
    let s1 = cs.par_iter().map(|c| { let mut st = Stats::default(); judge_canon(&ctx, c, &mut st); st }).reduce(Stats::default, Stats::merge);
    let oor = out_of_range_space();
    let s2 = oor.par_iter().map(|c| { let mut st = Stats::default(); st.inc("out_of_range_cases"); judge_canon(&ctx, c, &mut st); st }).reduce(Stats::default, Stats::merge);
    let gs = grid_space();
    let s2g = gs.par_iter().map(|c| { let mut st = Stats::default(); st.inc("grid_cases"); judge_canon(&ctx, c, &mut st); st }).reduce(Stats::default, Stats::merge);
    let s2 = s2.merge(s2g);
    // the same grid through the PEP 440 spellings of every numeric slot (in range: full round-trip clauses; above u32: no silent change)
    let pep_grid: Vec<String> = { let mut v = vec![]; for t in ["{N}!1.0", "{N}.0", "1.{N}", "1.0.{N}", "1.0a{N}", "1.0rc{N}.post2.dev3", "1.0.post{N}", "1.0-{N}", "1.0.dev{N}", "1.0+{N}", "1.0+a.{N}", "2!1.2.3b{N}.post4.dev5+l.6"] { for n in numpool::grid() { v.push(t.replace("{N}", &n)); } } v };
    let s2h = pep_grid.par_iter().map(|p| { let mut st = Stats::default(); st.inc("pep_grid_cases"); judge_pep(&ctx, p, &mut st); judge_pep_out_of_range(&ctx, p, &mut st); st }).reduce(Stats::default, Stats::merge);
    let s2 = s2.merge(s2h);
    let ps = pep_space(quick);
    let s3 = ps.par_iter().map(|p| { let mut st = Stats::default(); judge_pep(&ctx, p, &mut st); st }).reduce(Stats::default, Stats::merge);
    // PEP 440 spellings of every numeric slot x numerals at and above u32 / u64 (also zero-padded)
    let pep_oor: Vec<String> = { let mut v = vec![]; for t in ["{N}!1.0", "{N}.0", "1.{N}", "1.0.{N}", "1.0a{N}", "1.0-alpha.{N}", "1.0RC_{N}", "1.0-{N}", "1.0.post{N}", "1.0_rev{N}", "1.0r{N}", "1.0-post-{N}", "1.0.dev{N}", "1.0dev-{N}", "1.0+{N}", "1.0+a.{N}", "1.0a1-{N}.dev2", "3!1-{N}+abc"] { for n in ["4294967296", "04294967296", "18446744073709551615", "18446744073709551616", "99999999999999999999999"] { v.push(t.replace("{N}", n)); } } v };
    let s2b = pep_oor.par_iter().map(|p| { let mut st = Stats::default(); judge_pep_out_of_range(&ctx, p, &mut st); st }).reduce(Stats::default, Stats::merge);
    let s2 = s2.merge(s2b);
    let ts = token_space(if quick { 4 } else { 5 });
    let s4 = ts.par_iter().map(|s| { let mut st = Stats::default(); judge_semver_fixed_point(&ctx, s, &mut st); st }).reduce(Stats::default, Stats::merge);

    // many identifiers: canonical-shape versions whose build metadata has hundreds to thousands of identifiers (around powers
    // of two and ten) - the clauses put no bound on their number; also a PEP 440 local segment of that many parts
    let counts: Vec<usize> = if quick { vec![64, 65, 255, 256, 257, 1000, 1024, 1025, 4097, 10001] } else { vec![64, 65, 127, 128, 129, 255, 256, 257, 511, 512, 513, 999, 1000, 1001, 1023, 1024, 1025, 2047, 2048, 2049, 4095, 4096, 4097, 8191, 8192, 8193, 9999, 10000, 10001, 16383, 16384, 16385, 32767, 32768, 32769] };
    let many: Vec<Canon> = counts.iter().flat_map(|&n| {
        let build: &'static str = Box::leak((0..n).map(|i| format!("b{}", i % 10)).collect::<Vec<_>>().join(".").into_boxed_str());
        let one = |x: &str| x.to_string();
        vec![
            Canon { core: [one("1"), one("2"), one("3")], epoch: None, pre: None, post: None, dev: None, build },
            Canon { core: [one("1"), one("2"), one("3")], epoch: Some(one("2")), pre: Some(("rc", one("1"))), post: Some(one("4")), dev: Some(one("5")), build },
        ]
    }).collect();
    // (the conversions are quadratic in the number of identifiers: above 2000 identifiers only the three conversions the
    // statement names are run - to SemVer unchanged, to PEP 440, and back)
    let s_many = many.par_iter().map(|c| {
        let mut st = Stats::default(); st.inc("many_identifier_cases");
        if c.build.len() < 6000 { judge_canon(&ctx, c, &mut st); return st; }
        let (sv, pp) = (c.semver(), c.pep440());
        let n = c.build.split('.').count();
        for (from, to, input, want) in [("semver", "semver", &sv, &sv), ("semver", "pep440", &sv, &pp), ("pep440", "semver", &pp, &sv)] {
            st.inc("conversions");
            let key = format!("{from} -> {to} with {n} build identifiers ({}...)", &input[..input.len().min(40)]);
            match render(input, from, to) {
                Err(p) => viol(&ctx, &format!("panic@{}", p.file()), &key, json!({"kind":"many","n":n,"from":from,"to":to}), format!("{} at {}", p.message, p.location)),
                Ok(Res::Ok(o)) if o == *want => {}
                Ok(other) => viol(&ctx, "many_identifiers_not_converted", &key, json!({"kind":"many","n":n,"from":from,"to":to}), format!("{:?}", match &other { Res::Ok(o) => format!("printed {} characters, expected {}", o.len(), want.len()), x => format!("{x:?}") })),
            }
        }
        st
    }).reduce(Stats::default, Stats::merge);
    let s4 = s4.merge(s_many);

    // process conformance slice
    let mut s5 = Stats::default();
    let slice: Vec<(String, &str, &str)> = cs.iter().step_by((cs.len() / 40).max(1)).map(|c| (c.semver(), "semver", "pep440"))
        .chain(ps.iter().step_by((ps.len() / 40).max(1)).map(|p| (p.clone(), "pep440", "semver")))
        .chain(oor.iter().step_by(5).map(|c| (c.semver(), "semver", "pep440")))
        .chain(ts.iter().step_by((ts.len() / 30).max(1)).map(|s| (s.clone(), "semver", "semver")))
        .collect();
    let res: Vec<(String, String)> = slice.par_iter().filter_map(|(v, f, t)| {
        let args = ["render", "-f", f, "--output-format", t, "--", v.as_str()];
        let inproc = zv::run_cli(&args, None);
        let o = zv::run_bin(&args, None, &[], None);
        zv::conforms(&inproc, &o).err().map(|e| (format!("{v} [{f}->{t}]"), e))
    }).collect();
    s5.add("process_conformance_cases", slice.len() as u64);
    for (k, e) in res { ctx.violation("binary_differs_from_inprocess", k.clone(), json!({"kind":"proc","key":k}), e); }

    // the version to convert is the argument and nothing else: every slice case again with something on stdin (another version, several
    // lines, a Zerv document, garbage, nothing but an open pipe that closes late) and started in a directory holding a file named like the
    // version - result and status must be those of the run with stdin at /dev/null
    {
        let stdins: [(&str, &str); 5] = [("another version", "9.9.9\n"), ("two versions", "9.9.9\n8.8.8\n"), ("garbage", "not a version\n"), ("a Zerv document", "(schema:(core:[var(Major),var(Minor),var(Patch)],extra_core:[],build:[]),vars:(major:Some(9),minor:Some(9),patch:Some(9)))"), ("blank line", "\n")];
        let sub: Vec<&(String, &str, &str)> = slice.iter().step_by(3).collect();
        let cwd = zvharness::gitx::scratch_root().join("c07-cwd");
        std::fs::create_dir_all(&cwd).unwrap_or_else(|e| machinery_error(&format!("mkdir {cwd:?}: {e}")));
        for (v, _, _) in &sub { if !v.is_empty() && !v.contains('/') && v.len() < 200 && v != "." && v != ".." { let _ = std::fs::write(cwd.join(v), "9.9.9\n"); } }
        let bad: Vec<(String, String)> = sub.par_iter().flat_map(|(v, f, t)| {
            let args = ["render", "-f", f, "--output-format", t, "--", v.as_str()];
            let reference = zv::run_bin(&args, None, &[], None);
            let mut bad = vec![];
            for (name, text) in stdins.iter() {
                let o = zv::run_bin(&args, Some(text), &[], None);
                if o.stdout != reference.stdout || o.status != reference.status { bad.push((format!("{v} [{f}->{t}] with stdin holding {name}"), format!("stdin at /dev/null: exit {} {:?}; with {name} on stdin: exit {} {:?}", reference.status, reference.stdout_str(), o.status, o.stdout_str()))); }
            }
            let o = zv::run_bin(&args, None, &[], Some(&cwd));
            if o.stdout != reference.stdout || o.status != reference.status { bad.push((format!("{v} [{f}->{t}] started in a directory holding a file of that name"), format!("elsewhere: exit {} {:?}; there: exit {} {:?}", reference.status, reference.stdout_str(), o.status, o.stdout_str()))); }
            bad
        }).collect();
        s5.add("stdin_and_start_directory_runs", (sub.len() * (stdins.len() + 2)) as u64);
        for (k, e) in bad { ctx.violation("render_depends_on_stdin_or_start_directory", k.clone(), json!({"kind":"proc-ambient","key":k}), e); }
        let _ = std::fs::remove_dir_all(zvharness::gitx::scratch_root());
    }

    // determinism
    let d = |()| cs.iter().take(1000).map(|c| { let mut st = Stats::default(); judge_canon(&ctx, c, &mut st); st }).fold(Stats::default(), Stats::merge).digest;
    if d(()) != d(()) { machinery_error("determinism replay diverged"); }

    let all = s1.merge(s2).merge(s3).merge(s4).merge(s5.clone());
    let mut cov = Coverage::default();
    cov.states = (cs.len() + oor.len() + ps.len() + ts.len() + gs.len() + pep_grid.len()) as u64;
    cov.transitions = all.get("renders");
    cov.evaluations = all.get("renders");
    cov.traces_validated = all.get("renders");
    cov.distinct_nontrivial = all.get("canon_cases") + all.get("pep_cases") + all.get("semver_fp_cases");
    cov.rule = format!("canonical SemVer shapes: full product of core numbers x epoch x (label,number) x post x dev x build ({} versions) through semver->semver, semver->pep440, pep440->semver, pep440->pep440 against an independent formatter; {} out-of-range shapes (2^32, 2^64-1, 2^64, 23 digits in each numeric position) and 90 PEP 440 spellings of every numeric slot with numerals above u32 / u64 for the no-silent-change clause; {} PEP 440 spellings (product of epoch/release/pre/post/dev/local/prefix variants) for round-trip equality and fixed points; {} SemVer strings whose pre-release is every token sequence of length <= {} over [epoch alpha beta rc post dev pre 0 1 5 x 4294967296] for the fixed-point and no-silent-change clauses. every render goes through run_render (CLI entry). non-trivial = input versions judged. dense numeric grid (0..=300 and the neighbourhoods of 2^8..2^64, 10^2..10^20: {} values) in each of the 7 numeric positions of a full and a minimal canonical shape ({} versions) and in 12 PEP 440 spellings ({} strings)", cs.len(), oor.len(), ps.len(), ts.len(), if quick { 4 } else { 5 }, numpool::grid().len(), gs.len(), pep_grid.len());
    cov.exhaustive = true;
    cov.samples = vec![json!(cs[cs.len() / 2].semver()), json!(oor[3].semver()), json!(ps[ps.len() / 3]), json!(ts[ts.len() - 7])];
    cov.set("clause_counts", all.to_json());
    cov.set("process_conformance_cases", s5.get("process_conformance_cases"));
    cov.set("stdin_and_start_directory_runs", s5.get("stdin_and_start_directory_runs"));
    cov.assumptions = vec!["round-trip equality of PEP 440 versions is version equality under R-PEP's key (trailing release zeros insignificant); string identity only for three release numbers".into(), "numbers explored at 0, 1, small values and the u32/u64 boundaries only".into()];
    finish(&ctx, cov);
}
