//! C06 — rendering places every schema component where the documented rules say.
use std::str::FromStr;

use rayon::prelude::*;
use serde_json::json;
use zerv::schema::ZervSchemaPreset;
use zerv::version::{PEP440, SemVer};
use zvharness::refmodel::cal;
use zvharness::refmodel::ren::{self, RComp, RSchema, RVar, RVars};
use zvharness::zv::{self, Res};
use zvharness::*;

fn seqs(alpha: &[RComp], max: usize, valid: &dyn Fn(&[RComp]) -> bool) -> Vec<Vec<RComp>> {
    let mut out: Vec<Vec<RComp>> = vec![vec![]];
    let mut lvl: Vec<Vec<RComp>> = vec![vec![]];
    for _ in 0..max {
        let mut next = vec![];
        for l in &lvl {
            for a in alpha {
                let mut n = l.clone();
                n.push(a.clone());
                if valid(&n) { next.push(n); }
            }
        }
        out.extend(next.iter().cloned());
        lvl = next;
    }
    out
}

fn core_valid(s: &[RComp]) -> bool {
    // Major/Minor/Patch at most once each and in that relative order
    let mut last = -1i32;
    for c in s {
        let r = match c { RComp::Var(RVar::Major) => 0, RComp::Var(RVar::Minor) => 1, RComp::Var(RVar::Patch) => 2, _ => continue };
        if r <= last { return false; }
        last = r;
    }
    true
}

fn extra_valid(s: &[RComp]) -> bool {
    for v in [RVar::Epoch, RVar::PreRelease, RVar::Post, RVar::Dev] {
        if s.iter().filter(|c| **c == RComp::Var(v.clone())).count() > 1 { return false; }
    }
    true
}

pub fn assignments() -> Vec<(&'static str, RVars)> {
    vec![
        ("all_set", RVars { major: Some(1), minor: Some(2), patch: Some(3), epoch: Some(2), pre: Some(("rc", Some(4))), post: Some(5), dev: Some(6), distance: Some(7), dirty: Some(true),
            bumped_branch: Some("feature/x".into()), bumped_commit_hash: Some("g1a2b3c4d5e6f".into()), bumped_timestamp: Some(1709247600), last_branch: Some("main".into()),
            last_commit_hash: Some("g0000000aaaa".into()), last_timestamp: Some(1700000000), custom: json!({"k": "v1"}) }),
        ("all_unset", RVars { custom: json!({}), ..Default::default() }),
        ("label_only_pre", RVars { major: Some(1), pre: Some(("alpha", None)), custom: json!({"k": true}), ..Default::default() }),
        ("zeros", RVars { major: Some(0), minor: Some(0), patch: Some(0), epoch: Some(0), pre: Some(("beta", Some(0))), post: Some(0), dev: Some(0), distance: Some(0), dirty: Some(false),
            bumped_branch: Some("0".into()), bumped_commit_hash: Some("0000000000".into()), bumped_timestamp: Some(0), custom: json!({"k": 0}), ..Default::default() }),
        ("odd_text", RVars { major: Some(10), minor: Some(20), patch: None, post: Some(1), distance: Some(3), bumped_branch: Some("Feat/0042_x".into()), bumped_commit_hash: Some("ABC".into()),
            last_timestamp: Some(951782400), custom: json!({"k": "Ab.01-x"}), ..Default::default() }),
        ("custom_nested", RVars { major: Some(4294967295), minor: Some(1), patch: Some(0), pre: Some(("rc", Some(4294967295))), dev: Some(1709247600), bumped_branch: Some("--".into()),
            bumped_commit_hash: Some("".into()), custom: json!({"k": {"a": 1}}), ..Default::default() }),
    ]
}

fn judge(ctx: &Ctx, s: &RSchema, name: &str, v: &RVars, st: &mut Stats) {
    let z = match bind::zerv(s, v) {
        Ok(z) => z,
        Err(e) => { ctx.violation("valid_schema_refused", format!("{s:?}"), json!({"kind":"render","schema":format!("{s:?}"),"vars":name}), e); return; }
    };
    for fmt in ["semver", "pep440"] {
        st.inc("conversions");
        let (want, got) = if fmt == "semver" {
            (ren::semver(s, v), catch(|| SemVer::from(z.clone()).to_string()))
        } else {
            (ren::pep440(s, v), catch(|| PEP440::from(z.clone()).to_string()))
        };
        // a version variable the schema prints (epoch, pre-release number, post, dev) above PEP 440's 32-bit fields cannot be
        // placed "in its slot": the user-visible path (OutputFormatter, the one every sub-command prints through) must refuse the
        // object or print the exact documented placement; the infallible library conversion is not the observation point there
        let secondary_out_of_range = fmt == "pep440" && {
            let used = |x: RVar| s.core.iter().chain(s.extra_core.iter()).any(|c| *c == RComp::Var(x.clone()));
            let big = |n: Option<u64>| n.map(|n| n > u32::MAX as u64).unwrap_or(false);
            (used(RVar::Epoch) && big(v.epoch)) || (used(RVar::PreRelease) && big(v.pre.and_then(|p| p.1))) || (used(RVar::Post) && big(v.post)) || (used(RVar::Dev) && big(v.dev))
        };
        if secondary_out_of_range {
            st.inc("pep440_secondary_out_of_range");
            match catch(|| zerv::cli::utils::OutputFormatter::format_output(&z, "pep440", None, &None)) {
                Ok(Err(_)) => st.inc("pep440_secondary_out_of_range_refused"),
                Ok(Ok(g)) => if g != want { ctx.violation("pep440_out_of_range_number_altered", format!("{} | {} | {} [{name}]", show(&s.core), show(&s.extra_core), show(&s.build)),
                    json!({"kind":"render","core":show(&s.core),"extra_core":show(&s.extra_core),"build":show(&s.build),"vars":name,"format":fmt}), format!("printed {g:?}; a number above 4294967295 must be refused or printed exactly ({want:?})")); },
                Err(p) => ctx.violation(&format!("panic@{}", p.file()), format!("{s:?} [{name}]"), json!({"kind":"render","vars":name}), p.message),
            }
            continue;
        }
        match got {
            Ok(g) => {
                st.observe(&(fmt, &g));
                if g != want {
                    ctx.violation(&format!("{fmt}_placement_mismatch"), format!("{} | {} | {} [{name}]", show(&s.core), show(&s.extra_core), show(&s.build)),
                        json!({"kind":"render","core":show(&s.core),"extra_core":show(&s.extra_core),"build":show(&s.build),"vars":name,"format":fmt}), format!("rendered {g:?}, documented placement gives {want:?}"));
                }
            }
            Err(p) => ctx.violation(&format!("panic@{}", p.file()), format!("{s:?} [{name}]"), json!({"kind":"render","vars":name}), p.message),
        }
    }
}

fn show(v: &[RComp]) -> String {
    v.iter().map(|c| match c { RComp::Str(s) => format!("str({s:?})"), RComp::UInt(n) => format!("uint({n})"), RComp::Var(v) => format!("{v:?}") }).collect::<Vec<_>>().join(",")
}

fn main() {
    let ctx = Ctx::from_args("C06", "model_checking");
    let quick = ctx.quick();
    let now = ctx.pinned_now();
    use RComp::{Str, UInt, Var as V};
    let core_alpha = vec![V(RVar::Major), V(RVar::Minor), V(RVar::Patch), UInt(5), Str("x".into()), Str("1.2".into()), Str("-".into()), Str("007".into()),
        V(RVar::Distance), V(RVar::BumpedBranch), V(RVar::Ts("YYYY".into())), V(RVar::Custom("k".into()))];
    let extra_alpha = vec![V(RVar::Epoch), V(RVar::PreRelease), V(RVar::Post), V(RVar::Dev), Str("x".into()), UInt(0), V(RVar::Dirty), V(RVar::BumpedBranch)];
    let build_alpha = vec![Str("B-1".into()), UInt(3), V(RVar::Distance), V(RVar::BumpedCommitHashShort)];
    let asg = assignments();

    let run_space = |lc: usize, le: usize, lb: usize| -> (Stats, usize) {
        let cores = seqs(&core_alpha, lc, &core_valid);
        let extras = seqs(&extra_alpha, le, &extra_valid);
        let builds = seqs(&build_alpha, lb, &|_| true);
        let n = cores.len() * extras.len() * builds.len();
        let st = cores.par_iter().map(|c| {
            let mut st = Stats::default();
            for e in &extras { for b in &builds {
                if c.is_empty() && e.is_empty() && b.is_empty() { continue; }
                st.inc("schemas");
                let s = RSchema { core: c.clone(), extra_core: e.clone(), build: b.clone() };
                for (name, v) in &asg { judge(&ctx, &s, name, v, &mut st); }
            }}
            st
        }).reduce(Stats::default, Stats::merge);
        (st, n)
    };
    if let Some(case) = ctx.replay_case() {
        // replay = re-run the quick space and keep only violations with the same key (schemas are regenerated, not parsed)
        let _ = case;
        let _ = run_space(3, 2, 1);
        finish(&ctx, Coverage::default());
    }
    let (s1, n1) = if quick { run_space(3, 2, 1) } else { run_space(4, 2, 1) };
    let (s2, n2) = if quick { (Stats::default(), 0) } else { run_space(3, 3, 2) };

    // wide numbers: a component whose value is (or contains) a digit run at or above the u32 / u64 widths, in each
    // section (release vs local vs pre-release identifier) - every digit must come out exactly, in both formats
    let s_wide = {
        use RComp::{Str, UInt, Var as V};
        let wide: Vec<RComp> = vec![UInt(4294967295), UInt(4294967296), UInt(u64::MAX), Str("20240315141045".into()), Str("Nightly-20240315141045".into()), Str("00099999999999".into()), Str("4294967296.4294967295.x".into()),
            V(RVar::Ts("compact_datetime".into())), V(RVar::Ts("compact_date".into())), V(RVar::BumpedTimestamp), V(RVar::Custom("k".into())), V(RVar::Distance), V(RVar::BumpedBranch)];
        let wide_vars: Vec<(&'static str, RVars)> = vec![
            ("wide_custom_number", RVars { major: Some(1), minor: Some(2), patch: Some(3), distance: Some(4294967296), bumped_branch: Some("build/20240315141045".into()), bumped_timestamp: Some(1710511845), custom: json!({"k": 18446744073709551615u64}), ..Default::default() }),
            ("wide_custom_text", RVars { major: Some(4294967296), minor: Some(0), patch: Some(u64::MAX), distance: Some(u64::MAX), bumped_branch: Some("0004294967296".into()), bumped_timestamp: Some(4102444800), last_timestamp: Some(1), custom: json!({"k": "id-99999999999999999999"}), ..Default::default() }),
        ];
        let mut wide_vars = wide_vars;
        // custom leaves of every scalar JSON type (fractional, exponent, negative, boolean, numeric text): each is a set value
        for (name, val) in [("custom_float", json!(3.11)), ("custom_neg_float", json!(-0.5)), ("custom_exp", json!(1e21)), ("custom_one_point_zero", json!(1.0)), ("custom_neg_int", json!(-7)), ("custom_false", json!(false)), ("custom_numeric_text", json!("007.50")), ("custom_small_exp", json!(1e-7)),
            // digits wrapped in white space of every kind (ASCII, NBSP, EM SPACE, ideographic space, vertical tab): still an integer
            ("custom_ws_ascii", json!(" 7 ")), ("custom_ws_nbsp", json!("\u{a0}7")), ("custom_ws_emspace", json!("\u{2003}12\u{2003}")), ("custom_ws_ideographic", json!("\u{3000}3")), ("custom_ws_vt", json!("\u{b}5")), ("custom_ws_inner", json!("1\u{a0}2"))] {
            wide_vars.push((name, RVars { major: Some(1), minor: Some(2), patch: Some(7), distance: Some(12), bumped_branch: Some("py".into()), bumped_timestamp: Some(1710511845), custom: json!({"k": val}), ..Default::default() }));
        }
        let base = vec![V(RVar::Major), V(RVar::Minor), V(RVar::Patch)];
        let mut jobs: Vec<RSchema> = vec![];
        for w in &wide {
            jobs.push(RSchema { core: base.clone(), extra_core: vec![], build: vec![Str("b".into()), w.clone()] });
            jobs.push(RSchema { core: base.clone(), extra_core: vec![V(RVar::PreRelease), w.clone()], build: vec![] });
            jobs.push(RSchema { core: [base.clone(), vec![w.clone()]].concat(), extra_core: vec![], build: vec![] });
            jobs.push(RSchema { core: vec![w.clone(), V(RVar::Minor)], extra_core: vec![], build: vec![w.clone()] });
        }
        jobs.par_iter().map(|sc| { let mut st = Stats::default(); st.inc("wide_number_schemas"); for (name, v) in &wide_vars { judge(&ctx, sc, name, v, &mut st); } st }).reduce(Stats::default, Stats::merge)
    };

    // dense numeric grid (numpool): each grid value in one numeric variable at a time (and in all of them at once), as a
    // uint() literal, as --distance and as a custom number, under a schema that prints every numeric variable and under the
    // four placements of the wide-number layer
    let s_grid = {
        use RComp::{Str, UInt, Var as V};
        let base = vec![V(RVar::Major), V(RVar::Minor), V(RVar::Patch)];
        let full_extra = vec![V(RVar::Epoch), V(RVar::PreRelease), V(RVar::Post), V(RVar::Dev)];
        let grid = numpool::grid_u64();
        grid.par_iter().map(|&g| {
            let mut st = Stats::default();
            st.inc("grid_values");
            let b = || RVars { major: Some(1), minor: Some(2), patch: Some(3), epoch: Some(2), pre: Some(("rc", Some(4))), post: Some(5), dev: Some(6), distance: Some(7), bumped_branch: Some("main".into()), custom: json!({"k": 9}), ..Default::default() };
            let mut vs: Vec<(&'static str, RVars)> = vec![];
            let mut v = b(); v.major = Some(g); vs.push(("grid_major", v));
            let mut v = b(); v.minor = Some(g); vs.push(("grid_minor", v));
            let mut v = b(); v.patch = Some(g); vs.push(("grid_patch", v));
            let mut v = b(); v.epoch = Some(g); vs.push(("grid_epoch", v));
            let mut v = b(); v.pre = Some(("beta", Some(g))); vs.push(("grid_pre", v));
            let mut v = b(); v.post = Some(g); vs.push(("grid_post", v));
            let mut v = b(); v.dev = Some(g); vs.push(("grid_dev", v));
            let mut v = b(); v.distance = Some(g); vs.push(("grid_distance", v));
            let mut v = b(); v.custom = json!({"k": g}); vs.push(("grid_custom", v));
            let mut v = b(); v.bumped_branch = Some(format!("r/{g}")); vs.push(("grid_branch", v));
            vs.push(("grid_all", RVars { major: Some(g), minor: Some(g), patch: Some(g), epoch: Some(g), pre: Some(("alpha", Some(g))), post: Some(g), dev: Some(g), distance: Some(g), bumped_branch: Some(g.to_string()), custom: json!({"k": g}), ..Default::default() }));
            let w = UInt(g);
            let scs = vec![
                RSchema { core: base.clone(), extra_core: full_extra.clone(), build: vec![V(RVar::Distance), V(RVar::Custom("k".into())), V(RVar::BumpedBranch)] },
                RSchema { core: base.clone(), extra_core: vec![], build: vec![Str("b".into()), w.clone()] },
                RSchema { core: base.clone(), extra_core: vec![V(RVar::PreRelease), w.clone(), V(RVar::Distance)], build: vec![] },
                RSchema { core: [base.clone(), vec![w.clone(), V(RVar::Distance)]].concat(), extra_core: vec![], build: vec![] },
                RSchema { core: vec![w.clone(), V(RVar::Minor)], extra_core: vec![V(RVar::Custom("k".into()))], build: vec![w.clone()] },
            ];
            for sc in &scs { for (name, v) in &vs { judge(&ctx, sc, name, v, &mut st); } }
            st
        }).reduce(Stats::default, Stats::merge)
    };

    // every timestamp pattern by name x instants on which calendar year, ISO week-year, month and week number disagree
    // (the days around New Year whose ISO week belongs to the neighbouring year, leap days, month ends, the epoch) in each
    // placement: the pattern must print the UTC calendar field, whatever section it sits in
    let s_ts = {
        use RComp::{Str, Var as V};
        let instants: [(&'static str, u64); 18] = [("1970-01-01", 0), ("1999-12-31", 946684799), ("2000-01-01", 946684800), ("2000-01-02", 946771200), ("2000-02-29", 951782400),
            ("2010-01-03", 1262476800), ("2016-01-03", 1451779200), ("2018-12-31", 1546214400), ("2019-12-30", 1577664000), ("2019-12-31", 1577836799), ("2021-01-01", 1609459200),
            ("2021-01-03", 1609631999), ("2021-01-04", 1609718400), ("2023-01-01", 1672531200), ("2024-02-29", 1709164800), ("2024-12-30", 1735516800), ("2024-12-31", 1735689599), ("2026-01-01", 1767225600)];
        let mut tvars: Vec<(&'static str, RVars)> = vec![];
        for (name, t) in instants {
            tvars.push((name, RVars { major: Some(1), minor: Some(2), patch: Some(3), bumped_timestamp: Some(t), last_timestamp: Some(1700000000), custom: json!({}), ..Default::default() }));
        }
        // only the tag's timestamp is set
        tvars.push(("last-only-2021-01-02", RVars { major: Some(1), minor: Some(2), patch: Some(3), last_timestamp: Some(1609545600), custom: json!({}), ..Default::default() }));
        let base = vec![V(RVar::Major), V(RVar::Minor), V(RVar::Patch)];
        let mut jobs: Vec<RSchema> = vec![];
        for p in cal::PATTERNS {
            let w = V(RVar::Ts(p.to_string()));
            jobs.push(RSchema { core: base.clone(), extra_core: vec![], build: vec![Str("b".into()), w.clone()] });
            jobs.push(RSchema { core: base.clone(), extra_core: vec![V(RVar::PreRelease), w.clone()], build: vec![] });
            jobs.push(RSchema { core: vec![w.clone(), V(RVar::Minor), V(RVar::Patch)], extra_core: vec![], build: vec![] });
            jobs.push(RSchema { core: vec![w.clone(), V(RVar::Ts("MM".into())), V(RVar::Ts("DD".into()))], extra_core: vec![w.clone()], build: vec![w.clone(), V(RVar::Ts("YYYY".into()))] });
        }
        // far instants (beyond year 9999: the first second of year 10000, 10^12, a millisecond clock value, 5 * 10^12, the calendar library's last second 8210266876799 -
        // instants beyond it cannot be given a date by the library and are left open):
        // the month / day / hour / minute / second / week / two-digit-year patterns are still the UTC calendar fields (the year and the compact forms
        // are left out there: the calendar library prints a five-digit year with a '+' sign, which the statement does not speak about)
        let far: Vec<(&'static str, RVars)> = [("year-10000", 253402300800u64), ("1e12", 1_000_000_000_000), ("ms-clock-2024-03-15", 1_710_511_845_000), ("5e12", 5_000_000_000_000), ("last-second", 8_210_266_876_799)].into_iter()
            .map(|(n, t)| (n, RVars { major: Some(1), minor: Some(2), patch: Some(3), bumped_timestamp: Some(t), last_timestamp: Some(1700000000), custom: json!({}), ..Default::default() })).collect();
        let mut far_jobs: Vec<RSchema> = vec![];
        for p in cal::PATTERNS.iter().filter(|p| !["YYYY", "compact_date", "compact_datetime"].contains(p)) {
            let w = V(RVar::Ts(p.to_string()));
            far_jobs.push(RSchema { core: base.clone(), extra_core: vec![], build: vec![Str("b".into()), w.clone()] });
            far_jobs.push(RSchema { core: base.clone(), extra_core: vec![V(RVar::PreRelease), w.clone()], build: vec![] });
            far_jobs.push(RSchema { core: vec![w.clone(), V(RVar::Minor), V(RVar::Patch)], extra_core: vec![], build: vec![] });
        }
        let s_far = far_jobs.par_iter().map(|sc| { let mut st = Stats::default(); st.inc("timestamp_pattern_schemas"); st.inc("far_instant_schemas"); for (name, v) in &far { judge(&ctx, sc, name, v, &mut st); } st }).reduce(Stats::default, Stats::merge);
        jobs.par_iter().map(|sc| { let mut st = Stats::default(); st.inc("timestamp_pattern_schemas"); for (name, v) in &tvars { judge(&ctx, sc, name, v, &mut st); } st }).reduce(Stats::default, Stats::merge).merge(s_far)
    };

    // custom variable paths: keys with '/', '~', digits and dots-as-nesting, paths that run into arrays, objects or nothing
    // (unset), each in every placement
    let s_paths = {
        use RComp::{Str, Var as V};
        let custom = json!({"k": "v1", "a/b": 77, "p": {"q/r": "s", "t~0u": 5, "deep": {"er": "z", "n": 0}, "": "emptykey"}, "tags": ["nightly", "x"], "x~1y": "tilde", "0": "zero", "arr": {"0": "objzero"}, "sp ace": "w", "é": "acc", "nul": null, "-": "dash"});
        let vars = vec![("custom_paths", RVars { major: Some(1), minor: Some(2), patch: Some(3), custom, ..Default::default() })];
        let keys = ["k", "a/b", "p.q/r", "p.t~0u", "p.deep.er", "p.deep.n", "tags.0", "tags", "p", "p.deep", "x~1y", "0", "arr.0", "sp ace", "é", "nul", "-", "missing", "missing.k", "k.v1", "a", "p.q", "tags.nightly", "/k", "k/", "p/deep/er", "~0", "p.", ".p"];
        let base = vec![V(RVar::Major), V(RVar::Minor), V(RVar::Patch)];
        let mut jobs: Vec<RSchema> = vec![];
        for k in keys {
            let w = V(RVar::Custom(k.to_string()));
            jobs.push(RSchema { core: base.clone(), extra_core: vec![], build: vec![Str("b".into()), w.clone()] });
            jobs.push(RSchema { core: base.clone(), extra_core: vec![w.clone()], build: vec![] });
            jobs.push(RSchema { core: [base.clone(), vec![w.clone()]].concat(), extra_core: vec![], build: vec![] });
            jobs.push(RSchema { core: vec![w.clone(), V(RVar::Minor)], extra_core: vec![w.clone()], build: vec![w.clone()] });
        }
        jobs.par_iter().map(|sc| { let mut st = Stats::default(); st.inc("custom_path_schemas"); for (name, v) in &vars { judge(&ctx, sc, name, v, &mut st); } st }).reduce(Stats::default, Stats::merge)
    };

    // smart preset tiers
    let mut s3 = Stats::default();
    for family in ["standard", "calver"] { for variant in ["", "no-context", "context"] {
        let preset = if variant.is_empty() { family.to_string() } else { format!("{family}-{variant}") };
        for dirty in [None, Some(false), Some(true)] { for distance in [None, Some(0u64), Some(1), Some(5)] { for pre in [None, Some(("alpha", Some(1u64))), Some(("rc", None))] { for post in [None, Some(0u64), Some(2)] { for dev in [None, Some(9u64)] { for bystander in 0..6 {
            s3.inc("tier_cases");
            let mut v = RVars { major: Some(1), minor: Some(2), patch: Some(3), dirty, distance, pre, post, dev, epoch: Some(1), bumped_branch: Some("main".into()), bumped_commit_hash: Some("gabcdef012".into()), bumped_timestamp: Some(1700000000), custom: json!({}), ..Default::default() };
            // bystanders: the variables the tier must not depend on, in relations to one another that a git source produces
            // (HEAD on the tagged commit: equal hashes / branches / times) or never produces (all unset, zeros, only last_* set)
            match bystander {
                1 => { v.last_commit_hash = v.bumped_commit_hash.clone(); v.last_branch = v.bumped_branch.clone(); v.last_timestamp = v.bumped_timestamp; }
                2 => { v.bumped_commit_hash = None; v.bumped_branch = None; v.bumped_timestamp = None; v.epoch = None; }
                3 => { v.last_commit_hash = Some("g0123456789".into()); v.last_branch = Some("release/1".into()); v.last_timestamp = Some(1600000000); v.major = Some(0); v.minor = Some(0); v.patch = Some(0); }
                4 => { v.bumped_commit_hash = None; v.last_commit_hash = Some("gabcdef012".into()); v.last_timestamp = Some(1700000000); v.bumped_timestamp = None; v.custom = json!({"dirty": true, "distance": 9, "post": 7}); }
                5 => { v.last_commit_hash = v.bumped_commit_hash.clone(); v.last_timestamp = Some(1700000001); v.bumped_branch = Some("".into()); }
                _ => {}
            }
            let (extra, with_ctx) = ren::smart_tier(&v, variant);
            let core = if family == "standard" { vec![V(RVar::Major), V(RVar::Minor), V(RVar::Patch)] } else { vec![V(RVar::Ts("YYYY".into())), V(RVar::Ts("MM".into())), V(RVar::Ts("DD".into())), V(RVar::Patch)] };
            let build = if with_ctx { vec![V(RVar::BumpedBranch), V(RVar::Distance), V(RVar::BumpedCommitHashShort)] } else { vec![] };
            let want = RSchema { core, extra_core: extra, build };
            let key = format!("{preset} dirty={dirty:?} distance={distance:?} pre={pre:?} post={post:?} dev={dev:?} bystanders#{bystander}");
            let case = json!({"kind":"tier","key":key});
            let zv_vars = bind::vars(&v);
            match catch(|| ZervSchemaPreset::from_str(&preset).map(|p| p.schema_with_zerv(&zv_vars))) {
                Ok(Ok(got)) => { let g = bind::rschema(&got); if g != want { ctx.violation("smart_tier_mismatch", key.clone(), case.clone(), format!("schema {g:?}, tier table gives {want:?}")); } }
                other => ctx.violation("smart_tier_failed", key.clone(), case.clone(), format!("{:?}", other.map(|r| r.map(|_| ())))),
            }
            // and through the CLI (stdin source + --schema preset), both formats
            let doc = bind::zerv(&RSchema { core: vec![V(RVar::Major)], extra_core: vec![], build: vec![] }, &v).unwrap().to_string();
            for fmt in ["semver", "pep440"] {
                s3.inc("tier_cli_runs");
                // a dirty tree makes `zerv version` replace the bumped timestamp by the (pinned) wall clock
                let mut vv = v.clone();
                if dirty == Some(true) { vv.bumped_timestamp = Some(now); }
                let wants = if fmt == "semver" { ren::semver(&want, &vv) } else { ren::pep440(&want, &vv) };
                match zv::run_cli(&["version", "--source", "stdin", "--schema", &preset, "--output-format", fmt], Some(&doc)) {
                    Ok(Res::Ok(g)) => if g != wants { ctx.violation("smart_tier_render_mismatch", format!("{key} [{fmt}]"), case.clone(), format!("printed {g:?}, expected {wants:?}")); },
                    other => ctx.violation("smart_tier_cli_failed", format!("{key} [{fmt}]"), case.clone(), format!("{other:?}")),
                }
            }
        }}}}}}
    }}

    // CLI conformance slice: in-process From<Zerv> vs `zerv version --source stdin` (in-process CLI) vs real binary
    let mut s4 = Stats::default();
    {
        let cores = seqs(&core_alpha, 2, &core_valid);
        let extras = seqs(&extra_alpha, 2, &extra_valid);
        let mut i = 0usize;
        let mut bin_cases = vec![];
        for c in &cores { for e in &extras {
            i += 1;
            if i % 7 != 0 { continue; }
            let s = RSchema { core: c.clone(), extra_core: e.clone(), build: vec![build_alpha[i % 4].clone()] };
            let (name, v) = &asg[i % asg.len()];
            let Ok(z) = bind::zerv(&s, v) else { continue };
            let doc = z.to_string();
            for fmt in ["semver", "pep440"] {
                s4.inc("cli_conformance_cases");
                // the pipeline normalises epoch 0 to "unset" before rendering
                let mut zn = z.clone();
                zn.normalize();
                if zn.vars.dirty == Some(true) { zn.vars.bumped_timestamp = Some(now); }
                let direct = if fmt == "semver" { SemVer::from(zn.clone()).to_string() } else { PEP440::from(zn.clone()).to_string() };
                let r = zv::run_cli(&["version", "--source", "stdin", "--output-format", fmt], Some(&doc));
                let big = ren::raw(&V(RVar::Major), v).map(|n| !ren::fits(&n, "4294967295")).unwrap_or(false) || v.pre.and_then(|p| p.1).map(|n| n > u32::MAX as u64).unwrap_or(false);
                match &r {
                    Ok(Res::Ok(g)) if *g == direct => {}
                    Ok(Res::Err(_)) if fmt == "pep440" && big => { s4.inc("pep440_unrepresentable_rejected"); }
                    other => ctx.violation("cli_differs_from_conversion", format!("{s:?} [{name}] [{fmt}]"), json!({"kind":"cli"}), format!("CLI {other:?}, direct conversion {direct:?}")),
                }
                if bin_cases.len() < 120 && i % 49 == 0 { bin_cases.push((doc.clone(), fmt, r)); }
            }
        }}
        let res: Vec<String> = bin_cases.par_iter().filter_map(|(doc, fmt, r)| {
            let o = zv::run_bin(&["version", "--source", "stdin", "--output-format", fmt], Some(doc), &[], None);
            zv::conforms(r, &o).err()
        }).collect();
        s4.add("process_conformance_cases", bin_cases.len() as u64);
        for e in res { ctx.violation("binary_differs_from_inprocess", e.clone(), json!({"kind":"proc"}), e); }
    }

    // words in text variables, through the command-line pipeline (stdin document -> zerv version): values that mean something
    // to git, to a CI system or to a configuration language (HEAD, refs/heads/..., origin/..., none, null, true, ~, *) are text
    // like any other - a set variable contributes its sanitised value wherever the schema prints it. Judged by R-REN on the
    // document's own variables (the only normalisation the pipeline is documented to do is epoch 0 -> unset).
    let mut s_words = Stats::default();
    {
        let words = ["HEAD", "head", "Head", "main", "master", "trunk", "refs/heads/main", "refs/heads/HEAD", "refs/remotes/origin/main", "refs/remotes/origin/HEAD", "origin/main", "origin/HEAD", "origin/origin/x", "refs/heads/origin/x",
            "refs/tags/v1.0.0", "refs/pull/12/merge", "heads/main", "remotes/origin/main", "(no branch)", "(HEAD detached at 1a2b3c4)", "detached", "none", "None", "null", "NULL", "nil", "true", "false", "yes", "no", "on", "off", "~", "*", "-", "0", "00", "undefined",
            "unknown", "default", "latest", "v1.2.3", "1.2.3", "tags/v1", "feature/HEAD", "HEADS", "dependabot/cargo/serde-1.0.200", "renovate/main-deps", "gh-readonly-queue/main/pr-7-abc", "release/1.2.x", "user@host:path", "a b"];
        let sc = RSchema { core: vec![V(RVar::Major), V(RVar::Minor), V(RVar::Patch)], extra_core: vec![V(RVar::BumpedBranch), V(RVar::Post), V(RVar::LastBranch)], build: vec![V(RVar::BumpedBranch), V(RVar::Custom("k".into())), V(RVar::BumpedCommitHashShort), V(RVar::LastCommitHash), V(RVar::Distance)] };
        let cases: Vec<(String, RVars)> = words.iter().flat_map(|w| {
            let base = RVars { major: Some(1), minor: Some(2), patch: Some(3), post: Some(7), distance: Some(4), dirty: Some(false), custom: json!({}), ..Default::default() };
            vec![
                (format!("bumped_branch={w:?}"), RVars { bumped_branch: Some(w.to_string()), ..base.clone() }),
                (format!("last_branch={w:?}"), RVars { last_branch: Some(w.to_string()), ..base.clone() }),
                (format!("both branches={w:?}"), RVars { bumped_branch: Some(w.to_string()), last_branch: Some(w.to_string()), ..base.clone() }),
                (format!("custom.k={w:?}"), RVars { custom: json!({"k": w}), ..base.clone() }),
                (format!("hashes={w:?}"), RVars { bumped_commit_hash: Some(w.to_string()), last_commit_hash: Some(w.to_string()), ..base.clone() }),
            ]
        }).collect();
        s_words = cases.par_iter().map(|(name, v)| {
            let mut st = Stats::default();
            let Ok(z) = bind::zerv(&sc, v) else { machinery_error(&format!("words layer: cannot build {name}")) };
            let doc = z.to_string();
            for fmt in ["semver", "pep440"] {
                st.inc("cli_word_cases");
                let want = if fmt == "semver" { ren::semver(&sc, v) } else { ren::pep440(&sc, v) };
                match zv::run_cli(&["version", "--source", "stdin", "--output-format", fmt], Some(&doc)) {
                    Ok(Res::Ok(g)) if g == want => {}
                    Err(p) => ctx.violation(&format!("panic@{}", p.file()), format!("words {name} [{fmt}]"), json!({"kind":"cli-words","vars":name}), p.message),
                    other => ctx.violation("cli_text_value_not_placed", format!("{name} [{fmt}]"), json!({"kind":"cli-words","vars":name,"format":fmt}), format!("zerv version --source stdin printed {other:?}, documented placement gives {want:?}")),
                }
                // and as an override on a document that has no branch
                if name.starts_with("bumped_branch=") {
                    st.inc("cli_word_cases");
                    let w = v.bumped_branch.clone().unwrap();
                    let Ok(z0) = bind::zerv(&sc, &RVars { bumped_branch: None, ..v.clone() }) else { continue };
                    match zv::run_cli(&["version", "--source", "stdin", "--bumped-branch", &w, "--output-format", fmt], Some(&z0.to_string())) {
                        Ok(Res::Ok(g)) if g == want => {}
                        Err(p) => ctx.violation(&format!("panic@{}", p.file()), format!("words --bumped-branch {w:?} [{fmt}]"), json!({"kind":"cli-words","vars":name}), p.message),
                        other => ctx.violation("cli_text_value_not_placed", format!("--bumped-branch {w:?} [{fmt}]"), json!({"kind":"cli-words","vars":name,"format":fmt}), format!("printed {other:?}, documented placement gives {want:?}")),
                    }
                }
            }
            st
        }).reduce(Stats::default, Stats::merge);
    }

    // long sections: 8 .. 1000 components per section in three arrangements - the named variables at the front, at the
    // far end, and spread out between literal and variable fillers; every assignment, both formats. Placement must not
    // depend on how many components precede a component.
    let mut s_long = Stats::default();
    {
        let lens: &[usize] = if quick { &[8, 16, 17, 32, 33, 64, 65, 128, 129, 256, 257, 1000] } else { &[8, 15, 16, 17, 31, 32, 33, 63, 64, 65, 100, 127, 128, 129, 200, 255, 256, 257, 300, 511, 512, 513, 1000, 1023, 1024, 1025, 2000, 4097] };
        let fill_core = |k: usize| -> RComp { match k % 5 { 0 => Str(format!("c{k}")), 1 => V(RVar::BumpedBranch), 2 => Str(format!("0{k}x")), 3 => V(RVar::Custom("k".into())), _ => Str("x-y".into()) } };
        let fill_int = |k: usize| -> RComp { match k % 3 { 0 => UInt(k as u64), 1 => Str(format!("t{k}")), _ => V(RVar::Distance) } };
        let fill_extra = |k: usize| -> RComp { match k % 4 { 0 => Str(format!("e{k}")), 1 => UInt(k as u64), 2 => V(RVar::Dirty), _ => V(RVar::BumpedBranch) } };
        let fill_build = |k: usize| -> RComp { match k % 4 { 0 => Str(format!("B-{k}")), 1 => UInt(k as u64), 2 => V(RVar::Distance), _ => V(RVar::BumpedCommitHashShort) } };
        let place = |n: usize, named: &[RComp], arrangement: usize, fill: &dyn Fn(usize) -> RComp| -> Vec<RComp> {
            let f = n.saturating_sub(named.len());
            let mut out = vec![];
            match arrangement {
                0 => { out.extend(named.iter().cloned()); out.extend((0..f).map(fill)); }
                1 => { out.extend((0..f).map(fill)); out.extend(named.iter().cloned()); }
                _ => { let gap = f / named.len().max(1); let mut k = 0; for c in named { out.push(c.clone()); for _ in 0..gap { out.push(fill(k)); k += 1; } } while k < f { out.push(fill(k)); k += 1; } }
            }
            out
        };
        let schemas: Vec<RSchema> = lens.iter().flat_map(|&n| (0..3usize).flat_map(move |arr| (0..3usize).map(move |which| (n, arr, which)))).map(|(n, arr, which)| {
            let core_named = [V(RVar::Major), V(RVar::Minor), V(RVar::Patch)];
            let extra_named = [V(RVar::Epoch), V(RVar::PreRelease), V(RVar::Post), V(RVar::Dev)];
            let short_core = vec![V(RVar::Major), V(RVar::Minor), V(RVar::Patch)];
            match which {
                // non-integer fillers in the core: major.minor.patch are the named variables wherever they stand
                0 => RSchema { core: place(n, &core_named, arr, &fill_core), extra_core: vec![V(RVar::PreRelease)], build: vec![] },
                // integer-valued fillers in the core: the *first three* integer-valued components are the release
                1 => RSchema { core: place(n, &core_named, arr, &fill_int), extra_core: place(n, &extra_named, arr, &fill_extra), build: vec![] },
                _ => RSchema { core: short_core, extra_core: place(n, &extra_named, arr, &fill_extra), build: place(n, &[V(RVar::BumpedBranch)], arr, &fill_build) },
            }
        }).collect();
        s_long = schemas.par_iter().map(|sc| { let mut st = Stats::default(); st.inc("schemas"); st.inc("long_section_schemas"); for (name, v) in &asg { judge(&ctx, sc, name, v, &mut st); } st }).reduce(Stats::default, Stats::merge);
    }

    let (d1, _) = run_space(2, 1, 1);
    let (d2, _) = run_space(2, 1, 1);
    if d1.digest != d2.digest { machinery_error("determinism replay diverged"); }

    let all = s1.clone().merge(s2.clone()).merge(s3.clone()).merge(s4.clone()).merge(s_wide).merge(s_grid).merge(s_ts).merge(s_paths).merge(s_long).merge(s_words);
    let mut cov = Coverage::default();
    cov.states = all.get("schemas") * asg.len() as u64 + s3.get("tier_cases") + all.get("grid_values") * 55;
    cov.transitions = all.get("conversions") + s3.get("tier_cli_runs");
    cov.evaluations = all.get("conversions") + s3.get("tier_cli_runs") + s3.get("tier_cases") + s4.get("cli_conformance_cases");
    cov.traces_validated = cov.evaluations;
    cov.distinct_nontrivial = all.get("schemas");
    cov.rule = format!("valid schemas generated as programs: core sequences over {} components (Major/Minor/Patch order+uniqueness respected, uint/str literals incl. multi-identifier, empty and zero-padded ones, Distance, BumpedBranch, ts, custom), extra_core over {} (Epoch/PreRelease/Post/Dev once each, literals, Dirty, BumpedBranch), build over {}; bounds (core,extra,build) = {} product sizes {n1}+{n2}; each x {} variable assignments x 2 formats, SemVer::from / PEP440::from compared by full string equality with R-REN; 52 words that mean something to git / CI systems / configuration languages as branch, hash and custom values through `zerv version --source stdin` (and as --bumped-branch), judged by R-REN; sections of 8 .. 1000 (thorough 4097) components, named variables first / last / spread between literal and variable fillers, integer-valued and non-integer fillers in the core; the 16 timestamp patterns x 4 placements x 19 instants (New-Year days whose ISO week belongs to the other year, leap days, month ends, the epoch); 29 custom-variable paths (keys with '/', '~', blanks, digits, non-ASCII; paths into arrays, objects, null and nothing) x 4 placements; smart presets: 6 presets x dirty x distance x pre x post x dev tier table at schema_with_zerv and through the CLI. dense numeric grid: {} values (0..=300, neighbourhoods of 2^8..2^64 and 10^2..10^20 up to u64::MAX) in each numeric variable in turn, all at once, as uint literal, custom number and branch segment x 5 schemas. non-trivial = distinct non-empty schemas", all.get("grid_values"), core_alpha.len(), extra_alpha.len(), build_alpha.len(), if quick { "(3,2,1)" } else { "(4,2,1) and (3,3,2)" }, asg.len());
    cov.exhaustive = true;
    cov.samples = vec![json!({"core":"Major,str(\"1.2\"),Patch","extra_core":"PreRelease,Dirty","build":"str(\"B-1\")","vars":"all_set"}), json!({"preset":"calver","dirty":false,"distance":0,"post":2}), json!({"core":"str(\"007\"),ts(YYYY)","extra_core":"Epoch","build":"","vars":"zeros"})];
    cov.set("clause_counts", all.to_json());
    cov.set("process_conformance_cases", s4.get("process_conformance_cases"));
    cov.assumptions = vec!["R-REN (harness/src/refmodel/ren.rs) transcribes the C06 statement and README; integer-valued core components are taken as release numbers only when they fit the format's integer width".into(), "component alphabet and sequence lengths as stated".into()];
    finish(&ctx, cov);
}
